"""
Path languages over statement lists (DESIGN.md §2.2/§2.8).

`enumerate_paths(stmts, classify)` returns every control-flow path through an *acyclic*
region as a list of events.  A rule then demands that every path belongs to a small
regular language.  Loops inside the region are summarised: a loop whose body yields no
event is skipped; a loop whose body yields events appears as one `Loop` event carrying
the paths of its body (the rule decides what to do with it).

Raising paths are not normal exits and are dropped.  `return`, `break`, `continue` end a
path with a terminator event.
"""
import ast
from .model import AnalysisError


class Event:
    __slots__ = ("name", "node", "data")

    def __init__(self, name, node=None, data=None):
        self.name = name
        self.node = node
        self.data = data

    def __repr__(self):
        return self.name

    @property
    def line(self):
        return getattr(self.node, "lineno", None)


class PathLimit(AnalysisError):
    pass


LIMIT = 4096


def _always_raises(stmts):
    """True if the statement list certainly ends in raise on every path (simple cases)."""
    for s in stmts:
        if isinstance(s, ast.Raise):
            return True
    return False


def enumerate_paths(stmts, classify, cond_events=None):
    """
    classify(stmt) -> list[Event] for a simple statement (Assign/AugAssign/Expr/AnnAssign/
    Return value/...).  cond_events(expr) -> list[Event] for a branch condition (default:
    classify on an ast.Expr wrapper).

    Returns list of paths; each path is a list of Events; the last event of a path may be a
    terminator Event named '<return>', '<break>', '<continue>'.  Paths ending in raise are
    omitted.
    """
    if cond_events is None:
        def cond_events(e):
            return classify(ast.Expr(value=e))

    def seq(stmts, prefixes):
        # prefixes: list of (path, open?)
        for st in stmts:
            nxt = []
            open_paths = [p for p in prefixes if not _closed(p)]
            closed = [p for p in prefixes if _closed(p)]
            if not open_paths:
                return prefixes
            alts = one(st)
            for p in open_paths:
                for a in alts:
                    if a is None:
                        continue  # raising path
                    nxt.append(p + a)
                    if len(nxt) + len(closed) > LIMIT:
                        raise PathLimit("more than %d paths" % LIMIT)
            prefixes = closed + nxt
        return prefixes

    def _closed(p):
        return bool(p) and p[-1].name in ("<return>", "<break>", "<continue>")

    def one(st):
        """alternatives for a single statement: list of event-lists, None = raises"""
        if isinstance(st, (ast.Assign, ast.AugAssign, ast.AnnAssign, ast.Expr, ast.Delete, ast.Assert)):
            return [list(classify(st))]
        if isinstance(st, ast.Pass) or isinstance(st, (ast.Import, ast.ImportFrom, ast.Global, ast.Nonlocal)):
            return [[]]
        if isinstance(st, ast.Return):
            ev = list(classify(st))
            return [ev + [Event("<return>", st)]]
        if isinstance(st, ast.Raise):
            return [None]
        if isinstance(st, ast.Break):
            return [[Event("<break>", st)]]
        if isinstance(st, ast.Continue):
            return [[Event("<continue>", st)]]
        if isinstance(st, ast.If):
            ce = list(cond_events(st.test))
            out = []
            for branch, tag in ((st.body, True), (st.orelse, False)):
                bp = seq(branch, [[]]) if branch else [[]]
                if branch and not bp:
                    out.append(None)
                for p in bp:
                    out.append(ce + [Event("<if>", st, (st.test, tag))] + p)
            # drop pure-raise marker if other alternatives exist
            res = [o for o in out if o is not None]
            # strip the synthetic <if> markers unless the caller wants them
            return res if res else [None]
        if isinstance(st, (ast.For, ast.While)):
            body_paths = seq(st.body, [[]])
            has = any(any(not e.name.startswith("<") for e in p) for p in body_paths)
            hdr = list(cond_events(st.iter if isinstance(st, ast.For) else st.test))
            if not has and not any(p and p[-1].name == "<return>" for p in body_paths):
                return [hdr]
            return [hdr + [Event("<loop>", st, body_paths)]]
        if isinstance(st, ast.With):
            pre = []
            for it in st.items:
                pre += list(cond_events(it.context_expr))
            bp = seq(st.body, [[]])
            return [pre + p for p in bp] or [None]
        if isinstance(st, ast.Try):
            bp = seq(st.body, [[]])
            alts = [p for p in bp]
            for h in st.handlers:
                hp = seq(h.body, [[]])
                for p in hp:
                    alts.append([Event("<except>", h)] + p)
            if st.orelse:
                alts = [p + q for p in alts for q in seq(st.orelse, [[]])]
            if st.finalbody:
                alts = [p + q for p in alts for q in seq(st.finalbody, [[]])]
            return alts or [None]
        if isinstance(st, (ast.FunctionDef, ast.ClassDef, ast.AsyncFunctionDef)):
            return [[]]
        raise AnalysisError("statement kind %s not modelled by the path enumerator" % type(st).__name__)

    res = seq(list(stmts), [[]])
    return res


def strip_markers(path, keep=()):
    return [e for e in path if not e.name.startswith("<") or e.name in keep]


def names(path, keep=()):
    return [e.name for e in strip_markers(path, keep)]


def calls_in_order(node):
    """All ast.Call nodes inside `node` in evaluation order (arguments before the call)."""
    out = []

    def visit(n):
        if isinstance(n, (ast.Lambda, ast.FunctionDef, ast.AsyncFunctionDef, ast.ClassDef)):
            return
        if isinstance(n, ast.Call):
            visit(n.func)
            for a in n.args:
                visit(a)
            for k in n.keywords:
                visit(k.value)
            out.append(n)
            return
        for c in ast.iter_child_nodes(n):
            visit(c)

    visit(node)
    return out
