"""
Program model of /repo/pybrops: modules, imports, classes with C3 MRO, property
tables, method lookup per concrete class, super() resolution, dotted-name resolution.

Everything is derived from the source with `ast`; nothing from pybrops is imported
or executed.
"""
import ast
import os
import sys
import hashlib

REPO = os.environ.get("VERIF_REPO", "/repo")
PKG = "pybrops"


class AnalysisError(Exception):
    """The analyser cannot decide (anchor vanished, idiom not modelled): exit 2."""


class External:
    """A name that resolves outside the package (numpy.take, copy.deepcopy, ...)."""
    __slots__ = ("dotted",)

    def __init__(self, dotted):
        self.dotted = dotted

    def __repr__(self):
        return "External(%s)" % self.dotted

    def __eq__(self, o):
        return isinstance(o, External) and o.dotted == self.dotted

    def __hash__(self):
        return hash(("ext", self.dotted))


class ModuleRef:
    __slots__ = ("name",)

    def __init__(self, name):
        self.name = name

    def __repr__(self):
        return "ModuleRef(%s)" % self.name


class FuncInfo:
    """A module-level function or a method."""

    def __init__(self, module, node, cls=None, kind="function"):
        self.module = module
        self.node = node
        self.cls = cls
        self.kind = kind  # function | method | classmethod | staticmethod | getter | setter
        self.name = node.name

    @property
    def qualname(self):
        if self.cls is not None:
            return "%s:%s.%s" % (self.module.name, self.cls.name, self.name)
        return "%s:%s" % (self.module.name, self.name)

    @property
    def relpath(self):
        return self.module.relpath

    def params(self):
        a = self.node.args
        return [x.arg for x in a.posonlyargs + a.args + a.kwonlyargs]

    def has_kwargs(self):
        return self.node.args.kwarg is not None

    def __repr__(self):
        return "<Func %s>" % self.qualname


class PropInfo:
    def __init__(self, name):
        self.name = name
        self.getter = None  # FuncInfo
        self.setter = None  # FuncInfo

    def clone(self):
        p = PropInfo(self.name)
        p.getter, p.setter = self.getter, self.setter
        return p


_FLIP = {ast.Lt: ast.Gt, ast.LtE: ast.GtE, ast.Gt: ast.Lt, ast.GtE: ast.LtE, ast.Eq: ast.Eq, ast.NotEq: ast.NotEq}


def _constant_like(e):
    if isinstance(e, ast.Constant) and e.value is not None and not isinstance(e.value, bool):
        return True
    if isinstance(e, ast.UnaryOp) and isinstance(e.op, (ast.USub, ast.UAdd)) and isinstance(e.operand, ast.Constant):
        return True
    if isinstance(e, ast.Attribute) and isinstance(e.value, ast.Name) and e.value.id in ("numpy", "np", "math") and e.attr in ("inf", "Inf", "infty", "nan", "NaN", "pi"):
        return True
    return False


def _canonicalise_comparisons(tree):
    """`0 < x` is read as `x > 0`: a single comparison whose LEFT side only is a literal is turned round (same meaning for numbers and arrays),
    so that no rule depends on which side of a comparison a literal was written"""
    for n in ast.walk(tree):
        if isinstance(n, ast.Compare) and len(n.ops) == 1 and type(n.ops[0]) in _FLIP and _constant_like(n.left) and not _constant_like(n.comparators[0]):
            n.left, n.comparators, n.ops = n.comparators[0], [n.left], [_FLIP[type(n.ops[0])]()]


def _canonicalise_import_aliases(tree):
    """`import numpy as np` is read as `import numpy`, and every `np.x` as `numpy.x` (likewise any `import a.b as c` of a module outside the
    package): no rule depends on the alias a module chose.  Skipped when the alias is rebound anywhere in the module."""
    aliases = {}
    imps = []

    def scan(stmts):
        for st in stmts:
            if isinstance(st, ast.Import):
                imps.append(st)
            elif isinstance(st, (ast.If, ast.Try)):
                for sub in ast.iter_child_nodes(st):
                    if isinstance(sub, ast.stmt):
                        scan([sub])
                    elif isinstance(sub, ast.ExceptHandler):
                        scan(sub.body)
    scan(tree.body)
    for st in imps:
        for a in st.names:
            if a.asname and a.asname != a.name and not a.name.startswith("pybrops"):
                aliases.setdefault(a.asname, set()).add(a.name)
    aliases = {k: next(iter(v)) for k, v in aliases.items() if len(v) == 1}
    if not aliases:
        return 0
    bound = {}
    for n in ast.walk(tree):
        if isinstance(n, ast.Name) and isinstance(n.ctx, (ast.Store, ast.Del)):
            bound[n.id] = True
        elif isinstance(n, ast.arg):
            bound[n.arg] = True
        elif isinstance(n, (ast.FunctionDef, ast.AsyncFunctionDef, ast.ClassDef)):
            bound[n.name] = True
        elif isinstance(n, ast.ImportFrom):
            for a in n.names:
                bound[a.asname or a.name] = True
        elif isinstance(n, ast.Import) and n not in imps:
            for a in n.names:
                bound[a.asname or a.name.split(".")[0]] = True
        elif isinstance(n, ast.ExceptHandler) and n.name:
            bound[n.name] = True
    aliases = {k: v for k, v in aliases.items() if k not in bound and v.split(".")[0] not in bound}
    if not aliases:
        return 0
    for st in imps:
        for a in st.names:
            if a.asname in aliases and aliases[a.asname] == a.name:
                a.asname = None
    count = 0

    class T(ast.NodeTransformer):
        def visit_Name(self, n):
            nonlocal count
            if isinstance(n.ctx, ast.Load) and n.id in aliases:
                parts = aliases[n.id].split(".")
                e = ast.Name(id=parts[0], ctx=ast.Load())
                for p_ in parts[1:]:
                    e = ast.Attribute(value=e, attr=p_, ctx=ast.Load())
                count += 1
                return ast.copy_location(e, n) if not parts[1:] else ast.fix_missing_locations(ast.copy_location(e, n))
            return n
    T().visit(tree)
    for n in ast.walk(tree):
        for c in ast.iter_child_nodes(n):
            if not hasattr(c, "lineno") and hasattr(n, "lineno") and isinstance(c, (ast.expr, ast.stmt)):
                ast.copy_location(c, n)
    return count


def _canonicalise_shape0(tree):
    """`x.shape[0]` is read as `len(x)` (x a name, attribute or subscript chain): the two spellings of the number of rows of an array"""
    count = 0

    def pure(e):
        return isinstance(e, ast.Name) or (isinstance(e, ast.Attribute) and pure(e.value)) or (isinstance(e, ast.Subscript) and pure(e.value))

    class T(ast.NodeTransformer):
        def visit_Subscript(self, n):
            nonlocal count
            self.generic_visit(n)
            if isinstance(n.ctx, ast.Load) and isinstance(n.value, ast.Attribute) and n.value.attr == "shape" and isinstance(n.slice, ast.Constant) and n.slice.value == 0 \
                    and not isinstance(n.slice.value, bool) and pure(n.value.value):
                count += 1
                return ast.copy_location(ast.Call(func=ast.copy_location(ast.Name(id="len", ctx=ast.Load()), n), args=[n.value.value], keywords=[]), n)
            return n
    T().visit(tree)
    if count:
        ast.fix_missing_locations(tree)
    return count


def _canonicalise_subscripts(tree):
    """`x[i, :]` is read as `x[i]`: trailing full slices of a subscript tuple select nothing (numpy basic indexing), so no rule depends on them"""
    count = 0
    for n in ast.walk(tree):
        if isinstance(n, ast.Subscript) and isinstance(n.slice, ast.Tuple) and len(n.slice.elts) >= 2:
            elts = list(n.slice.elts)
            if any(isinstance(e, ast.Constant) and (e.value is Ellipsis or e.value is None) for e in elts):
                continue

            def full(e):
                return isinstance(e, ast.Slice) and e.lower is None and e.upper is None and e.step is None
            if not full(elts[-1]):
                continue
            # the written subscript count is kept for rank rules: x[a, b, :, :] needs four axes, x[a, b] only two
            n._nsub_written = len(elts)
            n._written = ast.unparse(n)
            while len(elts) > 1 and full(elts[-1]):
                elts.pop()
            n.slice = elts[0] if len(elts) == 1 else ast.copy_location(ast.Tuple(elts=elts, ctx=ast.Load()), n.slice)
            count += 1
    return count


def _scalar_constant(e):
    """a numeric / string / bool / None literal, possibly negated; or a tuple of such"""
    if isinstance(e, ast.Constant) and (e.value is None or isinstance(e.value, (int, float, str, bool))):
        return True
    if isinstance(e, ast.UnaryOp) and isinstance(e.op, (ast.USub, ast.UAdd)) and isinstance(e.operand, ast.Constant) and isinstance(e.operand.value, (int, float)) \
            and not isinstance(e.operand.value, bool):
        return True
    if isinstance(e, ast.Tuple) and e.elts and all(_scalar_constant(x) and not isinstance(x, ast.Tuple) for x in e.elts):
        return True
    # arithmetic over numeric literals (2**32 - 1)
    if isinstance(e, ast.BinOp) and isinstance(e.op, (ast.Add, ast.Sub, ast.Mult, ast.Pow, ast.FloorDiv, ast.Div, ast.Mod, ast.LShift)):
        def num(x):
            return (isinstance(x, ast.Constant) and isinstance(x.value, (int, float)) and not isinstance(x.value, bool)) or \
                (isinstance(x, ast.BinOp) and isinstance(x.op, (ast.Add, ast.Sub, ast.Mult, ast.Pow, ast.FloorDiv, ast.Div, ast.Mod, ast.LShift)) and num(x.left) and num(x.right)) or \
                (isinstance(x, ast.UnaryOp) and isinstance(x.op, (ast.USub, ast.UAdd)) and num(x.operand))
        return num(e)
    return False


def _canonicalise_module_constants(tree):
    """A module-level name bound ONCE to a literal (number, string, None, or a tuple of them) and never rebound anywhere in the module is read as that literal:
    `self.t_cur = _T_START` with `_T_START = 0` at module level is `self.t_cur = 0`.  Names listed in __all__ are left alone."""
    import copy
    binds = {}
    for st in tree.body:
        if isinstance(st, ast.Assign) and len(st.targets) == 1 and isinstance(st.targets[0], ast.Name) and _scalar_constant(st.value):
            binds.setdefault(st.targets[0].id, []).append(st.value)
        elif isinstance(st, ast.AnnAssign) and isinstance(st.target, ast.Name) and st.value is not None and _scalar_constant(st.value):
            binds.setdefault(st.target.id, []).append(st.value)
    if not binds:
        return 0
    stores = {}
    for n in ast.walk(tree):
        if isinstance(n, ast.Name) and isinstance(n.ctx, (ast.Store, ast.Del)):
            stores[n.id] = stores.get(n.id, 0) + 1
        elif isinstance(n, ast.arg):
            stores[n.arg] = stores.get(n.arg, 0) + 2
        elif isinstance(n, (ast.FunctionDef, ast.AsyncFunctionDef, ast.ClassDef)):
            stores[n.name] = stores.get(n.name, 0) + 2
        elif isinstance(n, (ast.Import, ast.ImportFrom)):
            for a in n.names:
                nm = a.asname or a.name.split(".")[0]
                stores[nm] = stores.get(nm, 0) + 2
        elif isinstance(n, (ast.Global, ast.Nonlocal)):
            for nm in n.names:
                stores[nm] = stores.get(nm, 0) + 2
        elif isinstance(n, ast.ExceptHandler) and n.name:
            stores[n.name] = stores.get(n.name, 0) + 2
    consts = {k: v[0] for k, v in binds.items() if len(v) == 1 and stores.get(k, 0) == 1 and k != "__all__" and not (k.startswith("__") and k.endswith("__"))}
    if not consts:
        return 0
    count = 0

    class T(ast.NodeTransformer):
        def visit_Name(self, n):
            nonlocal count
            if isinstance(n.ctx, ast.Load) and n.id in consts:
                count += 1
                return ast.copy_location(copy.deepcopy(consts[n.id]), n)
            return n
    for st in tree.body:
        if isinstance(st, (ast.FunctionDef, ast.AsyncFunctionDef, ast.ClassDef)):
            T().visit(st)
    for n in ast.walk(tree):
        for c in ast.iter_child_nodes(n):
            if isinstance(c, (ast.expr, ast.stmt)) and not hasattr(c, "lineno") and hasattr(n, "lineno"):
                ast.copy_location(c, n)
    return count


def _canonicalise_attr_loops(tree):
    """`for name in ("a", "b"): setattr(out, name, copy(getattr(self, name)))` is read as the two assignments it performs, and getattr(x, "a") / setattr(x, "a", v)
    with a literal name as x.a / x.a = v: attribute traffic by constant name is ordinary attribute traffic.  Loops are unrolled only when the loop variable occurs
    nowhere but as the name argument of getattr / setattr / hasattr, over at most 16 string literals."""
    import copy
    count = 0

    def literal_attr(n):
        """getattr(x, 'lit') -> x.lit ; statement setattr(x, 'lit', v) -> x.lit = v"""
        nonlocal count

        class T(ast.NodeTransformer):
            def visit_Call(self, c):
                nonlocal count
                self.generic_visit(c)
                if isinstance(c.func, ast.Name) and c.func.id == "getattr" and len(c.args) == 2 and not c.keywords and isinstance(c.args[1], ast.Constant) \
                        and isinstance(c.args[1].value, str) and c.args[1].value.isidentifier():
                    count += 1
                    return ast.copy_location(ast.Attribute(value=c.args[0], attr=c.args[1].value, ctx=ast.Load()), c)
                return c

            def visit_Expr(self, st):
                nonlocal count
                self.generic_visit(st)
                c = st.value
                if isinstance(c, ast.Call) and isinstance(c.func, ast.Name) and c.func.id == "setattr" and len(c.args) == 3 and not c.keywords \
                        and isinstance(c.args[1], ast.Constant) and isinstance(c.args[1].value, str) and c.args[1].value.isidentifier():
                    count += 1
                    return ast.copy_location(ast.Assign(targets=[ast.Attribute(value=c.args[0], attr=c.args[1].value, ctx=ast.Store())], value=c.args[2]), st)
                return st
        return T().visit(n)

    def unroll(blk):
        out = []
        for st in blk:
            for fld in ("body", "orelse", "finalbody"):
                v = getattr(st, fld, None)
                if isinstance(v, list) and v and isinstance(v[0], ast.stmt):
                    setattr(st, fld, unroll(v))
            if isinstance(st, ast.Try):
                for h in st.handlers:
                    h.body = unroll(h.body)
            if isinstance(st, ast.For) and isinstance(st.target, ast.Name) and not st.orelse and isinstance(st.iter, (ast.Tuple, ast.List)) and 0 < len(st.iter.elts) <= 16 \
                    and all(isinstance(e, ast.Constant) and isinstance(e.value, str) and e.value.isidentifier() for e in st.iter.elts):
                v = st.target.id
                uses = [n for b in st.body for n in ast.walk(b) if isinstance(n, ast.Name) and n.id == v]
                name_args = [c.args[1] for b in st.body for c in ast.walk(b) if isinstance(c, ast.Call) and isinstance(c.func, ast.Name)
                             and c.func.id in ("getattr", "setattr", "hasattr") and len(c.args) >= 2 and not c.keywords]
                flow = any(isinstance(n, (ast.Break, ast.Continue, ast.Return)) for b in st.body for n in ast.walk(b))
                keys = [n.slice for b in st.body for n in ast.walk(b) if isinstance(n, ast.Subscript)]     # d[name]: a constant key per iteration
                if uses and any(any(u is a for a in name_args) for u in uses) and all(any(u is a for a in name_args + keys) for u in uses) and not flow:
                    for e in st.iter.elts:
                        for b in st.body:
                            nb = copy.deepcopy(b)
                            for n in ast.walk(nb):
                                for fld, val in ast.iter_fields(n):
                                    if isinstance(val, list):
                                        for i_, x in enumerate(val):
                                            if isinstance(x, ast.Name) and x.id == v and isinstance(x.ctx, ast.Load):
                                                val[i_] = ast.copy_location(ast.Constant(value=e.value), x)
                                    elif isinstance(val, ast.Name) and val.id == v and isinstance(val.ctx, ast.Load):
                                        setattr(n, fld, ast.copy_location(ast.Constant(value=e.value), val))
                            out.append(nb)
                    nonlocal count
                    count += 1
                    continue
            out.append(st)
        return out
    def str_tuple(e):
        return isinstance(e, (ast.Tuple, ast.List)) and 0 < len(e.elts) <= 32 and all(isinstance(x, ast.Constant) and isinstance(x.value, str) and x.value.isidentifier() for x in e.elts)

    def local_name_tuples(fn):
        """a local bound once to a tuple of identifier strings and only iterated over stands for that tuple"""
        binds, stores = {}, {}
        for n in ast.walk(fn):
            if isinstance(n, ast.Assign) and len(n.targets) == 1 and isinstance(n.targets[0], ast.Name) and str_tuple(n.value):
                binds[n.targets[0].id] = n.value
            if isinstance(n, ast.Name) and isinstance(n.ctx, (ast.Store, ast.Del)):
                stores[n.id] = stores.get(n.id, 0) + 1
        binds = {k: v for k, v in binds.items() if stores.get(k, 0) == 1}
        if not binds:
            return
        for n in ast.walk(fn):
            if isinstance(n, ast.For) and isinstance(n.iter, ast.Name) and n.iter.id in binds:
                n.iter = copy.deepcopy(binds[n.iter.id])
            elif isinstance(n, (ast.DictComp, ast.ListComp, ast.GeneratorExp, ast.SetComp)):
                for g in n.generators:
                    if isinstance(g.iter, ast.Name) and g.iter.id in binds:
                        g.iter = copy.deepcopy(binds[g.iter.id])

    class ExpandDictComp(ast.NodeTransformer):
        """{name: f(getattr(o, name)) for name in ("a", "b")} -> {"a": f(getattr(o, "a")), "b": ...};  g(**{"a": x, "b": y}) -> g(a=x, b=y)"""

        def visit_DictComp(self, n):
            nonlocal count
            self.generic_visit(n)
            if len(n.generators) == 1 and not n.generators[0].ifs and isinstance(n.generators[0].target, ast.Name) and str_tuple(n.generators[0].iter) \
                    and isinstance(n.key, ast.Name) and n.key.id == n.generators[0].target.id:
                v = n.generators[0].target.id
                keys, vals = [], []
                for e in n.generators[0].iter.elts:
                    val = copy.deepcopy(n.value)
                    for x in ast.walk(val):
                        for fld, child in ast.iter_fields(x):
                            if isinstance(child, list):
                                for i_, c_ in enumerate(child):
                                    if isinstance(c_, ast.Name) and c_.id == v and isinstance(c_.ctx, ast.Load):
                                        child[i_] = ast.Constant(value=e.value)
                            elif isinstance(child, ast.Name) and child.id == v and isinstance(child.ctx, ast.Load):
                                setattr(x, fld, ast.Constant(value=e.value))
                    if isinstance(val, ast.Name) and val.id == v:
                        val = ast.Constant(value=e.value)
                    keys.append(ast.Constant(value=e.value))
                    vals.append(val)
                count += 1
                return ast.copy_location(ast.Dict(keys=keys, values=vals), n)
            return n

        def visit_Call(self, c):
            nonlocal count
            self.generic_visit(c)
            newkw = []
            changed = False
            for k in c.keywords:
                if k.arg is None and isinstance(k.value, ast.Call) and isinstance(k.value.func, ast.Name) and k.value.func.id == "dict" and not k.value.args \
                        and k.value.keywords and all(kk.arg is not None for kk in k.value.keywords):
                    newkw.extend(ast.keyword(arg=kk.arg, value=kk.value) for kk in k.value.keywords)
                    changed = True
                elif k.arg is None and isinstance(k.value, ast.Dict) and k.value.keys and all(isinstance(x, ast.Constant) and isinstance(x.value, str) and x.value.isidentifier()
                                                                                           for x in k.value.keys):
                    for kk, vv in zip(k.value.keys, k.value.values):
                        newkw.append(ast.keyword(arg=kk.value, value=vv))
                    changed = True
                else:
                    newkw.append(k)
            if changed and len({k.arg for k in newkw if k.arg}) == len([k for k in newkw if k.arg]):
                c.keywords = newkw
                count += 1
            return c

    def local_kwargs_dicts(fn):
        """`opts = dict(a=x, b=y)` / `opts = {"a": x, "b": y}` bound once and read only as `**opts` in calls is put back into those calls (`f(**opts)` -> `f(a=x, b=y)`):
        collecting keyword arguments under a name before passing them does not change what is passed"""
        nonlocal count
        stores, loads, stars = {}, {}, {}
        for n in ast.walk(fn):
            if isinstance(n, ast.Name):
                if isinstance(n.ctx, ast.Load):
                    loads[n.id] = loads.get(n.id, 0) + 1
                else:
                    stores[n.id] = stores.get(n.id, 0) + 1
            elif isinstance(n, ast.Call):
                for k in n.keywords:
                    if k.arg is None and isinstance(k.value, ast.Name):
                        stars[k.value.id] = stars.get(k.value.id, 0) + 1
        params = {a.arg for a in fn.args.args + fn.args.kwonlyargs + fn.args.posonlyargs} | ({fn.args.kwarg.arg} if fn.args.kwarg else set())
        for owner in ast.walk(fn):
            for fld in ("body", "orelse", "finalbody"):
                blk = getattr(owner, fld, None)
                if not (isinstance(blk, list) and blk and isinstance(blk[0], ast.stmt)):
                    continue
                for st in list(blk):
                    if not (isinstance(st, ast.Assign) and len(st.targets) == 1 and isinstance(st.targets[0], ast.Name)):
                        continue
                    v, d = st.targets[0].id, st.value
                    isdict = (isinstance(d, ast.Dict) and d.keys and all(isinstance(x, ast.Constant) and isinstance(x.value, str) and x.value.isidentifier() for x in d.keys)) or \
                        (isinstance(d, ast.Call) and isinstance(d.func, ast.Name) and d.func.id == "dict" and not d.args and d.keywords and all(kk.arg for kk in d.keywords))
                    if not isdict or v in params or stores.get(v, 0) != 1 or not stars.get(v) or loads.get(v, 0) != stars[v]:
                        continue
                    for c in ast.walk(fn):
                        if isinstance(c, ast.Call):
                            for k in c.keywords:
                                if k.arg is None and isinstance(k.value, ast.Name) and k.value.id == v:
                                    k.value = copy.deepcopy(d)
                    blk.remove(st)
                    count += 1

    for fn in ast.walk(tree):
        if isinstance(fn, (ast.FunctionDef, ast.AsyncFunctionDef)):
            local_name_tuples(fn)
    ExpandDictComp().visit(tree)
    before = count
    for fn in ast.walk(tree):
        if isinstance(fn, (ast.FunctionDef, ast.AsyncFunctionDef)):
            local_kwargs_dicts(fn)
    if count != before:
        ExpandDictComp().visit(tree)
    for fn in ast.walk(tree):
        if isinstance(fn, (ast.FunctionDef, ast.AsyncFunctionDef)):
            fn.body = unroll(fn.body)
    for fn in ast.walk(tree):
        if isinstance(fn, (ast.FunctionDef, ast.AsyncFunctionDef)):
            fn.body = [literal_attr(st) for st in fn.body]
    ast.fix_missing_locations(tree)
    return count


_NEGCMP = {ast.NotEq: ast.Eq, ast.IsNot: ast.Is, ast.NotIn: ast.In}


def _canonicalise_branches(tree):
    """Two layouts of the same alternatives are read alike:
    (a) `if not c: A else: B` is read as `if c: B else: A`;
    (b) `if c: <body that returns / raises / continues / breaks> else: B` is read as the if without else, followed by B."""
    count = 0
    for n in ast.walk(tree):
        if isinstance(n, ast.If) and n.orelse and isinstance(n.test, ast.UnaryOp) and isinstance(n.test.op, ast.Not) \
                and not (len(n.orelse) == 1 and isinstance(n.orelse[0], ast.If)):
            n.test = n.test.operand
            n.body, n.orelse = n.orelse, n.body
            count += 1
        # (a') a negative comparison with an else branch is read in its positive form: `if a != b: A else: B` as `if a == b: B else: A`
        if isinstance(n, ast.If) and n.orelse and isinstance(n.test, ast.Compare) and len(n.test.ops) == 1 and type(n.test.ops[0]) in _NEGCMP \
                and not (len(n.orelse) == 1 and isinstance(n.orelse[0], ast.If)):
            n.test.ops = [_NEGCMP[type(n.test.ops[0])]()]
            n.body, n.orelse = n.orelse, n.body
            count += 1
    # (c) `if c: x = A else: x = B` (one plain assignment to the same name on each side) is read as `x = A if c else B`
    for owner in ast.walk(tree):
        for fld in ("body", "orelse", "finalbody"):
            blk = getattr(owner, fld, None)
            if not (isinstance(blk, list) and blk and isinstance(blk[0], ast.stmt)):
                continue
            for i, st in enumerate(blk):
                if isinstance(st, ast.If) and len(st.body) == 1 and len(st.orelse) == 1 and all(
                        isinstance(x, ast.Assign) and len(x.targets) == 1 and isinstance(x.targets[0], ast.Name) for x in (st.body[0], st.orelse[0])) \
                        and st.body[0].targets[0].id == st.orelse[0].targets[0].id:
                    new = ast.Assign(targets=[st.body[0].targets[0]], value=ast.IfExp(test=st.test, body=st.body[0].value, orelse=st.orelse[0].value))
                    blk[i] = ast.fix_missing_locations(ast.copy_location(new, st))
                    count += 1
    # (c') `if c: return A` directly followed by `return B` is read as `return A if c else B`
    for owner in ast.walk(tree):
        for fld in ("body", "orelse", "finalbody"):
            blk = getattr(owner, fld, None)
            if not (isinstance(blk, list) and len(blk) >= 2 and isinstance(blk[0], ast.stmt)):
                continue
            i = 0
            while i + 1 < len(blk):
                a, b = blk[i], blk[i + 1]
                if isinstance(a, ast.If) and not a.orelse and len(a.body) == 1 and isinstance(a.body[0], ast.Return) and a.body[0].value is not None \
                        and isinstance(b, ast.Return) and b.value is not None:
                    new = ast.Return(value=ast.IfExp(test=a.test, body=a.body[0].value, orelse=b.value))
                    blk[i] = ast.fix_missing_locations(ast.copy_location(new, a))
                    del blk[i + 1]
                    count += 1
                    continue
                i += 1
    # (d) a conditional expression on a negative test is read in its positive form: `A if not c else B` is `B if c else A` (also != / is not / not in)
    for n in ast.walk(tree):
        if isinstance(n, ast.IfExp):
            if isinstance(n.test, ast.UnaryOp) and isinstance(n.test.op, ast.Not):
                n.test = n.test.operand
                n.body, n.orelse = n.orelse, n.body
                count += 1
            elif isinstance(n.test, ast.Compare) and len(n.test.ops) == 1 and type(n.test.ops[0]) in _NEGCMP:
                n.test.ops = [_NEGCMP[type(n.test.ops[0])]()]
                n.body, n.orelse = n.orelse, n.body
                count += 1
    changed = True
    while changed:
        changed = False
        for owner in ast.walk(tree):
            blks = [(owner, fld) for fld in ("body", "orelse", "finalbody") if isinstance(getattr(owner, fld, None), list)]
            for o, fld in blks:
                blk = getattr(o, fld)
                if not (blk and isinstance(blk[0], ast.stmt)):
                    continue
                out = []
                for st in blk:
                    out.append(st)
                    if isinstance(st, ast.If) and st.orelse and st.body and isinstance(st.body[-1], (ast.Return, ast.Raise, ast.Continue, ast.Break)):
                        out.extend(st.orelse)
                        st.orelse = []
                        count += 1
                        changed = True
                if len(out) != len(blk):
                    setattr(o, fld, out)
            if isinstance(owner, ast.Try):
                for h in owner.handlers:
                    out = []
                    for st in h.body:
                        out.append(st)
                        if isinstance(st, ast.If) and st.orelse and st.body and isinstance(st.body[-1], (ast.Return, ast.Raise, ast.Continue, ast.Break)):
                            out.extend(st.orelse)
                            st.orelse = []
                            count += 1
                            changed = True
                    h.body = out
    return count


def _canonicalise_tuple_assign(tree):
    """`a, b = E1, E2` (plain, distinct names on the left, as many values on the right, no value reading a name that stands EARLIER on the left, no starred element) is read as
    `a = E1 ; b = E2`: the values do not depend on the targets, so the joint and the sequential form bind the same values - no rule depends on whether two
    independent assignments were written on one line."""
    count = 0
    for owner in ast.walk(tree):
        blks = [(owner, fld) for fld in ("body", "orelse", "finalbody") if isinstance(getattr(owner, fld, None), list)]
        hs = [(h, "body") for h in owner.handlers] if isinstance(owner, ast.Try) else []
        for o, fld in blks + hs:
            blk = getattr(o, fld)
            if not (blk and isinstance(blk[0], ast.stmt)):
                continue
            out = []
            for st in blk:
                if (isinstance(st, ast.Assign) and len(st.targets) == 1 and isinstance(st.targets[0], ast.Tuple) and isinstance(st.value, ast.Tuple)
                        and len(st.targets[0].elts) == len(st.value.elts) >= 2 and all(isinstance(t, ast.Name) for t in st.targets[0].elts)
                        and not any(isinstance(v, ast.Starred) for v in st.value.elts)):
                    tg = [t.id for t in st.targets[0].elts]
                    # value j may read its own and later targets (still unassigned when it is evaluated in the sequential form), never an earlier one
                    if len(set(tg)) == len(tg) and not any(isinstance(n, ast.Name) and n.id in tg[:j] for j, v in enumerate(st.value.elts) for n in ast.walk(v)) \
                            and not any(isinstance(n, (ast.NamedExpr, ast.Lambda, ast.Yield, ast.Await)) for v in st.value.elts for n in ast.walk(v)):
                        for t, v in zip(st.targets[0].elts, st.value.elts):
                            out.append(ast.copy_location(ast.Assign(targets=[t], value=v), st))
                        count += 1
                        continue
                out.append(st)
            setattr(o, fld, out)
    return count


def _canonicalise_temporaries(tree):
    """`t = E ; return t` is read as `return E`, and `t = E ; <target> = t` as `<target> = E`, when t is a local that is assigned once and read
    once (here): the evaluation order is the same in both forms whatever E does, so no rule depends on whether a returned / stored value was
    given a name first."""
    count = 0
    for fn in ast.walk(tree):
        if not isinstance(fn, (ast.FunctionDef, ast.AsyncFunctionDef)):
            continue
        uses, stores = {}, {}
        skip = {a.arg for a in fn.args.args + fn.args.kwonlyargs + fn.args.posonlyargs}
        if fn.args.vararg:
            skip.add(fn.args.vararg.arg)
        if fn.args.kwarg:
            skip.add(fn.args.kwarg.arg)
        for n in ast.walk(fn):
            if isinstance(n, ast.Name):
                if isinstance(n.ctx, ast.Load):
                    uses[n.id] = uses.get(n.id, 0) + 1
                else:
                    stores[n.id] = stores.get(n.id, 0) + 1
            elif isinstance(n, (ast.Global, ast.Nonlocal)):
                skip |= set(n.names)
            elif isinstance(n, (ast.FunctionDef, ast.AsyncFunctionDef, ast.Lambda)) and n is not fn:
                # names shared with a nested scope are left alone
                for m in ast.walk(n):
                    if isinstance(m, ast.Name):
                        skip.add(m.id)
        for owner in ast.walk(fn):
            blks = [getattr(owner, fld, None) for fld in ("body", "orelse", "finalbody")]
            if isinstance(owner, ast.Try):
                blks += [h.body for h in owner.handlers]
            for blk in blks:
                if not (isinstance(blk, list) and blk and isinstance(blk[0], ast.stmt)):
                    continue
                i = 0
                while i + 1 < len(blk):
                    a, b = blk[i], blk[i + 1]
                    if isinstance(a, ast.Assign) and len(a.targets) == 1 and isinstance(a.targets[0], ast.Name):
                        t = a.targets[0].id
                        if t not in skip and stores.get(t, 0) == 1 and uses.get(t, 0) == 1:
                            if isinstance(b, ast.Return) and isinstance(b.value, ast.Name) and b.value.id == t:
                                b.value = a.value
                            elif isinstance(b, ast.Assign) and isinstance(b.value, ast.Name) and b.value.id == t \
                                    and not any(isinstance(x, ast.Name) and x.id == t for tg in b.targets for x in ast.walk(tg)):
                                b.value = a.value
                            else:
                                i += 1
                                continue
                            del blk[i]
                            count += 1
                            i = max(i - 1, 0)
                            continue
                    i += 1
    return count


class ClassInfo:
    def __init__(self, module, node):
        self.module = module
        self.node = node
        self.name = node.name
        self.base_exprs = list(node.bases)
        self.bases = None  # resolved lazily: list of ClassInfo | External
        self.methods = {}  # name -> FuncInfo (plain / class / static methods)
        self.own_props = {}  # name -> PropInfo (only what this class body (re)defines)
        self.prop_rebase = {}  # name -> (base expr) for @Base.x.setter idiom
        self._mro = None
        self.class_attrs = {}  # name -> ast expr (class-level simple assignments)

    @property
    def qualname(self):
        return "%s:%s" % (self.module.name, self.name)

    def __repr__(self):
        return "<Class %s>" % self.qualname


class Module:
    def __init__(self, name, path, relpath, src):
        self.name = name
        self.path = path
        self.relpath = relpath
        self.src = src
        self.tree = ast.parse(src, filename=path)
        _canonicalise_comparisons(self.tree)
        self.aliases_canonicalised = 0 if os.environ.get("VERIF_NO_ALIAS_CANON") == "1" else _canonicalise_import_aliases(self.tree)
        self.constants_canonicalised = 0 if os.environ.get("VERIF_NO_CONST_CANON") == "1" else _canonicalise_module_constants(self.tree)
        self.attr_loops_canonicalised = 0 if (os.environ.get("VERIF_NO_ATTRLOOP_CANON") == "1" or ("getattr" not in src and "setattr" not in src and "dict(" not in src and "= {" not in src and "={" not in src)) \
            else _canonicalise_attr_loops(self.tree)
        self.shape0_canonicalised = 0 if (os.environ.get("VERIF_NO_SHAPE_CANON") == "1" or ".shape" not in src) else _canonicalise_shape0(self.tree)
        self.subscripts_canonicalised = 0 if os.environ.get("VERIF_NO_SUBSCRIPT_CANON") == "1" else _canonicalise_subscripts(self.tree)
        self.tuples_canonicalised = 0 if os.environ.get("VERIF_NO_TUPLE_CANON") == "1" else _canonicalise_tuple_assign(self.tree)
        self.branches_canonicalised = 0 if os.environ.get("VERIF_NO_BRANCH_CANON") == "1" else _canonicalise_branches(self.tree)
        self.temporaries_canonicalised = 0 if os.environ.get("VERIF_NO_TEMP_CANON") == "1" else _canonicalise_temporaries(self.tree)
        self.imports = {}  # local name -> ("module", dotted) | ("from", module, attr)
        self.classes = {}
        self.functions = {}
        self.assigns = {}  # module-level NAME = expr
        self._index()

    def _index(self):
        for st in self.tree.body:
            self._index_stmt(st)

    def _index_stmt(self, st):
        if isinstance(st, ast.Import):
            for a in st.names:
                if a.asname:
                    self.imports[a.asname] = ("module", a.name)
                else:
                    top = a.name.split(".")[0]
                    self.imports[top] = ("module", top)
        elif isinstance(st, ast.ImportFrom):
            mod = st.module or ""
            if st.level:
                base = self.name.split(".")
                # a module file: strip its own name, then level-1 more
                base = base[: len(base) - st.level]
                mod = ".".join(base + ([mod] if mod else []))
            for a in st.names:
                self.imports[a.asname or a.name] = ("from", mod, a.name)
        elif isinstance(st, ast.ClassDef):
            ci = ClassInfo(self, st)
            self.classes[st.name] = ci
            _index_class(ci)
        elif isinstance(st, (ast.FunctionDef, ast.AsyncFunctionDef)):
            self.functions[st.name] = FuncInfo(self, st)
        elif isinstance(st, ast.Assign):
            for t in st.targets:
                if isinstance(t, ast.Name):
                    self.assigns[t.id] = st.value
        elif isinstance(st, ast.AnnAssign):
            if isinstance(st.target, ast.Name) and st.value is not None:
                self.assigns[st.target.id] = st.value
        elif isinstance(st, (ast.If, ast.Try)):
            # imports guarded by try/if at module level
            for sub in ast.iter_child_nodes(st):
                if isinstance(sub, ast.stmt):
                    self._index_stmt(sub)
                elif isinstance(sub, ast.ExceptHandler):
                    for s2 in sub.body:
                        self._index_stmt(s2)


def _deco_kind(d):
    """Classify a decorator expression."""
    if isinstance(d, ast.Name):
        if d.id in ("property", "classmethod", "staticmethod", "abstractmethod"):
            return (d.id, None, None)
        return ("other", None, None)
    if isinstance(d, ast.Attribute):
        if d.attr in ("setter", "getter", "deleter"):
            v = d.value
            if isinstance(v, ast.Name):
                return (d.attr, v.id, None)
            if isinstance(v, ast.Attribute):
                # Base.prop.setter
                return (d.attr, v.attr, v.value)
        if d.attr == "abstractmethod":
            return ("abstractmethod", None, None)
        return ("other", None, None)
    if isinstance(d, ast.Call):
        return ("other", None, None)
    return ("other", None, None)


def _index_class(ci):
    for st in ci.node.body:
        if isinstance(st, (ast.FunctionDef, ast.AsyncFunctionDef)):
            kinds = [_deco_kind(d) for d in st.decorator_list]
            tags = [k[0] for k in kinds]
            if "property" in tags:
                p = ci.own_props.setdefault(st.name, PropInfo(st.name))
                p.getter = FuncInfo(ci.module, st, ci, "getter")
            elif "setter" in tags or "getter" in tags:
                for k, pname, base in kinds:
                    if k in ("setter", "getter"):
                        p = ci.own_props.setdefault(pname, PropInfo(pname))
                        fi = FuncInfo(ci.module, st, ci, k)
                        if k == "setter":
                            p.setter = fi
                        else:
                            p.getter = fi
                        if base is not None:
                            ci.prop_rebase[pname] = base
            elif "deleter" in tags:
                pass
            elif "classmethod" in tags:
                ci.methods[st.name] = FuncInfo(ci.module, st, ci, "classmethod")
            elif "staticmethod" in tags:
                ci.methods[st.name] = FuncInfo(ci.module, st, ci, "staticmethod")
            else:
                ci.methods[st.name] = FuncInfo(ci.module, st, ci, "method")
        elif isinstance(st, ast.Assign):
            for t in st.targets:
                if isinstance(t, ast.Name):
                    ci.class_attrs[t.id] = st.value
        elif isinstance(st, ast.AnnAssign):
            if isinstance(st.target, ast.Name) and st.value is not None:
                ci.class_attrs[st.target.id] = st.value


def _const_truth(e):
    """truth value of a literal test, or None"""
    if isinstance(e, ast.Constant):
        return bool(e.value)
    if isinstance(e, ast.Compare) and len(e.ops) == 1 and isinstance(e.left, ast.Constant) and isinstance(e.comparators[0], ast.Constant):
        l, r = e.left.value, e.comparators[0].value
        op = e.ops[0]
        if isinstance(op, ast.Is):
            return (l is r) if (l is None or r is None or isinstance(l, bool) or isinstance(r, bool)) else None
        if isinstance(op, ast.IsNot):
            return (l is not r) if (l is None or r is None or isinstance(l, bool) or isinstance(r, bool)) else None
        try:
            if isinstance(op, ast.Eq):
                return l == r
            if isinstance(op, ast.NotEq):
                return l != r
        except Exception:
            return None
        return None
    if isinstance(e, ast.UnaryOp) and isinstance(e.op, ast.Not):
        t = _const_truth(e.operand)
        return None if t is None else (not t)
    if isinstance(e, ast.BoolOp):
        ts = [_const_truth(v) for v in e.values]
        if isinstance(e.op, ast.And):
            if any(t is False for t in ts):
                return False
            return True if all(t is True for t in ts) else None
        if any(t is True for t in ts):
            return True
        return False if all(t is False for t in ts) else None
    return None


def _fold_constant_tests(fnode):
    """after a parameter was replaced by its literal default: `a if None is None else b` -> a; `if None is not None: S` -> removed; and / or with a decided operand"""
    class F(ast.NodeTransformer):
        def visit_IfExp(self, n):
            self.generic_visit(n)
            t = _const_truth(n.test)
            return n if t is None else (n.body if t else n.orelse)

        def visit_BoolOp(self, n):
            self.generic_visit(n)
            keep = []
            for v in n.values:
                t = _const_truth(v)
                if isinstance(n.op, ast.And):
                    if t is True and not isinstance(v, ast.Constant):
                        continue
                    if t is True and isinstance(v, ast.Constant) and len(n.values) > 1:
                        continue
                else:
                    if t is False:
                        continue
                keep.append(v)
            if not keep:
                return ast.copy_location(ast.Constant(value=isinstance(n.op, ast.And)), n)
            if len(keep) == 1:
                return keep[0]
            n.values = keep
            return n

    def block(stmts):
        out = []
        for st in stmts:
            for fld in ("body", "orelse", "finalbody"):
                v = getattr(st, fld, None)
                if isinstance(v, list) and v and isinstance(v[0], ast.stmt):
                    setattr(st, fld, block(v) or ([ast.copy_location(ast.Pass(), st)] if fld == "body" else []))
            if isinstance(st, ast.Try):
                for h in st.handlers:
                    h.body = block(h.body) or [ast.copy_location(ast.Pass(), st)]
            if isinstance(st, ast.If):
                t = _const_truth(st.test)
                if t is True:
                    out.extend(st.body)
                    continue
                if t is False:
                    out.extend(st.orelse)
                    continue
            out.append(st)
        return out
    F().visit(fnode)
    fnode.body = block(fnode.body) or [ast.Pass()]


def _tail_returns_only(stmts):
    """every return ends its block, and the blocks are the function body and the branches of if-statements in tail position (possibly de-nested: `if c: ... return` followed
    by the rest); no return inside a loop, try or with"""
    for i, st in enumerate(stmts):
        if isinstance(st, ast.Return):
            return i == len(stmts) - 1
        if isinstance(st, ast.If):
            has_ret = any(isinstance(x, ast.Return) for x in ast.walk(st))
            if not has_ret:
                continue
            body_term = bool(st.body) and isinstance(st.body[-1], (ast.Return, ast.Raise))
            if st.orelse:
                return i == len(stmts) - 1 and _tail_block(st.body) and _tail_block(st.orelse)
            if not body_term:
                return False
            return _tail_block(st.body) and _tail_returns_only(stmts[i + 1:]) and any(isinstance(x, (ast.Return, ast.Raise)) for x in stmts[i + 1:][-1:] or [None])
        if any(isinstance(x, ast.Return) for x in ast.walk(st)):
            return False
    return True


def _tail_block(stmts):
    if not stmts:
        return False
    if isinstance(stmts[-1], ast.Raise):
        return not any(isinstance(x, ast.Return) for s_ in stmts[:-1] for x in ast.walk(s_))
    return _tail_returns_only(stmts) and isinstance(stmts[-1], (ast.Return, ast.If))


def _renest_returns(stmts, mk):
    """statement list in which every `return E` is replaced by mk(E), with the code after a returning `if` moved into its else branch so that control flow is kept"""
    out = []
    for i, st in enumerate(stmts):
        if isinstance(st, ast.Return):
            r_ = mk(st.value)
            out.extend(r_ if isinstance(r_, list) else [r_])
            return out
        if isinstance(st, ast.If) and any(isinstance(x, ast.Return) for x in ast.walk(st)):
            rest = stmts[i + 1:]
            orelse = _renest_returns(st.orelse, mk) if st.orelse else (_renest_returns(rest, mk) if rest else [])
            new = ast.If(test=st.test, body=_renest_returns(st.body, mk), orelse=orelse)
            out.append(new)
            return out
        out.append(st)
    return out


# method names that numpy arrays / containers / strings also have: a call obj.<name>(...) on an unknown receiver is not taken for the package's method
_BUILTIN_METHOD_NAMES = {"copy", "sum", "mean", "max", "min", "std", "var", "any", "all", "sort", "reshape", "get", "items", "keys", "values", "update", "append", "insert",
                         "remove", "pop", "index", "count", "format", "join", "split", "astype", "dot", "take", "repeat", "fill", "flatten", "ravel", "transpose", "choice",
                         "shuffle", "uniform", "normal", "random", "seed", "select", "delete", "concat", "argsort", "argmax", "argmin", "cumsum", "prod", "round", "clip",
                         "squeeze", "tolist", "item", "view", "read", "write", "close", "group", "add", "extend", "clear", "setdefault", "find", "replace", "strip"}


class Program:
    def __init__(self, repo=None, exclude=("pybrops/test",)):
        self.repo = repo or REPO
        self.modules = {}
        self.by_relpath = {}
        self.classes_by_name = {}
        self.classes_without_mro = []
        self.parse_errors = []
        self._load(exclude)
        self.calls_canonicalised = 0
        self.methods_by_name = {}
        for m in self.modules.values():
            for c in m.classes.values():
                for f in c.methods.values():
                    self.methods_by_name.setdefault(f.name, []).append(f)
        self.reference = None
        if os.environ.get("VERIF_NO_REFERENCE") != "1":
            try:
                import json
                with open(os.path.join(os.path.dirname(os.path.abspath(__file__)), "reference.json")) as fh:
                    self.reference = json.load(fh)
            except (OSError, ValueError):
                self.reference = None
        if os.environ.get("VERIF_NO_CALL_CANON") != "1":
            self._canonicalise_calls()
        self.new_params_specialised = 0
        self.default_args_dropped = 0
        self.helpers_inlined = 0
        if os.environ.get("VERIF_NO_HELPER_CANON") != "1" and self.reference is not None:
            for _round in range(3):
                before = self.helpers_inlined
                self._inline_new_helpers()
                if self.helpers_inlined == before:
                    break
            if self.helpers_inlined:
                # what the inlined bodies brought in is put through the statement-level canonicalisations once more (**dict(...), returned temporaries, branch layout)
                for m in self.modules.values():
                    _canonicalise_attr_loops(m.tree)
                    _canonicalise_branches(m.tree)
                    _canonicalise_temporaries(m.tree)
        if os.environ.get("VERIF_NO_DEFAULT_CANON") != "1":
            for _round in range(4):
                before = (self.new_params_specialised, self.default_args_dropped)
                self._canonicalise_defaults()
                if (self.new_params_specialised, self.default_args_dropped) == before:
                    break

    # ------------------------------------------------------------------ loading
    def _load(self, exclude):
        root = os.path.join(self.repo, PKG)
        if not os.path.isdir(root):
            raise AnalysisError("package directory %s not found" % root)
        for dirpath, dirnames, filenames in os.walk(root):
            dirnames.sort()
            rel = os.path.relpath(dirpath, self.repo)
            if any(rel == e or rel.startswith(e + os.sep) for e in exclude):
                dirnames[:] = []
                continue
            for fn in sorted(filenames):
                if not fn.endswith(".py"):
                    continue
                path = os.path.join(dirpath, fn)
                relpath = os.path.relpath(path, self.repo)
                parts = relpath[:-3].split(os.sep)
                if parts[-1] == "__init__":
                    parts = parts[:-1]
                name = ".".join(parts)
                with open(path, "r", encoding="utf-8") as f:
                    src = f.read()
                try:
                    m = Module(name, path, relpath, src)
                except SyntaxError as e:
                    self.parse_errors.append((relpath, str(e)))
                    continue
                m.is_pkg = fn == "__init__.py"
                self.modules[name] = m
                self.by_relpath[relpath] = m
        for m in self.modules.values():
            for c in m.classes.values():
                self.classes_by_name.setdefault(c.name, []).append(c)

    def _canonicalise_calls(self):
        """
        f(x=a, y=b) is read as f(a, b): for every call whose callee resolves inside the package (module-level function by name, own method through
        self. / cls. along the MRO) the keyword arguments that cover a PREFIX of the callee's parameters are moved to their positions.  Calls with
        *args, callees with *args / positional-only parameters, and constructor calls are left as written.  Rules therefore never depend on whether
        an argument of a library function was passed by position or by keyword.
        """
        for m in self.modules.values():
            self._canon_calls_in(m, m.tree, None)

    def _canon_calls_in(self, m, node, cls):
        for ch in ast.iter_child_nodes(node):
            if isinstance(ch, ast.ClassDef):
                self._canon_calls_in(m, ch, m.classes.get(ch.name) if node is m.tree else None)
            else:
                self._canon_calls_in(m, ch, cls)
        if not isinstance(node, ast.Call) or not node.keywords or any(isinstance(a, ast.Starred) for a in node.args):
            return
        callee = None
        skip = 0
        try:
            if isinstance(node.func, ast.Name):
                t = self.resolve_name(m, node.func.id)
                if isinstance(t, FuncInfo):
                    callee = t
            elif isinstance(node.func, ast.Attribute) and isinstance(node.func.value, ast.Name) and node.func.value.id in ("self", "cls") and cls is not None \
                    and self.mro(cls) is not None:
                t = self.lookup_method(cls, node.func.attr)
                if isinstance(t, FuncInfo) and t.kind in ("method", "classmethod", "staticmethod"):
                    callee = t
                    skip = 0 if t.kind == "staticmethod" else 1
        except Exception:
            return
        if callee is None or callee.node.args.vararg is not None or callee.node.args.posonlyargs:
            return
        pn = [a.arg for a in callee.node.args.args][skip:]
        kw = {k.arg: k for k in node.keywords if k.arg is not None}
        moved = False
        while len(node.args) < len(pn) and pn[len(node.args)] in kw:
            k = kw.pop(pn[len(node.args)])
            node.args.append(k.value)
            node.keywords.remove(k)
            moved = True
        if moved:
            self.calls_canonicalised += 1


    def signature_by_method_name(self, name, used=()):
        """positional parameter names (without the receiver) shared by EVERY method of that name in the package (that has the keyword names `used`), or None"""
        cands = [c for c in self.methods_by_name.get(name, []) if set(used) <= {a.arg for a in c.node.args.args + c.node.args.kwonlyargs}]
        sigs = {tuple(a.arg for a in c.node.args.args[(0 if c.kind == "staticmethod" else 1):]) for c in cands}
        if cands and len(sigs) == 1 and all(c.node.args.vararg is None and not c.node.args.posonlyargs for c in cands):
            return list(next(iter(sigs)))
        return None

    def positional_view(self, call):
        """copy of a call on some object (obj.m(...)) with its keyword arguments moved to their positions when every method `m` of the package agrees on the
        parameter order; the call itself otherwise.  For rules that compare a call with a reference written positionally."""
        import copy
        if not (isinstance(call, ast.Call) and isinstance(call.func, ast.Attribute) and call.keywords) or any(isinstance(a, ast.Starred) for a in call.args):
            return call
        used = {k.arg for k in call.keywords if k.arg is not None}
        pn = self.signature_by_method_name(call.func.attr, used)
        if pn is None:
            return call
        c = copy.deepcopy(call)
        kw = {k.arg: k for k in c.keywords if k.arg is not None}
        while len(c.args) < len(pn) and pn[len(c.args)] in kw:
            k = kw.pop(pn[len(c.args)])
            c.args.append(k.value)
            c.keywords.remove(k)
        return c


    # ------------------------------------------------------------------ helper inlining
    def _inline_new_helpers(self):
        """
        A function that today's tree does not have (not in sa/reference.json) and that is simple enough - no decorator other than staticmethod / classmethod, no
        *args / **kwargs, no yield, no nested function, no recursion, at most one return and that one last - is read at each call that stands alone in a statement
        (`x = h(..)`, `return h(..)`, `h(..)`) as its body with the arguments put in for the parameters: the extracted helper of a refactoring goes back where it
        came from, and the rules see the code in the shape they were written for.  The definition itself stays.
        """
        import copy
        ref = self.reference.get("signatures", {})

        def eligible(h):
            n = h.node
            if h.qualname in ref or h.kind in ("getter", "setter") or n.name.startswith("__"):
                return False
            if any(not (isinstance(d, ast.Name) and d.id in ("staticmethod", "classmethod")) for d in n.decorator_list):
                return False
            a = n.args
            if a.vararg is not None or a.kwarg is not None or a.posonlyargs:
                return False
            body = body_nodoc(n)
            if not body or len(body) > 40:
                return False
            for x in ast.walk(n):
                if x is not n and isinstance(x, (ast.FunctionDef, ast.AsyncFunctionDef, ast.Lambda, ast.ClassDef, ast.Yield, ast.YieldFrom, ast.Await, ast.Global, ast.Nonlocal)):
                    return False
                if isinstance(x, ast.Call) and ((isinstance(x.func, ast.Name) and x.func.id == n.name) or (isinstance(x.func, ast.Attribute) and x.func.attr == n.name)):
                    return False
            rets = [x for x in ast.walk(n) if isinstance(x, ast.Return)]
            if len(rets) > 1 or (rets and rets[0] is not body[-1]):
                # several returns are fine when each one ends its branch of an if-chain (no return inside a loop / try / with)
                return _tail_returns_only(body)
            return True

        helpers = {id(h.node): h for h in self.all_functions() if eligible(h)}
        if not helpers:
            return
        # a helper that loops and is called from several places stays a call (its body written out twice is no shape any rule was written for)
        ncalls = {}
        names = {h.node.name for h in helpers.values()}
        for m_ in self.modules.values():
            for c_ in ast.walk(m_.tree):
                if isinstance(c_, ast.Call):
                    nm = c_.func.id if isinstance(c_.func, ast.Name) else (c_.func.attr if isinstance(c_.func, ast.Attribute) else None)
                    if nm in names:
                        ncalls[nm] = ncalls.get(nm, 0) + 1
        helpers = {k: h for k, h in helpers.items()
                   if not (ncalls.get(h.node.name, 0) > 1 and any(isinstance(x, (ast.For, ast.While)) for x in ast.walk(h.node)))}
        if not helpers:
            return
        counter = [self.helpers_inlined]

        def expand(m, cls, g, call, kind, target_stmt):
            h, skip = self._resolve_callee(m, cls, call)
            if h is None and isinstance(call.func, ast.Attribute) and isinstance(call.func.value, ast.Name) and cls is None:
                return None
            if h is None and isinstance(call.func, ast.Attribute) and isinstance(call.func.value, ast.Name):
                # ClassName._helper(...) (static helper called through the class)
                try:
                    t = self.resolve_name(m, call.func.value.id)
                except Exception:
                    t = None
                if isinstance(t, ClassInfo):
                    hh = self.lookup_method(t, call.func.attr) if self.mro(t) is not None else t.methods.get(call.func.attr)
                    if hh is not None and hh.kind == "staticmethod":
                        h, skip = hh, 0
            if h is None or id(h.node) not in helpers or h.node is g.node:
                return None
            if any(isinstance(a, ast.Starred) for a in call.args) or any(k.arg is None for k in call.keywords):
                return None
            a = h.node.args
            params = [x.arg for x in a.args]
            recv = None
            if skip:
                recv, params = params[0], params[1:]
                if not (isinstance(call.func, ast.Attribute) and isinstance(call.func.value, ast.Name) and call.func.value.id == recv):
                    return None
            if len(call.args) > len(params):
                return None
            bind = dict(zip(params, call.args))
            for k in call.keywords:
                if k.arg in bind or k.arg not in params + [x.arg for x in a.kwonlyargs]:
                    return None
                bind[k.arg] = k.value
            nd = len(a.defaults)
            dm = {x.arg: d for x, d in zip(a.args[len(a.args) - nd:], a.defaults)}
            dm.update({x.arg: d for x, d in zip(a.kwonlyargs, a.kw_defaults) if d is not None})
            for p_ in params + [x.arg for x in a.kwonlyargs]:
                if p_ not in bind:
                    if p_ not in dm:
                        return None
                    bind[p_] = dm[p_]
            counter[0] += 1
            tag = "__h%d" % counter[0]
            body = [copy.deepcopy(x) for x in body_nodoc(h.node)]
            stored = {n.id for b in body for n in ast.walk(b) if isinstance(n, ast.Name) and isinstance(n.ctx, (ast.Store, ast.Del))}
            locals_ = stored | set(bind)

            def simple(e):
                # an expression without calls: evaluating it again where the parameter is read gives the same object / value
                if isinstance(e, (ast.Name, ast.Constant)):
                    return True
                if isinstance(e, ast.Attribute):
                    return simple(e.value)
                if isinstance(e, ast.Subscript):
                    return simple(e.value) and simple(e.slice)
                if isinstance(e, ast.Slice):
                    return all(x is None or simple(x) for x in (e.lower, e.upper, e.step))
                if isinstance(e, (ast.Tuple, ast.List)):
                    return all(simple(x) for x in e.elts)
                if isinstance(e, ast.BinOp):
                    return simple(e.left) and simple(e.right)
                if isinstance(e, ast.UnaryOp):
                    return simple(e.operand)
                if isinstance(e, ast.Compare):
                    return simple(e.left) and all(simple(x) for x in e.comparators)
                return False
            direct = {p_: v for p_, v in bind.items() if p_ not in stored and simple(v)}
            # a parameter the helper rebinds may go on living in the caller's own variable when that variable is dead after the call (`return h(out, dtype)`)
            reuse = {}

            def dead_after(name):
                """the caller's variable is not read after the call statement (and the call is not inside a loop of the caller)"""
                if kind == "return":
                    return True
                if kind == "assign" and any(isinstance(t_, ast.Name) and t_.id == name for t_ in target_stmt.targets):
                    return True
                end = getattr(target_stmt, "end_lineno", None) or target_stmt.lineno
                for lp in ast.walk(g.node):
                    if isinstance(lp, (ast.For, ast.While)) and any(x is target_stmt for x in ast.walk(lp)):
                        return False
                return not any(isinstance(n, ast.Name) and n.id == name and isinstance(n.ctx, ast.Load) and getattr(n, "lineno", 0) > end for n in ast.walk(g.node))
            for p_, v in bind.items():
                if p_ in stored and isinstance(v, ast.Name) and v.id not in reuse.values() and v.id not in (locals_ - {p_}) and dead_after(v.id):
                    reuse[p_] = v.id
            pre = []
            for p_, v in bind.items():
                if p_ not in direct and p_ not in reuse:
                    pre.append(ast.Assign(targets=[ast.Name(id=p_ + tag, ctx=ast.Store())], value=copy.deepcopy(v)))

            class Ren(ast.NodeTransformer):
                def visit_Name(self_, n):
                    if n.id in direct and isinstance(n.ctx, ast.Load):
                        return copy.deepcopy(direct[n.id])
                    if n.id in reuse:
                        return ast.copy_location(ast.Name(id=reuse[n.id], ctx=n.ctx), n)
                    if n.id in locals_ and n.id != recv:
                        return ast.copy_location(ast.Name(id=n.id + tag, ctx=n.ctx), n)
                    return n
            body = [Ren().visit(b) for b in body]
            nret = sum(1 for b in body for x in ast.walk(b) if isinstance(x, ast.Return))
            if nret > 1 or (nret == 1 and not isinstance(body[-1], ast.Return)):
                # branch-structured helper: every `return E` becomes the caller's own statement with E
                def mk(e):
                    e = e if e is not None else ast.Constant(value=None)
                    if kind == "assign":
                        tg = target_stmt.targets[0] if len(target_stmt.targets) == 1 else None
                        if isinstance(tg, ast.Tuple) and isinstance(e, ast.Tuple) and len(tg.elts) == len(e.elts) and all(isinstance(x, ast.Name) for x in tg.elts):
                            names_ = {x.id for x in tg.elts}
                            if not any(isinstance(n_, ast.Name) and n_.id in names_ for v_ in e.elts for n_ in ast.walk(v_)):
                                # a, b = (x, y) with independent sides is a = x ; b = y
                                return [ast.Assign(targets=[copy.deepcopy(t_)], value=v_) for t_, v_ in zip(tg.elts, e.elts)]
                        return ast.Assign(targets=copy.deepcopy(target_stmt.targets), value=e)
                    if kind == "aug":
                        return ast.AugAssign(target=copy.deepcopy(target_stmt.target), op=target_stmt.op, value=e)
                    if kind == "return":
                        return ast.Return(value=e)
                    return ast.Expr(value=e)
                out = pre + _renest_returns(body, mk)
                for o in out:
                    ast.copy_location(o, target_stmt)
                    ast.fix_missing_locations(o)
                return out
            out = pre + body
            last = out[-1] if out else None
            retval = None
            if isinstance(last, ast.Return):
                out.pop()
                retval = last.value
            if kind == "assign" and retval is not None and len(target_stmt.targets) == 1:
                # results the helper built in locals of its own are built in the caller's targets directly: `a, b = h(..)` with `return (s, c)` -> s, c are a, b
                tg = target_stmt.targets[0]
                pairs = None
                if isinstance(tg, ast.Name) and isinstance(retval, ast.Name):
                    pairs = [(tg, retval)]
                elif isinstance(tg, ast.Tuple) and isinstance(retval, ast.Tuple) and len(tg.elts) == len(retval.elts) \
                        and all(isinstance(x, ast.Name) for x in tg.elts) and all(isinstance(x, ast.Name) for x in retval.elts):
                    pairs = list(zip(tg.elts, retval.elts))
                if pairs:
                    argnames = {n.id for v in bind.values() for n in ast.walk(v) if isinstance(n, ast.Name)}
                    bodynames = {n.id for b in out for n in ast.walk(b) if isinstance(n, ast.Name)}
                    rn = {}
                    for t_, r_ in pairs:
                        nstore = sum(1 for b in out for n in ast.walk(b) if isinstance(n, ast.Name) and n.id == r_.id and isinstance(n.ctx, ast.Store))
                        if r_.id.endswith(tag) and nstore >= 1 and t_.id not in argnames and t_.id not in bodynames and r_.id not in rn and t_.id not in rn.values():
                            rn[r_.id] = t_.id
                    if len(rn) == len(pairs):
                        for b in out:
                            for n in ast.walk(b):
                                if isinstance(n, ast.Name) and n.id in rn:
                                    n.id = rn[n.id]
                        for o in out:
                            ast.copy_location(o, target_stmt)
                            ast.fix_missing_locations(o)
                        return out
            if kind == "assign" and isinstance(retval, ast.Name) and len(target_stmt.targets) == 1 and isinstance(target_stmt.targets[0], ast.Name) \
                    and target_stmt.targets[0].id == retval.id:
                pass        # the result already lives in the target
            elif kind == "assign":
                out.append(ast.Assign(targets=target_stmt.targets, value=retval if retval is not None else ast.Constant(value=None)))
            elif kind == "aug":
                if retval is None:
                    return None
                out.append(ast.AugAssign(target=target_stmt.target, op=target_stmt.op, value=retval))
            elif kind == "return":
                out.append(ast.Return(value=retval))
            elif retval is not None and not isinstance(retval, (ast.Name, ast.Constant)):
                out.append(ast.Expr(value=retval))
            for o in out:
                ast.copy_location(o, target_stmt)
                ast.fix_missing_locations(o)
            return out

        def block(m, cls, g, stmts):
            out = []
            for st in stmts:
                for fld in ("body", "orelse", "finalbody"):
                    v = getattr(st, fld, None)
                    if isinstance(v, list) and v and isinstance(v[0], ast.stmt) and not isinstance(st, (ast.FunctionDef, ast.AsyncFunctionDef, ast.ClassDef)):
                        setattr(st, fld, block(m, cls, g, v))
                if isinstance(st, ast.Try):
                    for hnd in st.handlers:
                        hnd.body = block(m, cls, g, hnd.body)
                rep_ = None
                if isinstance(st, ast.Assign) and isinstance(st.value, ast.Call):
                    rep_ = expand(m, cls, g, st.value, "assign", st)
                elif isinstance(st, ast.Return) and isinstance(st.value, ast.Call):
                    rep_ = expand(m, cls, g, st.value, "return", st)
                elif isinstance(st, ast.Expr) and isinstance(st.value, ast.Call):
                    rep_ = expand(m, cls, g, st.value, "expr", st)
                elif isinstance(st, ast.AugAssign) and isinstance(st.value, ast.Call) and isinstance(st.target, ast.Name):
                    # x op= h(..)  ->  body ; x op= <result>   (the helper cannot rebind the caller's local x)
                    rep_ = expand(m, cls, g, st.value, "aug", st)
                if rep_ is not None:
                    out.extend(rep_)
                else:
                    out.append(st)
            return out

        # a helper that is one `return <expression>` is put in wherever it is called (an `if h(a, b):` test, an operand), when the arguments are call-free expressions
        exprh = {k: h for k, h in helpers.items() if len(body_nodoc(h.node)) == 1 and isinstance(body_nodoc(h.node)[0], ast.Return) and body_nodoc(h.node)[0].value is not None}
        prog = self

        def pure(e):
            return not any(isinstance(x, (ast.Call, ast.NamedExpr, ast.Await, ast.Yield, ast.YieldFrom, ast.Lambda)) for x in ast.walk(e))

        class ExprInline(ast.NodeTransformer):
            def __init__(self_, m, cls, g):
                self_.m, self_.cls, self_.g = m, cls, g

            def visit_Call(self_, call):
                self_.generic_visit(call)
                h, skip = prog._resolve_callee(self_.m, self_.cls, call)
                if h is None or id(h.node) not in exprh or h.node is self_.g.node:
                    return call
                if any(isinstance(a, ast.Starred) for a in call.args) or any(k.arg is None for k in call.keywords):
                    return call
                a = h.node.args
                params = [x.arg for x in a.args]
                if skip:
                    recv, params = params[0], params[1:]
                    if not (isinstance(call.func, ast.Attribute) and isinstance(call.func.value, ast.Name) and call.func.value.id == recv):
                        return call
                if len(call.args) > len(params):
                    return call
                bind = dict(zip(params, call.args))
                for k in call.keywords:
                    if k.arg in bind or k.arg not in params + [x.arg for x in a.kwonlyargs]:
                        return call
                    bind[k.arg] = k.value
                nd = len(a.defaults)
                dm = {x.arg: d for x, d in zip(a.args[len(a.args) - nd:], a.defaults)}
                dm.update({x.arg: d for x, d in zip(a.kwonlyargs, a.kw_defaults) if d is not None})
                for p_ in params + [x.arg for x in a.kwonlyargs]:
                    if p_ not in bind:
                        if p_ not in dm:
                            return call
                        bind[p_] = dm[p_]
                if not all(pure(v) for v in bind.values()):
                    return call
                expr = copy.deepcopy(body_nodoc(h.node)[0].value)

                class Sub(ast.NodeTransformer):
                    def visit_Name(s2, n):
                        if isinstance(n.ctx, ast.Load) and n.id in bind:
                            return copy.deepcopy(bind[n.id])
                        return n
                expr = Sub().visit(expr)
                counter[0] += 1
                return ast.fix_missing_locations(ast.copy_location(expr, call))

        if exprh:
            for m in self.modules.values():
                for g in list(m.functions.values()):
                    g.node.body = [ExprInline(m, None, g).visit(st) for st in g.node.body]
                for K in m.classes.values():
                    funcs = list(K.methods.values())
                    for pinfo in K.own_props.values():
                        funcs += [x for x in (pinfo.getter, pinfo.setter) if x is not None]
                    for g in funcs:
                        g.node.body = [ExprInline(m, K, g).visit(st) for st in g.node.body]
        for m in self.modules.values():
            for g in list(m.functions.values()):
                g.node.body = block(m, None, g, g.node.body)
            for K in m.classes.values():
                funcs = list(K.methods.values())
                for pinfo in K.own_props.values():
                    funcs += [x for x in (pinfo.getter, pinfo.setter) if x is not None]
                for g in funcs:
                    g.node.body = block(m, K, g, g.node.body)
        self.helpers_inlined = counter[0]

    # ------------------------------------------------------------------ defaults
    def _resolve_callee(self, m, cls, call):
        """(FuncInfo, number of leading receiver parameters) of a call whose callee resolves inside the package, else (None, 0)"""
        try:
            if isinstance(call.func, ast.Name):
                t = self.resolve_name(m, call.func.id)
                if isinstance(t, FuncInfo):
                    return t, 0
            elif isinstance(call.func, ast.Attribute) and isinstance(call.func.value, ast.Name) and call.func.value.id in ("self", "cls") and cls is not None \
                    and self.mro(cls) is not None:
                t = self.lookup_method(cls, call.func.attr)
                if isinstance(t, FuncInfo) and t.kind in ("method", "classmethod", "staticmethod"):
                    return t, (0 if t.kind == "staticmethod" else 1)
        except Exception:
            pass
        return None, 0

    def _calls_with_context(self):
        """every Call node of the package with its module and enclosing class"""
        out = []

        def walk(m, node, cls):
            for ch in ast.iter_child_nodes(node):
                if isinstance(ch, ast.ClassDef):
                    walk(m, ch, m.classes.get(ch.name) if node is m.tree else None)
                else:
                    walk(m, ch, cls)
            if isinstance(node, ast.Call):
                out.append((m, cls, node))
        for m in self.modules.values():
            walk(m, m.tree, None)
        return out

    def _canonicalise_defaults(self):
        """
        (1) An argument written at a call that is the literal the callee already has as default for that parameter is dropped: f(a, shuffle=True) with
            `def f(a, shuffle=True)` is read as f(a).
        (2) A parameter that today's API does not have (it is not in sa/reference.json for that function), has a literal default and is bound by no call in the
            package is read as its default throughout the body, tests on it are folded (`x if out is None else out` -> `x`), and it is taken out of the
            signature: the function is analysed as every existing caller runs it.
        """
        import copy
        calls = self._calls_with_context()

        def defaults_of(f, skip):
            a = f.node.args
            pos = a.args[skip:] if not a.posonlyargs else None
            if pos is None:
                return None, None
            nd = len(a.defaults)
            dmap = {}
            allpos = a.args
            for x, d in zip(allpos[len(allpos) - nd:], a.defaults):
                dmap[x.arg] = d
            for x, d in zip(a.kwonlyargs, a.kw_defaults):
                if d is not None:
                    dmap[x.arg] = d
            return [x.arg for x in pos], dmap

        def literal(e):
            return _scalar_constant(e) and not isinstance(e, ast.Tuple)

        # (2) candidates first: (function, parameter) pairs that are new
        new = {}
        if self.reference is not None:
            ref = self.reference.get("signatures", {})
            for f in self.all_functions():
                if f.qualname not in ref or f.kind in ("getter", "setter"):
                    continue
                _pn, dmap = defaults_of(f, 0)
                if dmap is None:
                    continue
                for p in f.params():
                    if p not in ref[f.qualname] and p in dmap and (literal(dmap[p]) or self._external_constant(f.module, dmap[p])):
                        stored = any(isinstance(n, ast.Name) and n.id == p and isinstance(n.ctx, (ast.Store, ast.Del)) for n in ast.walk(f.node))
                        if not stored:
                            new[(id(f.node), p)] = (f, p, dmap[p])
        bound_somewhere = set()
        for m, cls, call in calls:
            if any(isinstance(a, ast.Starred) for a in call.args):
                continue
            callee, skip = self._resolve_callee(m, cls, call)
            cands = [(callee, skip)] if callee is not None else []
            if callee is None and isinstance(call.func, ast.Attribute):
                cands = [(c, 0 if c.kind == "staticmethod" else 1) for c in self.methods_by_name.get(call.func.attr, [])]
            elif callee is None and isinstance(call.func, ast.Name):
                # a class being constructed: its __init__
                t = None
                try:
                    t = self.resolve_name(m, call.func.id)
                except Exception:
                    pass
                if isinstance(t, ClassInfo):
                    ini = self.lookup_method(t, "__init__") if self.mro(t) is not None else t.methods.get("__init__")
                    if ini is not None:
                        cands = [(ini, 1)]
            for c, sk in cands:
                pn, dmap = defaults_of(c, sk)
                if pn is None:
                    continue
                # (1) drop literal arguments equal to the default (resolved callees only)
                if c is callee:
                    changed = True
                    while changed:
                        changed = False
                        for k in list(call.keywords):
                            if k.arg is not None and k.arg in dmap and literal(k.value) and literal(dmap[k.arg]) and ast.dump(k.value) == ast.dump(dmap[k.arg]):
                                call.keywords.remove(k)
                                self.default_args_dropped += 1
                                changed = True
                        if call.args and not call.keywords and len(call.args) <= len(pn) and c.node.args.vararg is None:
                            pname = pn[len(call.args) - 1]
                            last = call.args[-1]
                            if pname in dmap and literal(last) and literal(dmap[pname]) and ast.dump(last) == ast.dump(dmap[pname]):
                                call.args.pop()
                                self.default_args_dropped += 1
                                changed = True
                # which new parameters does this call bind?
                for i, a in enumerate(call.args):
                    if i < len(pn) and (id(c.node), pn[i]) in new:
                        bound_somewhere.add((id(c.node), pn[i]))
                    if i >= len(pn) and c.node.args.vararg is None:
                        pass
                for k in call.keywords:
                    # (a **mapping passed on cannot name a parameter that today's callers do not know; an explicit keyword anywhere in the package can)
                    if k.arg is not None and (id(c.node), k.arg) in new:
                        bound_somewhere.add((id(c.node), k.arg))
        for key, (f, p, d) in new.items():
            if key in bound_somewhere:
                continue
            self._specialise_param(f, p, d)
            self.new_params_specialised += 1

    def _external_constant(self, mod, e):
        """numpy.nan / numpy.inf / math.pi ... : a dotted constant of an outside module"""
        try:
            d = self.dotted(mod, e) if isinstance(e, ast.Attribute) else None
        except Exception:
            d = None
        return d in ("numpy.nan", "numpy.inf", "numpy.NaN", "numpy.pi", "math.inf", "math.nan", "math.pi", "numpy.newaxis")

    def _specialise_param(self, f, p, default):
        import copy

        class Sub(ast.NodeTransformer):
            def visit_Name(self_, n):
                if n.id == p and isinstance(n.ctx, ast.Load):
                    return ast.copy_location(copy.deepcopy(default), n)
                return n

            def visit_FunctionDef(self_, n):
                # a nested function that rebinds the name keeps its own
                if n is not f.node and any(x.arg == p for x in n.args.args + n.args.kwonlyargs):
                    return n
                self_.generic_visit(n)
                return n

            def visit_Lambda(self_, n):
                if any(x.arg == p for x in n.args.args + n.args.kwonlyargs):
                    return n
                self_.generic_visit(n)
                return n
        f.node.body = [Sub().visit(st) for st in f.node.body]
        a = f.node.args
        # take the parameter (and its default) out of the signature
        if any(x.arg == p for x in a.kwonlyargs):
            i = [x.arg for x in a.kwonlyargs].index(p)
            del a.kwonlyargs[i]
            del a.kw_defaults[i]
        else:
            i = [x.arg for x in a.args].index(p)
            di = i - (len(a.args) - len(a.defaults))
            del a.args[i]
            if di >= 0:
                del a.defaults[di]
        _fold_constant_tests(f.node)
        ast.fix_missing_locations(f.node)

    def bound_args(self, f, call):
        """parameter name -> argument expression for a call made inside function `f`, when the callee resolves inside the package
        (module function by name; own method through self./cls.).  Returns (dict, callee) or (None, None)."""
        callee = None
        skip = 0
        try:
            if isinstance(call.func, ast.Name):
                t = self.resolve_name(f.module, call.func.id)
                if isinstance(t, FuncInfo):
                    callee = t
            elif isinstance(call.func, ast.Attribute) and isinstance(call.func.value, ast.Name) and call.func.value.id in ("self", "cls") and f.cls is not None \
                    and self.mro(f.cls) is not None:
                t = self.lookup_method(f.cls, call.func.attr)
                if isinstance(t, FuncInfo):
                    callee = t
                    skip = 0 if t.kind == "staticmethod" else 1
        except Exception:
            return None, None
        if callee is None or any(isinstance(a, ast.Starred) for a in call.args):
            return None, None
        pn = [a.arg for a in callee.node.args.args][skip:]
        out = {}
        for i, a in enumerate(call.args):
            if i < len(pn):
                out[pn[i]] = a
        for k in call.keywords:
            if k.arg is not None:
                out[k.arg] = k.value
        return out, callee

    def digest(self):
        h = hashlib.sha256()
        for name in sorted(self.modules):
            h.update(name.encode())
            h.update(self.modules[name].src.encode())
        return h.hexdigest()[:16]

    # --------------------------------------------------------------- resolution
    def module(self, name_or_relpath):
        m = self.modules.get(name_or_relpath) or self.by_relpath.get(name_or_relpath)
        if m is None:
            raise AnalysisError("anchor module vanished: %s" % name_or_relpath)
        return m

    def resolve_name(self, mod, name, depth=0):
        """Resolve a bare name used in module `mod`."""
        if depth > 8:
            return External(name)
        if name in mod.classes:
            return mod.classes[name]
        if name in mod.functions:
            return mod.functions[name]
        if name in mod.imports:
            imp = mod.imports[name]
            if imp[0] == "module":
                dotted = imp[1]
                if dotted in self.modules:
                    return ModuleRef(dotted)
                return External(dotted)
            _, src, attr = imp
            if src in self.modules:
                m2 = self.modules[src]
                if attr in m2.classes or attr in m2.functions or attr in m2.imports or attr in m2.assigns:
                    return self.resolve_name(m2, attr, depth + 1)
                sub = src + "." + attr
                if sub in self.modules:
                    return ModuleRef(sub)
                return External(sub)
            sub = src + "." + attr
            if sub in self.modules:
                return ModuleRef(sub)
            return External(sub)
        if name in mod.assigns:
            return ("assign", mod, name)
        return None

    def resolve_expr(self, mod, expr):
        """Resolve Name / dotted Attribute chain to Class/Func/ModuleRef/External/None."""
        if isinstance(expr, ast.Name):
            return self.resolve_name(mod, expr.id)
        if isinstance(expr, ast.Attribute):
            base = self.resolve_expr(mod, expr.value)
            if isinstance(base, External):
                return External(base.dotted + "." + expr.attr)
            if isinstance(base, ModuleRef):
                m2 = self.modules.get(base.name)
                sub = base.name + "." + expr.attr
                if m2 is not None:
                    r = self.resolve_name(m2, expr.attr)
                    if r is not None:
                        return r
                if sub in self.modules:
                    return ModuleRef(sub)
                return External(sub)
            if isinstance(base, ClassInfo):
                f = self.lookup_method(base, expr.attr)
                if f is not None:
                    return f
                return None
            return None
        return None

    def dotted(self, mod, expr):
        """Dotted external name of an expression, or None."""
        r = self.resolve_expr(mod, expr)
        if isinstance(r, External):
            return r.dotted
        return None

    # ------------------------------------------------------------------ classes
    def get_class(self, name, module=None):
        if module is not None:
            m = self.module(module)
            c = m.classes.get(name)
            if c is None:
                raise AnalysisError("anchor class vanished: %s:%s" % (m.name, name))
            return c
        lst = self.classes_by_name.get(name, [])
        if len(lst) == 1:
            return lst[0]
        if not lst:
            raise AnalysisError("anchor class vanished: %s" % name)
        raise AnalysisError("class name ambiguous: %s in %s" % (name, [c.module.name for c in lst]))

    def find_class(self, name):
        lst = self.classes_by_name.get(name, [])
        return lst[0] if len(lst) == 1 else None

    def bases(self, ci):
        if ci.bases is None:
            out = []
            for b in ci.base_exprs:
                r = self.resolve_expr(ci.module, b)
                if isinstance(r, ClassInfo):
                    out.append(r)
                elif isinstance(r, External):
                    out.append(r)
                else:
                    try:
                        txt = ast.unparse(b)
                    except Exception:
                        txt = "?"
                    out.append(External(txt))
            ci.bases = out
        return ci.bases

    def mro(self, ci):
        """C3 linearisation; External bases are leaves. None if inconsistent."""
        if ci._mro is not None:
            return ci._mro if ci._mro != "NONE" else None
        ci._mro = "NONE"  # recursion guard
        seqs = []
        bs = self.bases(ci)
        for b in bs:
            if isinstance(b, ClassInfo):
                m = self.mro(b)
                if m is None:
                    self._note_no_mro(ci)
                    return None
                seqs.append(list(m))
            else:
                seqs.append([b])
        seqs.append(list(bs))
        res = [ci]
        seqs = [s for s in seqs if s]
        while seqs:
            cand = None
            for s in seqs:
                h = s[0]
                if not any(h in t[1:] for t in seqs):
                    cand = h
                    break
            if cand is None:
                self._note_no_mro(ci)
                return None
            res.append(cand)
            for s in seqs:
                if s[0] == cand:
                    del s[0]
            seqs = [s for s in seqs if s]
        ci._mro = res
        return res

    def _note_no_mro(self, ci):
        if ci.qualname not in self.classes_without_mro:
            self.classes_without_mro.append(ci.qualname)

    def mro_classes(self, ci):
        m = self.mro(ci)
        if m is None:
            raise AnalysisError("class %s has no consistent MRO" % ci.qualname)
        return [c for c in m if isinstance(c, ClassInfo)]

    def is_subclass(self, ci, base_name):
        m = self.mro(ci)
        if m is None:
            return False
        return any(isinstance(c, ClassInfo) and c.name == base_name for c in m)

    def subclasses(self, base_name, include_self=True):
        out = []
        for lst in self.classes_by_name.values():
            for c in lst:
                if self.is_subclass(c, base_name) and (include_self or c.name != base_name):
                    out.append(c)
        return sorted(out, key=lambda c: c.qualname)

    def all_classes(self):
        out = []
        for lst in self.classes_by_name.values():
            out.extend(lst)
        return sorted(out, key=lambda c: c.qualname)

    # ------------------------------------------------------------------ lookup
    def lookup_method(self, ci, name, after=None):
        """First FuncInfo named `name` in mro(ci) (strictly after class `after` if given)."""
        seen_after = after is None
        for c in self.mro_classes(ci):
            if not seen_after:
                if c is after:
                    seen_after = True
                continue
            if name in c.methods:
                return c.methods[name]
        return None

    def lookup_prop(self, ci, name):
        """Assemble the property `name` as seen from concrete class ci (getter, setter)."""
        chain = self.mro_classes(ci)
        # walk from the most basic to the most derived, applying redefinitions
        cur = None
        for c in reversed(chain):
            if name in c.own_props:
                p = c.own_props[name]
                if p.getter is not None and p.getter.cls is c and _is_fresh_property(p.getter.node):
                    cur = PropInfo(name)
                    cur.getter = p.getter
                    if p.setter is not None:
                        cur.setter = p.setter
                else:
                    if cur is None:
                        cur = PropInfo(name)
                    else:
                        cur = cur.clone()
                    if p.getter is not None:
                        cur.getter = p.getter
                    if p.setter is not None:
                        cur.setter = p.setter
            elif name in c.methods or name in c.class_attrs:
                cur = None
        return cur

    def has_attr(self, ci, name):
        return self.lookup_prop(ci, name) is not None or self.lookup_method(ci, name) is not None

    def all_props(self, ci):
        names = set()
        for c in self.mro_classes(ci):
            names.update(c.own_props)
        return sorted(names)

    def all_methods(self, ci):
        names = set()
        for c in self.mro_classes(ci):
            names.update(c.methods)
        return sorted(names)

    def const_prop(self, ci, name):
        """Fold a constant-returning property getter: returns python value or None."""
        p = self.lookup_prop(ci, name)
        if p is None or p.getter is None:
            return None
        body = [s for s in p.getter.node.body if not _is_docstring(s)]
        if len(body) == 1 and isinstance(body[0], ast.Return) and body[0].value is not None:
            return self._fold(ci, body[0].value, 0)
        return None

    def _fold(self, ci, e, depth):
        """fold literals, self.<const prop>, min/max/len/tuple of those"""
        if depth > 4:
            return None
        try:
            return ast.literal_eval(e)
        except Exception:
            pass
        if isinstance(e, ast.Attribute) and isinstance(e.value, ast.Name) and e.value.id == "self":
            if depth < 4:
                return self.const_prop(ci, e.attr)
            return None
        if isinstance(e, ast.Call) and isinstance(e.func, ast.Name) and e.func.id in ("min", "max", "len", "tuple") \
                and len(e.args) == 1 and not e.keywords:
            v = self._fold(ci, e.args[0], depth + 1)
            if v is None:
                return None
            try:
                return {"min": min, "max": max, "len": len, "tuple": tuple}[e.func.id](v)
            except Exception:
                return None
        return None

    def init_params(self, ci):
        """Named constructor parameters accepted by ci through the MRO chain of **kwargs."""
        out = []
        seen = set()
        for c in self.mro_classes(ci):
            f = c.methods.get("__init__")
            if f is None:
                continue
            for a in f.params():
                if a != "self" and a not in seen:
                    seen.add(a)
                    out.append(a)
            if not f.has_kwargs():
                break
        return out

    # ------------------------------------------------------------------ misc
    def func(self, module, name):
        m = self.module(module)
        f = m.functions.get(name)
        if f is None:
            raise AnalysisError("anchor function vanished: %s:%s" % (m.name, name))
        return f

    def method(self, ci, name):
        f = self.lookup_method(ci, name)
        if f is None:
            raise AnalysisError("anchor method vanished: %s.%s" % (ci.qualname, name))
        return f

    def own_method(self, ci, name):
        f = ci.methods.get(name)
        if f is None:
            raise AnalysisError("anchor method vanished: %s.%s" % (ci.qualname, name))
        return f

    def all_functions(self):
        """Every FuncInfo in the package (functions, methods, getters, setters)."""
        for m in sorted(self.modules.values(), key=lambda m: m.name):
            for f in m.functions.values():
                yield f
            for c in m.classes.values():
                for f in c.methods.values():
                    yield f
                for p in c.own_props.values():
                    if p.getter is not None:
                        yield p.getter
                    if p.setter is not None:
                        yield p.setter


def _is_fresh_property(fnode):
    for d in fnode.decorator_list:
        if isinstance(d, ast.Name) and d.id == "property":
            return True
    return False


def _is_docstring(s):
    return isinstance(s, ast.Expr) and isinstance(s.value, ast.Constant) and isinstance(s.value.value, str)


def body_nodoc(fnode):
    return [s for s in fnode.body if not _is_docstring(s)]


def unparse(n):
    try:
        return ast.unparse(n)
    except Exception:
        return "<?>"


def is_self_attr(n, attr=None, selfname="self"):
    return (isinstance(n, ast.Attribute) and isinstance(n.value, ast.Name)
            and n.value.id == selfname and (attr is None or n.attr == attr))


def super_call_info(call):
    """If call is super(C, x).m(...) or super().m(...): return (Cname|None, xname|None, m)."""
    f = call.func
    if isinstance(f, ast.Attribute) and isinstance(f.value, ast.Call):
        inner = f.value
        if isinstance(inner.func, ast.Name) and inner.func.id == "super":
            if len(inner.args) == 2 and isinstance(inner.args[0], ast.Name) and isinstance(inner.args[1], ast.Name):
                return (inner.args[0].id, inner.args[1].id, f.attr)
            if len(inner.args) == 0:
                return (None, None, f.attr)
    return None


_PROGRAM_CACHE = {}


def _tree_digest(repo):
    """digest of everything the program model is a function of: every source file of the package, the analyser's own model code, the reference table, the switches"""
    h = hashlib.sha256()
    root = os.path.join(repo, PKG)
    for dirpath, dirnames, filenames in os.walk(root):
        dirnames.sort()
        for fn in sorted(filenames):
            if fn.endswith(".py"):
                pth = os.path.join(dirpath, fn)
                h.update(os.path.relpath(pth, repo).encode())
                with open(pth, "rb") as fh:
                    h.update(fh.read())
    here = os.path.dirname(os.path.abspath(__file__))
    for fn in ("model.py", "astutil.py", "reference.json"):
        try:
            with open(os.path.join(here, fn), "rb") as fh:
                h.update(fh.read())
        except OSError:
            pass
    h.update(repr(sorted((k, v) for k, v in os.environ.items() if k.startswith("VERIF_NO_"))).encode())
    h.update(sys.version.encode())
    return h.hexdigest()[:24]


def load_program(repo=None):
    """The program model of the tree under `repo`, built from its current source.  Building takes several seconds (parsing + canonicalisation), and twenty checks
    build the same model: the built model is kept in <verif>/.cache keyed by a digest of every source file it was built from, so it is re-used only for a
    byte-identical tree (VERIF_NO_MODEL_CACHE=1 turns this off)."""
    repo = repo or REPO
    if repo in _PROGRAM_CACHE:
        return _PROGRAM_CACHE[repo]
    cache_file = None
    if os.environ.get("VERIF_NO_MODEL_CACHE") != "1":
        try:
            import pickle
            cdir = os.path.join(os.path.dirname(os.path.dirname(os.path.abspath(__file__))), ".cache")
            cache_file = os.path.join(cdir, "model-%s.pkl" % _tree_digest(repo))
            if os.path.exists(cache_file):
                sys.setrecursionlimit(max(sys.getrecursionlimit(), 20000))
                with open(cache_file, "rb") as fh:
                    prog = pickle.load(fh)
                prog.repo = repo
                for m in prog.modules.values():
                    m.path = os.path.join(repo, m.relpath)
                _PROGRAM_CACHE[repo] = prog
                return prog
        except Exception:
            cache_file = cache_file if cache_file and not os.path.exists(cache_file) else None
    prog = Program(repo)
    _PROGRAM_CACHE[repo] = prog
    if cache_file is not None:
        try:
            import pickle
            os.makedirs(os.path.dirname(cache_file), exist_ok=True)
            sys.setrecursionlimit(max(sys.getrecursionlimit(), 20000))
            tmp = "%s.%d.tmp" % (cache_file, os.getpid())
            with open(tmp, "wb") as fh:
                pickle.dump(prog, fh, protocol=pickle.HIGHEST_PROTOCOL)
            os.replace(tmp, cache_file)
            # keep the directory small: the eight most recent models
            olds = sorted((os.path.join(os.path.dirname(cache_file), f) for f in os.listdir(os.path.dirname(cache_file)) if f.startswith("model-")), key=os.path.getmtime)
            for f in olds[:-8]:
                try:
                    os.remove(f)
                except OSError:
                    pass
        except Exception:
            pass
    return prog
