"""
Forward taint with per-function summaries (DESIGN.md §2.9, A.6).

INEXACT_AT_ONE: a value computed as (1/D) * N  -- the reciprocal of a non-constant times a count -- need not equal 1.0
when N == D (e.g. (1.0/98)*98 != 1.0), whereas the true division N / D is exactly 1.0 for N == D in IEEE arithmetic.
Sources: products with a reciprocal factor.  Propagation: locals, casts, indexing, arithmetic with constants, returns
(function summaries, fixpoint; the return summary is CONTEXT-SENSITIVE in the parameters: "returns tainted" = own source reaches the return, or the
argument bound to a pass-through parameter is tainted at this call site -- so a shared helper such as `_as_dtype(x, d)` does not smear the taint of one
caller over all others), arguments (callee parameter taint for sinks INSIDE the callee, context-insensitive).  Sinks: comparison with the
literal 1 / 1.0 using == != >= <  (`> 0`, `== 0`, `<= 1` are exact under the source shape and are not sinks).
"""
import ast

from .astutil import walk_no_nested, dump, is_const
from .callgraph import resolve_call


def _is_one(e):
    return isinstance(e, ast.Constant) and not isinstance(e.value, bool) and isinstance(e.value, (int, float)) and e.value == 1


def _is_number(e):
    return isinstance(e, ast.Constant) and isinstance(e.value, (int, float)) and not isinstance(e.value, bool)


class InexactTaint:
    def __init__(self, prog, funcs):
        self.prog = prog
        self.funcs = list(funcs)
        self.ret = {}          # id(f) -> bool  (an own source reaches the return, whatever the arguments)
        self.ret_via = {}      # id(f) -> set(param names whose taint reaches the return)
        self.param = {}        # id(f) -> set(param names that some caller passes a tainted value for; used for sinks inside f)
        self.by_name = {}
        for f in self.funcs:
            if f.cls is not None:
                self.by_name.setdefault(f.name, []).append(f)
        self.sources = []      # (f, node)
        self.sinks = []        # (f, compare node, text)
        self.candidates = 0    # comparisons with literal 1 examined

    # ------------------------------------------------------------------ per function
    def analyse(self, f, summary=False):
        """summary=False: parameters tainted as callers pass them (for sinks inside f).  summary=True: parameters carry only their own symbolic label
        ('P:<name>'), so that the result says which parameters flow to the return and whether an own source does."""
        ps = f.params()
        if summary:
            return self._analyse_summary(f)
        tainted = set(self.param.get(id(f), ()))
        recip = set()
        srcs = []
        changed = True
        stmts = [n for n in walk_no_nested(f.node) if isinstance(n, (ast.Assign, ast.AugAssign, ast.Return, ast.AnnAssign))]
        stmts.sort(key=lambda n: (n.lineno, n.col_offset))
        it = 0
        ret_t = False
        while changed and it < 6:
            changed = False
            it += 1
            for st in stmts:
                if isinstance(st, ast.Assign):
                    v = st.value
                    tv = self.expr_tainted(f, v, tainted, recip, srcs)
                    rv = self.is_recip(v, recip)
                    for t in st.targets:
                        for n in ast.walk(t):
                            if isinstance(n, ast.Name) and isinstance(n.ctx, ast.Store):
                                if tv and n.id not in tainted:
                                    tainted.add(n.id)
                                    changed = True
                                if rv and n.id not in recip:
                                    recip.add(n.id)
                                    changed = True
                elif isinstance(st, ast.AugAssign) and isinstance(st.target, ast.Name):
                    tv = self.expr_tainted(f, st.value, tainted, recip, srcs)
                    if isinstance(st.op, ast.Mult) and self.is_recip(st.value, recip):
                        tv = True
                        srcs.append(st)
                    if tv and st.target.id not in tainted:
                        tainted.add(st.target.id)
                        changed = True
                elif isinstance(st, ast.Return) and st.value is not None:
                    if self.expr_tainted(f, st.value, tainted, recip, srcs):
                        ret_t = True
        return tainted, recip, ret_t, srcs

    def _analyse_summary(self, f):
        """label-set version of analyse(): returns (own_source_reaches_return, params_reaching_return)"""
        lab = {p_: {"P:" + p_} for p_ in f.params()}
        recip = set()
        stmts = [n for n in walk_no_nested(f.node) if isinstance(n, (ast.Assign, ast.AugAssign, ast.Return, ast.AnnAssign))]
        stmts.sort(key=lambda n: (n.lineno, n.col_offset))
        ret = set()
        changed = True
        it = 0
        while changed and it < 6:
            changed = False
            it += 1
            for st in stmts:
                if isinstance(st, ast.Assign):
                    ls = self.expr_labels(f, st.value, lab, recip)
                    rv = self.is_recip(st.value, recip)
                    for t in st.targets:
                        for n in ast.walk(t):
                            if isinstance(n, ast.Name) and isinstance(n.ctx, ast.Store):
                                if not ls <= lab.get(n.id, set()):
                                    lab.setdefault(n.id, set()).update(ls)
                                    changed = True
                                if rv and n.id not in recip:
                                    recip.add(n.id)
                                    changed = True
                elif isinstance(st, ast.AugAssign) and isinstance(st.target, ast.Name):
                    ls = self.expr_labels(f, st.value, lab, recip)
                    if isinstance(st.op, ast.Mult) and self.is_recip(st.value, recip):
                        ls = ls | {"SRC"}
                    if not ls <= lab.get(st.target.id, set()):
                        lab.setdefault(st.target.id, set()).update(ls)
                        changed = True
                elif isinstance(st, ast.Return) and st.value is not None:
                    ret |= self.expr_labels(f, st.value, lab, recip)
        return ("SRC" in ret), {l[2:] for l in ret if l.startswith("P:")}

    def expr_labels(self, f, e, lab, recip):
        """set of labels ('SRC' / 'P:<param>') a value may carry"""
        if isinstance(e, ast.Name):
            return set(lab.get(e.id, ()))
        if isinstance(e, ast.Constant):
            return set()
        if isinstance(e, ast.BinOp):
            out = self.expr_labels(f, e.left, lab, recip) | self.expr_labels(f, e.right, lab, recip)
            if isinstance(e.op, ast.Mult):
                l, r = e.left, e.right
                if (self.is_recip(l, recip) and not _is_number(r)) or (self.is_recip(r, recip) and not _is_number(l)):
                    out.add("SRC")
            return out
        if isinstance(e, ast.UnaryOp):
            return self.expr_labels(f, e.operand, lab, recip)
        if isinstance(e, ast.Subscript):
            return self.expr_labels(f, e.value, lab, recip)
        if isinstance(e, ast.IfExp):
            return self.expr_labels(f, e.body, lab, recip) | self.expr_labels(f, e.orelse, lab, recip)
        if isinstance(e, ast.Call):
            out = set()
            for t in self.targets(f, e):
                if self.ret.get(id(t)):
                    out.add("SRC")
                via = self.ret_via.get(id(t), ())
                if via:
                    for pn, a in self._bind(t, e).items():
                        if pn in via:
                            out |= self.expr_labels(f, a, lab, recip)
            if isinstance(e.func, ast.Attribute):
                if e.func.attr in ("astype", "copy", "view", "reshape", "ravel", "flatten", "squeeze"):
                    out |= self.expr_labels(f, e.func.value, lab, recip)
                if e.func.attr == "type" and e.args:
                    out |= self.expr_labels(f, e.args[0], lab, recip)
            d = dump(e.func)
            if d in ("numpy.float64", "numpy.float32", "numpy.asarray", "numpy.array", "float", "numpy.minimum", "numpy.maximum", "numpy.where"):
                for a in e.args:
                    out |= self.expr_labels(f, a, lab, recip)
            return out
        if isinstance(e, (ast.Tuple, ast.List)):
            out = set()
            for x in e.elts:
                out |= self.expr_labels(f, x, lab, recip)
            return out
        return set()

    @staticmethod
    def _bind(t, call):
        ps = t.params()
        if ps and ps[0] in ("self", "cls"):
            ps = ps[1:]
        out = {}
        for i, a in enumerate(call.args):
            if i < len(ps) and not isinstance(a, ast.Starred):
                out[ps[i]] = a
        for k in call.keywords:
            if k.arg:
                out[k.arg] = k.value
        return out

    def is_recip(self, e, recip):
        """1/D with non-constant D, or a name bound to one"""
        if isinstance(e, ast.Name):
            return e.id in recip
        if isinstance(e, ast.BinOp) and isinstance(e.op, ast.Div) and _is_one(e.left) and not _is_number(e.right):
            return True
        if isinstance(e, ast.Call) and dump(e.func) in ("numpy.reciprocal", "np.reciprocal"):
            return True
        return False

    def expr_tainted(self, f, e, tainted, recip, srcs):
        if isinstance(e, ast.Name):
            return e.id in tainted
        if isinstance(e, ast.Constant):
            return False
        if isinstance(e, ast.BinOp):
            if isinstance(e.op, ast.Mult):
                l, r = e.left, e.right
                if (self.is_recip(l, recip) and not _is_number(r)) or (self.is_recip(r, recip) and not _is_number(l)):
                    srcs.append(e)
                    return True
            return self.expr_tainted(f, e.left, tainted, recip, srcs) or self.expr_tainted(f, e.right, tainted, recip, srcs)
        if isinstance(e, ast.UnaryOp):
            return self.expr_tainted(f, e.operand, tainted, recip, srcs)
        if isinstance(e, ast.Subscript):
            return self.expr_tainted(f, e.value, tainted, recip, srcs)
        if isinstance(e, ast.IfExp):
            return self.expr_tainted(f, e.body, tainted, recip, srcs) or self.expr_tainted(f, e.orelse, tainted, recip, srcs)
        if isinstance(e, ast.Call):
            # method / function whose summary says "returns tainted"
            for t in self.targets(f, e):
                if self.ret.get(id(t)):
                    return True
                via = self.ret_via.get(id(t), ())
                if via and any(pn in via and self.expr_tainted(f, a, tainted, recip, srcs) for pn, a in self._bind(t, e).items()):
                    return True
            # dtype casts and copies propagate:  dtype.type(x), x.astype(d), numpy.float64(x), x.copy()
            if isinstance(e.func, ast.Attribute):
                if e.func.attr in ("astype", "copy", "view", "reshape", "ravel", "flatten", "squeeze") and \
                        self.expr_tainted(f, e.func.value, tainted, recip, srcs):
                    return True
                if e.func.attr == "type" and e.args and self.expr_tainted(f, e.args[0], tainted, recip, srcs):
                    return True
            d = dump(e.func)
            if d in ("numpy.float64", "numpy.float32", "numpy.asarray", "numpy.array", "float", "numpy.minimum", "numpy.maximum", "numpy.where") \
                    and any(self.expr_tainted(f, a, tainted, recip, srcs) for a in e.args):
                return True
            return False
        if isinstance(e, (ast.Tuple, ast.List)):
            return any(self.expr_tainted(f, x, tainted, recip, srcs) for x in e.elts)
        return False

    def targets(self, f, call):
        cs = resolve_call(self.prog, f, call)
        if cs.targets:
            return cs.targets
        if isinstance(call.func, ast.Attribute):
            return self.by_name.get(call.func.attr, []) if len(self.by_name.get(call.func.attr, [])) <= 12 else []
        return []

    # ------------------------------------------------------------------ whole set
    def run(self):
        for f in self.funcs:
            self.ret[id(f)] = False
        for rnd in range(8):
            changed = False
            for f in self.funcs:
                own, via = self._analyse_summary(f)
                if own and not self.ret[id(f)]:
                    self.ret[id(f)] = True
                    changed = True
                if not via <= self.ret_via.setdefault(id(f), set()):
                    self.ret_via[id(f)] |= via
                    changed = True
                tainted, recip, ret_t, srcs = self.analyse(f)
                # argument -> parameter taint
                for n in walk_no_nested(f.node):
                    if isinstance(n, ast.Call):
                        targs = None
                        for i, a in enumerate(n.args):
                            if self.expr_tainted(f, a, tainted, recip, []):
                                targs = targs if targs is not None else self.targets(f, n)
                                for t in targs:
                                    ps = t.params()
                                    if ps and ps[0] in ("self", "cls"):
                                        ps = ps[1:]
                                    if i < len(ps) and ps[i] not in self.param.setdefault(id(t), set()):
                                        self.param[id(t)].add(ps[i])
                                        changed = True
                        for k in n.keywords:
                            if k.arg and self.expr_tainted(f, k.value, tainted, recip, []):
                                targs = targs if targs is not None else self.targets(f, n)
                                for t in targs:
                                    if k.arg in t.params() and k.arg not in self.param.setdefault(id(t), set()):
                                        self.param[id(t)].add(k.arg)
                                        changed = True
            if not changed:
                break
        # collect sources and sinks
        for f in self.funcs:
            tainted, recip, ret_t, srcs = self.analyse(f)
            for s in srcs:
                self.sources.append((f, s))
            for n in walk_no_nested(f.node):
                if isinstance(n, ast.Compare) and len(n.ops) == 1:
                    l, r, op = n.left, n.comparators[0], type(n.ops[0])
                    if _is_one(r) and op in (ast.Eq, ast.NotEq, ast.GtE, ast.Lt):
                        val = l
                    elif _is_one(l) and op in (ast.Eq, ast.NotEq, ast.LtE, ast.Gt):
                        val = r
                    else:
                        continue
                    self.candidates += 1
                    if self.expr_tainted(f, val, tainted, recip, []):
                        self.sinks.append((f, n, dump(n)))
        return self
