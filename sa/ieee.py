"""
Constant folding of a straight-line numeric function body at literal float arguments, with IEEE-754 semantics
(inf - inf = nan, inf/inf = nan, x/0 = +-inf, exp overflow = inf).  Used for boundary facts such as "mapfn(+inf) = 1/2":
the analyser interprets the syntax tree itself on two literal points; no code of the analysed package is executed.
"""
import ast
import math

from .astutil import dump

INF = float("inf")
NAN = float("nan")


class FoldUnknown(Exception):
    pass


def _div(a, b):
    if b == 0:
        if a == 0 or a != a:
            return NAN
        return math.copysign(INF, a) * (math.copysign(1.0, b))
    if math.isinf(a) and math.isinf(b):
        return NAN
    return a / b


def _mul(a, b):
    if (a == 0 and math.isinf(b)) or (b == 0 and math.isinf(a)):
        return NAN
    return a * b


def _exp(x):
    try:
        return math.exp(x)
    except OverflowError:
        return INF


def _log(x):
    if x != x or x < 0:
        return NAN
    if x == 0:
        return -INF
    return math.log(x) if not math.isinf(x) else INF


def _arctanh(x):
    if x != x or abs(x) > 1:
        return NAN
    if abs(x) == 1:
        return math.copysign(INF, x)
    return math.atanh(x)


UNARY = {"exp": _exp, "log": _log, "tanh": lambda x: math.tanh(x) if x == x else NAN, "arctanh": _arctanh,
         "sqrt": lambda x: NAN if x != x or x < 0 else (INF if math.isinf(x) else math.sqrt(x)), "abs": abs, "absolute": abs,
         "log1p": lambda x: _log(1.0 + x), "expm1": lambda x: _exp(x) - 1.0, "negative": lambda x: -x, "square": lambda x: _mul(x, x),
         "cosh": lambda x: INF if math.isinf(x) else math.cosh(x), "sinh": lambda x: x if math.isinf(x) else math.sinh(x)}


def fold(prog, f, stmts, env):
    """value returned by the straight-line body `stmts` with the float environment `env`"""
    env = dict(env)

    def ev(e):
        if isinstance(e, ast.Constant) and isinstance(e.value, (int, float)) and not isinstance(e.value, bool):
            return float(e.value)
        if isinstance(e, ast.Name):
            if e.id in env:
                return env[e.id]
            raise FoldUnknown("free name %s" % e.id)
        if isinstance(e, ast.Attribute):
            d = prog.dotted(f.module, e)
            if d in ("numpy.inf", "numpy.Inf", "math.inf", "numpy.infty"):
                return INF
            if d in ("numpy.nan", "math.nan"):
                return NAN
            if d in ("numpy.pi", "math.pi"):
                return math.pi
            # numpy.finfo(float).eps and friends (binary64)
            if isinstance(e.value, ast.Call) and prog.dotted(f.module, e.value.func) == "numpy.finfo" and len(e.value.args) == 1 \
                    and dump(e.value.args[0]) in ("float", "numpy.float64", "numpy.double", "'float64'", "'d'"):
                import sys as _sys
                tab = {"eps": _sys.float_info.epsilon, "tiny": _sys.float_info.min, "max": _sys.float_info.max, "min": -_sys.float_info.max,
                       "smallest_normal": _sys.float_info.min, "epsneg": _sys.float_info.epsilon / 2}
                if e.attr in tab:
                    return tab[e.attr]
            raise FoldUnknown("attribute %s" % dump(e))
        if isinstance(e, ast.UnaryOp) and isinstance(e.op, (ast.USub, ast.UAdd)):
            v = ev(e.operand)
            return -v if isinstance(e.op, ast.USub) else v
        if isinstance(e, ast.BinOp):
            a, b = ev(e.left), ev(e.right)
            if isinstance(e.op, ast.Add):
                return a + b
            if isinstance(e.op, ast.Sub):
                return a - b
            if isinstance(e.op, ast.Mult):
                return _mul(a, b)
            if isinstance(e.op, ast.Div):
                return _div(a, b)
            if isinstance(e.op, ast.Pow):
                try:
                    return a ** b
                except (OverflowError, ZeroDivisionError):
                    return INF
            raise FoldUnknown("operator %s" % type(e.op).__name__)
        if isinstance(e, ast.Call) and len(e.args) == 1 and not e.keywords:
            d = prog.dotted(f.module, e.func)
            if d and d.split(".")[0] in ("numpy", "math") and d.split(".")[-1] in UNARY:
                return UNARY[d.split(".")[-1]](ev(e.args[0]))
            if isinstance(e.func, ast.Name) and e.func.id in ("float", "abs"):
                v = ev(e.args[0])
                return abs(v) if e.func.id == "abs" else v
        if isinstance(e, ast.Call) and prog.dotted(f.module, e.func) == "numpy.clip" and len(e.args) + len(e.keywords) == 3:
            kw = {k.arg: k.value for k in e.keywords}
            parts = list(e.args) + [kw[k] for k in ("a", "a_min", "a_max") if k in kw][:3 - len(e.args)]
            if len(parts) == 3:
                x = ev(parts[0])
                lo = None if (isinstance(parts[1], ast.Constant) and parts[1].value is None) else ev(parts[1])
                hi = None if (isinstance(parts[2], ast.Constant) and parts[2].value is None) else ev(parts[2])
                if x != x:
                    return x
                if lo is not None and x < lo:
                    x = lo
                if hi is not None and x > hi:
                    x = hi
                return x
        if isinstance(e, ast.Call) and len(e.args) == 2 and not e.keywords and prog.dotted(f.module, e.func) in ("numpy.minimum", "numpy.maximum", "numpy.fmin", "numpy.fmax"):
            a, b = ev(e.args[0]), ev(e.args[1])
            d = prog.dotted(f.module, e.func)
            if a != a or b != b:
                return (b if a != a else a) if d in ("numpy.fmin", "numpy.fmax") else NAN
            return min(a, b) if d in ("numpy.minimum", "numpy.fmin") else max(a, b)
        if isinstance(e, ast.Call) and isinstance(e.func, ast.Name) and e.func.id in ("min", "max") and len(e.args) == 2 and not e.keywords:
            a, b = ev(e.args[0]), ev(e.args[1])
            return (min if e.func.id == "min" else max)(a, b)
        if isinstance(e, ast.Call) and len(e.args) == 2 and not e.keywords:
            d = prog.dotted(f.module, e.func)
            tab = {"numpy.divide": _div, "numpy.true_divide": _div, "numpy.multiply": _mul, "numpy.add": lambda a, b: a + b, "numpy.subtract": lambda a, b: a - b}
            if d in tab:
                return tab[d](ev(e.args[0]), ev(e.args[1]))
        raise FoldUnknown("expression %s" % dump(e)[:50])

    for st in stmts:
        if isinstance(st, ast.Assign) and len(st.targets) == 1 and isinstance(st.targets[0], ast.Name):
            env[st.targets[0].id] = ev(st.value)
        elif isinstance(st, ast.Return) and st.value is not None:
            return ev(st.value)
        elif isinstance(st, ast.Expr) and isinstance(st.value, ast.Constant):
            continue
        else:
            raise FoldUnknown("statement %s" % type(st).__name__)
    raise FoldUnknown("no return")
