"""
Generator-flow analysis (DESIGN.md §2.7, A.5).

Every call that consumes or creates entropy is classified by the ORIGIN of the generator:

  OWN      the function's own `rng` parameter / the component's `self.rng` (`self._rng`)
  GLOBAL   numpy legacy global (numpy.random.<fn>, global_prng, pybrops.core.random.prng.<fn>)
           or the Python `random` module
  LOCAL    a generator constructed locally (then the origin of its seed matters)
  NONRNG   the receiver is not a generator (numpy.power, ...)
  UNKNOWN  anything else
"""
import ast

from .astutil import walk_no_nested, dump, kwargs_of, field_of
from .model import External, ModuleRef, FuncInfo, ClassInfo

DRAW_API = set("""beta binomial bytes chisquare choice dirichlet exponential f gamma geometric gumbel
hypergeometric integers laplace logistic lognormal logseries multinomial multivariate_normal negative_binomial
noncentral_chisquare noncentral_f normal pareto permutation permuted poisson power rand randint randn random
random_sample random_integers ranf sample rayleigh shuffle standard_cauchy standard_exponential standard_gamma
standard_normal standard_t triangular uniform vonmises wald weibull zipf
randrange getrandbits choices gauss betavariate expovariate""".split())

CTOR_NAMES = {"numpy.random.Generator", "numpy.random.default_rng", "numpy.random.RandomState",
              "numpy.random.SeedSequence", "numpy.random.PCG64", "numpy.random.MT19937", "numpy.random.Philox",
              "numpy.random.SFC64", "numpy.random.PCG64DXSM", "random.Random", "random.SystemRandom",
              "numpy.random.mtrand.RandomState", "numpy.random.BitGenerator"}
FORBIDDEN_ENTROPY = ("os.urandom", "secrets.", "uuid.uuid", "time.time", "time.time_ns", "time.perf_counter",
                     "time.monotonic", "random.SystemRandom", "os.getrandom", "datetime.datetime.now", "os.getpid")
PRNG_MOD = "pybrops.core.random.prng"
SEEDERS = {"numpy.random.seed", "random.seed"}
STATE_SETTERS = {"numpy.random.set_state", "random.setstate"}


def _is_prng_global(prog, r):
    """resolved object is (an alias of) the global generator or one of its bound methods in prng.py"""
    if isinstance(r, tuple) and r and r[0] == "assign":
        _, m, name = r
        if m.name == PRNG_MOD:
            return True
    return False


def receiver_origin(prog, f, recv, local_defs=None):
    """Origin of a generator-valued expression `recv` inside function f."""
    mod = f.module
    # self.rng / self._rng
    if isinstance(recv, ast.Attribute) and isinstance(recv.value, ast.Name) and recv.value.id == "self" \
            and recv.attr in ("rng", "_rng"):
        return "OWN"
    if isinstance(recv, ast.Name):
        if recv.id == "rng" and "rng" in f.params():
            return "OWN"
        if local_defs and recv.id in local_defs:
            vals = local_defs[recv.id]
            origins = {receiver_origin(prog, f, v, None) if not isinstance(v, str) else v for v in vals}
            if len(origins) == 1:
                return origins.pop()
            if origins <= {"OWN", "GLOBAL"} and recv.id == "rng":
                return "OWN"
            return "MIXED:" + ",".join(sorted(origins))
    r = prog.resolve_expr(mod, recv) if isinstance(recv, (ast.Name, ast.Attribute)) else None
    if isinstance(r, External):
        d = r.dotted
        if d == "numpy.random" or d.startswith("numpy.random.") or d == "random" or d.startswith("random."):
            return "GLOBAL"
        return "NONRNG"
    if isinstance(r, ModuleRef):
        if r.name == PRNG_MOD or r.name == "pybrops.core.random":
            return "GLOBAL"
        return "NONRNG"
    if _is_prng_global(prog, r):
        return "GLOBAL"
    if isinstance(r, (FuncInfo, ClassInfo)):
        return "NONRNG"
    if isinstance(recv, ast.Call):
        d = prog.dotted(mod, recv.func)
        if d in CTOR_NAMES:
            return "LOCAL"
    if isinstance(recv, ast.Constant) and recv.value is None:
        return "NONE"
    return "UNKNOWN"


def local_generator_defs(prog, f):
    """name -> list of value exprs for simple local assignments (for origin tracing)"""
    defs = {}
    for n in walk_no_nested(f.node):
        if isinstance(n, ast.Assign) and len(n.targets) == 1 and isinstance(n.targets[0], ast.Name):
            defs.setdefault(n.targets[0].id, []).append(n.value)
    out = {}
    for k, vals in defs.items():
        if k == "rng" and "rng" in f.params():
            # `if rng is None: rng = global_prng` -- own generator with the global default
            out[k] = ["OWN"] + [v for v in vals]
        else:
            out[k] = vals
    return out


class Draw:
    __slots__ = ("func", "call", "api", "origin", "what")

    def __init__(self, func, call, api, origin, what):
        self.func, self.call, self.api, self.origin, self.what = func, call, api, origin, what


def direct_draws(prog, f):
    """All draw sites lexically inside f (nested defs excluded)."""
    out = []
    ldefs = None
    for n in walk_no_nested(f.node):
        if not isinstance(n, ast.Call):
            continue
        fn = n.func
        if isinstance(fn, ast.Attribute) and fn.attr in DRAW_API:
            if ldefs is None:
                ldefs = local_generator_defs(prog, f)
            o = receiver_origin(prog, f, fn.value, ldefs)
            if o == "NONRNG":
                continue
            if o == "UNKNOWN":
                # receivers that are plainly not generators: self.<method>, arrays, strings, ...
                if fn.attr in ("f", "power", "bytes", "sample", "random", "format", "choice") and not _looks_rng(fn.value):
                    continue
                if not _looks_rng(fn.value):
                    continue
            out.append(Draw(f, n, fn.attr, o, dump(fn.value) + "." + fn.attr))
        elif isinstance(fn, ast.Name):
            r = prog.resolve_name(f.module, fn.id)
            if isinstance(r, External) and (r.dotted.startswith("numpy.random.") or r.dotted.startswith("random.")) \
                    and r.dotted.split(".")[-1] in DRAW_API:
                out.append(Draw(f, n, r.dotted.split(".")[-1], "GLOBAL", r.dotted))
            elif _is_prng_global(prog, r) and fn.id in DRAW_API:
                out.append(Draw(f, n, fn.id, "GLOBAL", PRNG_MOD + "." + fn.id))
    return out


def _looks_rng(e):
    s = dump(e).lower()
    return "rng" in s or "random" in s or "prng" in s or "generator" in s or "rand" in s


def generator_constructions(prog, f_or_mod_nodes, mod):
    """(call, dotted) for each generator/bit-generator/seed-sequence construction in the nodes"""
    out = []
    for n in f_or_mod_nodes:
        if isinstance(n, ast.Call):
            d = prog.dotted(mod, n.func)
            if d in CTOR_NAMES:
                out.append((n, d))
    return out


def seed_origin(prog, f, expr):
    """origin of a seed expression: PYRANDOM / GLOBAL / OWN / CONST / PARAM / FORBIDDEN:<what> / NONE / UNKNOWN"""
    mod = f.module if f is not None else None
    if expr is None:
        return "NONE"
    if isinstance(expr, ast.Constant):
        return "NONE" if expr.value is None else "CONST"
    # a local bound exactly once stands for its defining expression
    if isinstance(expr, ast.Name) and f is not None and expr.id not in f.params():
        defs = [n.value for n in ast.walk(f.node) if isinstance(n, ast.Assign) and len(n.targets) == 1 and isinstance(n.targets[0], ast.Name) and n.targets[0].id == expr.id]
        if len(defs) == 1 and not any(isinstance(x, ast.Name) and x.id == expr.id for x in ast.walk(defs[0])):
            return seed_origin(prog, f, defs[0])
    found = set()
    for n in ast.walk(expr):
        if isinstance(n, ast.Call):
            d = prog.dotted(mod, n.func) if mod is not None else None
            if d is not None:
                if any(d.startswith(x) for x in FORBIDDEN_ENTROPY):
                    return "FORBIDDEN:" + d
                if d.startswith("random."):
                    found.add("PYRANDOM")
                elif d.startswith("numpy.random.") and d.split(".")[-1] in DRAW_API:
                    found.add("GLOBAL")
            if d is None and isinstance(n.func, ast.Attribute) and n.func.attr in DRAW_API and f is not None:
                o = receiver_origin(prog, f, n.func.value, local_generator_defs(prog, f))
                if o in ("OWN", "GLOBAL"):
                    found.add(o)
        elif isinstance(n, ast.Name) and f is not None and n.id in f.params() and n.id not in ("self", "cls"):
            found.add("PARAM")
    if not found:
        return "UNKNOWN"
    if len(found) == 1:
        return found.pop()
    found.discard("PARAM")
    return "+".join(sorted(found)) if found else "PARAM"
