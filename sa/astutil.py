"""Small AST helpers shared by the rule files."""
import ast


def attr_chain(n):
    """`a.b.c` -> ('a','b','c'); None if not a pure Name/Attribute chain."""
    out = []
    while isinstance(n, ast.Attribute):
        out.append(n.attr)
        n = n.value
    if isinstance(n, ast.Name):
        out.append(n.id)
        return tuple(reversed(out))
    return None


def field_of(n, obj="self"):
    """`obj.f` or `obj._f` -> 'f' (public/private slot of the same property); else None."""
    if isinstance(n, ast.Attribute) and isinstance(n.value, ast.Name) and n.value.id == obj:
        a = n.attr
        return a[1:] if a.startswith("_") and not a.startswith("__") else a
    return None


def raw_field_of(n, obj="self"):
    if isinstance(n, ast.Attribute) and isinstance(n.value, ast.Name) and n.value.id == obj:
        return n.attr
    return None


def strip_us(name):
    return name[1:] if name.startswith("_") and not name.startswith("__") else name


def kwargs_of(call):
    """(dict kw->value, list of **star exprs)"""
    d = {}
    stars = []
    for k in call.keywords:
        if k.arg is None:
            stars.append(k.value)
        else:
            d[k.arg] = k.value
    return d, stars


def call_attr(call):
    """method name of `x.m(...)`, else None"""
    if isinstance(call, ast.Call) and isinstance(call.func, ast.Attribute):
        return call.func.attr
    return None


def call_func_name(call):
    if isinstance(call, ast.Call):
        if isinstance(call.func, ast.Name):
            return call.func.id
        if isinstance(call.func, ast.Attribute):
            return call.func.attr
    return None


def is_none(n):
    return isinstance(n, ast.Constant) and n.value is None


def is_const(n, v=None):
    if not isinstance(n, ast.Constant):
        return False
    return v is None or (n.value == v and type(n.value) == type(v)) or (
        isinstance(v, (int, float)) and isinstance(n.value, (int, float)) and not isinstance(n.value, bool) and n.value == v)


def walk_no_nested(node):
    """ast.walk that does not descend into nested function/class/lambda definitions."""
    stack = [node]
    first = True
    while stack:
        n = stack.pop()
        if not first and isinstance(n, (ast.FunctionDef, ast.AsyncFunctionDef, ast.ClassDef, ast.Lambda)):
            continue
        first = False
        yield n
        stack.extend(reversed(list(ast.iter_child_nodes(n))))


def where(func, node=None):
    """file:line for diagnostics"""
    ln = getattr(node, "lineno", None) or getattr(func.node, "lineno", 0)
    return "%s:%s" % (func.relpath, ln)


def dump(n):
    try:
        return ast.unparse(n)
    except Exception:
        return "<?>"


def same_expr(a, b):
    return ast.dump(a) == ast.dump(b)


def names_loaded(node):
    return {n.id for n in ast.walk(node) if isinstance(n, ast.Name) and isinstance(n.ctx, ast.Load)}


def assigned_names(target):
    out = []
    for n in ast.walk(target):
        if isinstance(n, ast.Name) and isinstance(n.ctx, (ast.Store, ast.Del)):
            out.append(n.id)
    return out


def subscript_index(sub):
    """index expression of a Subscript as a tuple of element nodes"""
    s = sub.slice
    if isinstance(s, ast.Tuple):
        return list(s.elts)
    return [s]


def alpha_normalise(nodes, keep=()):
    """
    text of a statement list with every local variable (a Name that is stored somewhere in `nodes`, not in `keep`) replaced by v0, v1, ...
    in order of first occurrence: two statement lists that differ only in the names of their locals have the same text.
    """
    import copy
    nodes = [copy.deepcopy(n) for n in nodes]
    stored = []
    for n in nodes:
        for x in ast.walk(n):
            if isinstance(x, ast.Name) and isinstance(x.ctx, (ast.Store, ast.Del)) and x.id not in keep and x.id not in stored:
                stored.append(x.id)
    order = {}
    for n in nodes:
        for x in ast.walk(n):
            if isinstance(x, ast.Name) and x.id in stored and x.id not in order:
                order[x.id] = "v%d" % len(order)
    for n in nodes:
        for x in ast.walk(n):
            if isinstance(x, ast.Name) and x.id in order:
                x.id = order[x.id]
    return [dump(n) for n in nodes]


_FLIPOP = {ast.Lt: ast.Gt, ast.LtE: ast.GtE, ast.Gt: ast.Lt, ast.GtE: ast.LtE, ast.Eq: ast.Eq, ast.NotEq: ast.NotEq}


def oriented(cmp, left_pred):
    """the single comparison `cmp` read with the operand satisfying left_pred on the LEFT (a < b is b > a); None when neither / both sides qualify or it is chained"""
    if not (isinstance(cmp, ast.Compare) and len(cmp.ops) == 1 and type(cmp.ops[0]) in _FLIPOP):
        return None
    l, r = cmp.left, cmp.comparators[0]
    pl, pr = bool(left_pred(l)), bool(left_pred(r))
    if pl and not pr:
        return cmp
    if pr and not pl:
        return ast.Compare(left=r, ops=[_FLIPOP[type(cmp.ops[0])]()], comparators=[l])
    return None


def inline_temporaries(stmts, keep=()):
    """statement list with every single-assignment, single-use local whose value is a call-free or numpy-only expression substituted into the NEXT statement
    (so `t = e ; y = f(t)` and `y = f(e)` read alike).  Works on copies."""
    import copy
    stmts = [copy.deepcopy(x) for x in stmts]
    changed = True
    while changed:
        changed = False
        uses, stores = {}, {}
        for st in stmts:
            for n in ast.walk(st):
                if isinstance(n, ast.Name):
                    if isinstance(n.ctx, ast.Load):
                        uses[n.id] = uses.get(n.id, 0) + 1
                    else:
                        stores[n.id] = stores.get(n.id, 0) + 1
        for i in range(len(stmts) - 1):
            a, b = stmts[i], stmts[i + 1]
            if isinstance(a, ast.Assign) and len(a.targets) == 1 and isinstance(a.targets[0], ast.Name):
                t = a.targets[0].id
                pure = all(not isinstance(n, ast.Call) or dump(n.func).startswith(("numpy.", "np.", "len", "range")) for n in ast.walk(a.value))
                here_ = [n for n in ast.walk(b) if isinstance(n, ast.Name) and n.id == t and isinstance(n.ctx, ast.Load)]
                if t not in keep and pure and stores.get(t, 0) == 1 and uses.get(t, 0) == 1 and len(here_) == 1:
                    val = a.value

                    class Sub(ast.NodeTransformer):
                        def visit_Name(self, n):
                            return val if (n.id == t and isinstance(n.ctx, ast.Load)) else n
                    stmts[i + 1] = Sub().visit(b)
                    del stmts[i]
                    changed = True
                    break
    return stmts


def terminal(stmts):
    """the statement list cannot fall through its end (last statement returns / raises / continues / breaks)"""
    return bool(stmts) and isinstance(stmts[-1], (ast.Return, ast.Raise, ast.Continue, ast.Break))


def if_chain(stmts, i):
    """The chain of alternatives that starts at the If statement stmts[i], however it is laid out: `elif` nesting, or consecutive sibling Ifs
    whose bodies cannot fall through (`if a: return x` / `if b: return y` / ...).  Returns (branches, tail): branches is a list of
    (test, body, If node); tail is what runs when no test holds (the final else, or the statements after the chain)."""
    branches = []
    node = stmts[i]
    rest = list(stmts[i + 1:])
    while True:
        branches.append((node.test, node.body, node))
        if node.orelse:
            if len(node.orelse) == 1 and isinstance(node.orelse[0], ast.If):
                node = node.orelse[0]
                continue
            tail = list(node.orelse)
            if not terminal(tail):
                tail = tail + rest
            return branches, tail
        if terminal(node.body) and rest and isinstance(rest[0], ast.If):
            node = rest[0]
            rest = rest[1:]
            continue
        return branches, rest


def canon_tree(tree):
    """apply to a reference fragment the syntactic canonicalisations the program model applies to the source when it loads it (subscripts, comparisons)"""
    from sa import model as _m
    _m._canonicalise_subscripts(tree)
    _m._canonicalise_comparisons(tree)
    _m._canonicalise_shape0(tree)
    return tree


def canon_text(text, mode="eval"):
    """canonical spelling of an expression / statement text (see canon_tree): `x[i, :]` -> `x[i]`, `0 < x` -> `x > 0`"""
    t = ast.parse(text, mode=mode)
    canon_tree(t)
    return ast.unparse(t.body if mode == "eval" else t)


def is_guard(st):
    """an input check: `if <test>: raise ...` with no else and nothing but the raise (and the building of its message) in the body"""
    return isinstance(st, ast.If) and not st.orelse and bool(st.body) and isinstance(st.body[-1], ast.Raise) \
        and all(isinstance(b, ast.Raise) or (isinstance(b, ast.Assign) and len(b.targets) == 1 and isinstance(b.targets[0], ast.Name)) for b in st.body)


def is_diagnostic(st):
    """an expression statement that only reports: warnings.warn(...), logging / logger calls, print(...)"""
    if not (isinstance(st, ast.Expr) and isinstance(st.value, ast.Call)):
        return False
    d = dump(st.value.func)
    return d in ("print", "warnings.warn", "warn") or d.split(".")[0] in ("logging", "logger", "log", "_logger", "LOGGER", "_LOG") \
        or d.startswith(("self.logger.", "self._logger.", "self.log."))


def normalise_nested(fnode, inner_names, outer_names, inner_fn="recurse"):
    """copy of a function whose single nested function is renamed to `inner_fn` with its parameters renamed (positionally) to inner_names, and whose own parameters are
    renamed to outer_names: text comparisons of recursive generators then do not depend on the names the author chose"""
    import copy
    fnode = copy.deepcopy(fnode)
    inner = [x for x in fnode.body if isinstance(x, ast.FunctionDef)]
    if len(inner) != 1 or len(inner[0].args.args) != len(inner_names) or len(fnode.args.args) != len(outer_names):
        return fnode
    old_name = inner[0].name
    ren = {a.arg: nm for a, nm in zip(inner[0].args.args, inner_names)}
    for x in ast.walk(inner[0]):
        if isinstance(x, ast.Name) and x.id in ren:
            x.id = ren[x.id]
        elif isinstance(x, ast.Name) and x.id == old_name:
            x.id = inner_fn
        elif isinstance(x, ast.arg) and x.arg in ren:
            x.arg = ren[x.arg]
    inner[0].name = inner_fn
    oren = {a.arg: nm for a, nm in zip(fnode.args.args, outer_names)}
    for st in fnode.body:
        if st is inner[0]:
            continue
        for x in ast.walk(st):
            if isinstance(x, ast.Name) and x.id in oren:
                x.id = oren[x.id]
            elif isinstance(x, ast.Name) and x.id == old_name:
                x.id = inner_fn
    for a, nm in zip(fnode.args.args, outer_names):
        a.arg = nm
    return fnode


def inline_aliases(fnode):
    """copy of a function in which a local that is bound exactly once, to a plain read (a name, an attribute chain, a subscript by a name / constant, `len(...)` of one),
    is replaced by that read wherever it is read - provided the root of the read is a parameter, `self`, or itself bound once, and nothing in the function stores
    into the root or rebinds it.  Naming a value before passing it on (`rng = self.rng`, `ntaxa = pgmat.ntaxa`, `chosen = sosoln.soln_decn[0]`) does not change what
    is passed; rules use this view as a second reading when the first one reports something."""
    import copy
    fn = copy.deepcopy(fnode)

    def plain(e):
        if isinstance(e, ast.Name):
            return e.id
        if isinstance(e, ast.Attribute):
            return plain(e.value)
        if isinstance(e, ast.Subscript) and isinstance(e.slice, (ast.Constant, ast.Name)):
            return plain(e.value)
        if isinstance(e, ast.Call) and isinstance(e.func, ast.Name) and e.func.id == "len" and len(e.args) == 1 and not e.keywords:
            return plain(e.args[0])
        return None
    params = {a.arg for a in fn.args.args + fn.args.kwonlyargs + fn.args.posonlyargs}
    stores, touched = {}, set()
    for n in ast.walk(fn):
        if isinstance(n, ast.Name) and isinstance(n.ctx, (ast.Store, ast.Del)):
            stores[n.id] = stores.get(n.id, 0) + 1
        elif isinstance(n, (ast.Attribute, ast.Subscript)) and isinstance(n.ctx, (ast.Store, ast.Del)):
            r = plain(n.value)
            if r:
                touched.add(r)
    alias = {}
    for st in ast.walk(fn):
        if isinstance(st, ast.Assign) and len(st.targets) == 1 and isinstance(st.targets[0], ast.Name) and not isinstance(st.value, ast.Constant):
            v, r = st.targets[0].id, plain(st.value)
            if r is None or r == v or v in params or stores.get(v, 0) != 1 or r in touched:
                continue
            if not (r in params or r == "self" or stores.get(r, 0) == 1):
                continue
            if isinstance(st.value, ast.Subscript) and isinstance(st.value.slice, ast.Name) and stores.get(st.value.slice.id, 0) > 1:
                continue
            alias[v] = st.value
    if not alias:
        return None

    class Sub(ast.NodeTransformer):
        def visit_Name(self, n):
            if isinstance(n.ctx, ast.Load) and n.id in alias:
                return ast.copy_location(Sub().visit(copy.deepcopy(alias[n.id])), n)
            return n
    fn.body = [Sub().visit(st) for st in fn.body]
    ast.fix_missing_locations(fn)
    return fn
