"""
Call resolution inside the package (DESIGN.md §2.1).  No type checker is available, so
callees are resolved from: bare names through the import table, `self.m` / `cls.m` through
the MRO of the defining class, `super(C, x).m`, `Class.m`, `module.f`, and -- class-hierarchy
analysis -- `self.<prop>.m` / `<param>.m` when the property getter / parameter carries a
class annotation (all subclasses' overriding `m` are targets).
"""
import ast

from .model import ClassInfo, FuncInfo, External, ModuleRef, super_call_info
from .astutil import walk_no_nested


class CallSite:
    __slots__ = ("call", "targets", "inst", "external", "kind")

    def __init__(self, call, targets=(), inst=None, external=None, kind="unresolved"):
        self.call = call
        self.targets = list(targets)
        self.inst = inst
        self.external = external
        self.kind = kind


def _ann_class(prog, mod, ann):
    """class named by an annotation (Name, 'Name', Optional[Name], Union[Name, None])"""
    if ann is None:
        return []
    if isinstance(ann, ast.Constant) and isinstance(ann.value, str):
        c = prog.resolve_name(mod, ann.value)
        if isinstance(c, ClassInfo):
            return [c]
        c = prog.find_class(ann.value)
        return [c] if c is not None else []
    if isinstance(ann, ast.Name):
        c = prog.resolve_name(mod, ann.id)
        return [c] if isinstance(c, ClassInfo) else []
    if isinstance(ann, ast.Subscript):
        out = []
        s = ann.slice
        elts = s.elts if isinstance(s, ast.Tuple) else [s]
        for e in elts:
            out += _ann_class(prog, mod, e)
        return out
    if isinstance(ann, ast.BinOp) and isinstance(ann.op, ast.BitOr):
        return _ann_class(prog, mod, ann.left) + _ann_class(prog, mod, ann.right)
    return []


_SUBCACHE = {}


def cha_targets(prog, base, mname):
    key = (id(prog), base.qualname, mname)
    if key in _SUBCACHE:
        return _SUBCACHE[key]
    out = []
    seen = set()
    for s in prog.subclasses(base.name):
        try:
            f = prog.lookup_method(s, mname)
        except Exception:
            f = None
        if f is not None and id(f) not in seen:
            seen.add(id(f))
            out.append(f)
    _SUBCACHE[key] = out
    return out


def resolve_call(prog, f, call):
    """Resolve one ast.Call inside FuncInfo f."""
    mod = f.module
    fn = call.func
    sc = super_call_info(call)
    if sc is not None:
        cname, xname, m = sc
        c = None
        if cname is not None:
            r = prog.resolve_name(mod, cname)
            c = r if isinstance(r, ClassInfo) else None
        elif f.cls is not None:
            c = f.cls
        if c is not None and prog.mro(c) is not None:
            t = prog.lookup_method(c, m, after=c)
            if t is not None:
                return CallSite(call, [t], kind="super")
        return CallSite(call, kind="super-unresolved")
    if is_self_class_ctor(call) and f.cls is not None and prog.mro(f.cls) is not None:
        t = prog.lookup_method(f.cls, "__init__")
        return CallSite(call, [t] if t else [], inst=f.cls, kind="constructor")
    if isinstance(fn, ast.Name):
        r = prog.resolve_name(mod, fn.id)
        if isinstance(r, FuncInfo):
            return CallSite(call, [r], kind="function")
        if isinstance(r, ClassInfo):
            t = None
            if prog.mro(r) is not None:
                t = prog.lookup_method(r, "__init__")
            return CallSite(call, [t] if t else [], inst=r, kind="constructor")
        if isinstance(r, External):
            return CallSite(call, external=r.dotted, kind="external")
        return CallSite(call, kind="local-or-builtin")
    if isinstance(fn, ast.Attribute):
        v = fn.value
        # self.m / cls.m
        if isinstance(v, ast.Name) and v.id in ("self", "cls") and f.cls is not None and prog.mro(f.cls) is not None:
            t = prog.lookup_method(f.cls, fn.attr)
            if t is not None:
                return CallSite(call, [t], kind="self")
            # self.__class__(...) handled below
        if (isinstance(v, ast.Attribute) and v.attr == "__class__") or (isinstance(v, ast.Name) and v.id == "cls" and False):
            pass
        r = prog.resolve_expr(mod, fn)
        if isinstance(r, FuncInfo):
            return CallSite(call, [r], kind="qualified")
        if isinstance(r, ClassInfo):
            t = prog.lookup_method(r, "__init__") if prog.mro(r) is not None else None
            return CallSite(call, [t] if t else [], inst=r, kind="constructor")
        if isinstance(r, External):
            return CallSite(call, external=r.dotted, kind="external")
        # annotated receiver: self.<prop>.m() or <param>.m()
        bases = []
        if isinstance(v, ast.Attribute) and isinstance(v.value, ast.Name) and v.value.id == "self" and f.cls is not None \
                and prog.mro(f.cls) is not None:
            pname = v.attr[1:] if v.attr.startswith("_") else v.attr
            p = prog.lookup_prop(f.cls, pname)
            if p is not None and p.getter is not None:
                bases = _ann_class(prog, p.getter.module, p.getter.node.returns)
        elif isinstance(v, ast.Name):
            a = f.node.args
            for arg in a.posonlyargs + a.args + a.kwonlyargs:
                if arg.arg == v.id:
                    bases = _ann_class(prog, mod, arg.annotation)
        if bases:
            ts = []
            for b in bases:
                ts += cha_targets(prog, b, fn.attr)
            if ts:
                return CallSite(call, ts, kind="cha")
        return CallSite(call, kind="unresolved-attr")
    # self.__class__(...) / cls(...)
    return CallSite(call, kind="unresolved")


def is_self_class_ctor(call):
    """`self.__class__(...)` or `cls(...)`"""
    fn = call.func
    if isinstance(fn, ast.Attribute) and fn.attr == "__class__" and isinstance(fn.value, ast.Name) and fn.value.id == "self":
        return True
    if isinstance(fn, ast.Name) and fn.id == "cls":
        return True
    # type(self)(...)
    if isinstance(fn, ast.Call) and isinstance(fn.func, ast.Name) and fn.func.id == "type" and len(fn.args) == 1 and isinstance(fn.args[0], ast.Name) and fn.args[0].id == "self":
        return True
    return False


class CallGraph:
    """Whole-package call graph with per-function resolved call sites."""

    def __init__(self, prog):
        self.prog = prog
        self.funcs = list(prog.all_functions())
        self.sites = {}    # id(FuncInfo) -> list[CallSite]
        self.byq = {}
        self.stats = {"calls": 0, "resolved": 0, "external": 0, "builtin_or_local": 0, "unresolved_method": 0}
        for f in self.funcs:
            self.byq[f.qualname + ("#" + f.kind if f.kind in ("getter", "setter") else "")] = f
            lst = []
            for n in walk_no_nested(f.node):
                if isinstance(n, ast.Call):
                    cs = resolve_call(prog, f, n)
                    lst.append(cs)
                    self.stats["calls"] += 1
                    if cs.targets or cs.inst is not None:
                        self.stats["resolved"] += 1
                    elif cs.external:
                        self.stats["external"] += 1
                    elif cs.kind == "local-or-builtin":
                        self.stats["builtin_or_local"] += 1
                    else:
                        self.stats["unresolved_method"] += 1
            self.sites[id(f)] = lst
        self._name_fallback()

    def _name_fallback(self):
        """
        Unresolved `x.m(...)`: when every in-repo definition of method `m` lives in ONE class hierarchy
        (all defining classes descend from a single in-repo class that also defines `m`), take all of
        them as possible targets (class-hierarchy analysis keyed by method name).
        """
        prog = self.prog
        index = {}
        for f in self.funcs:
            if f.cls is not None and f.kind in ("method", "classmethod", "staticmethod"):
                index.setdefault(f.name, []).append(f)
        roots = {}
        for name, fl in index.items():
            if name.startswith("__") or len(fl) > 40:
                continue
            classes = [f.cls for f in fl if prog.mro(f.cls) is not None]
            if not classes:
                continue
            common = None
            for c in classes:
                anc = [k for k in prog.mro_classes(c) if name in k.methods]
                top = set(id(k) for k in anc)
                common = top if common is None else (common & top)
            if common:
                roots[name] = fl
        n = 0
        for f in self.funcs:
            for cs in self.sites[id(f)]:
                if cs.kind == "unresolved-attr" and isinstance(cs.call.func, ast.Attribute):
                    fl = roots.get(cs.call.func.attr)
                    if fl:
                        cs.targets = list(fl)
                        cs.kind = "name-cha"
                        n += 1
        self.stats["resolved_by_method_name"] = n

    def callsites(self, f):
        return self.sites.get(id(f), [])

    def class_methods(self, c):
        """all in-repo functions of class c through its MRO (methods, getters, setters)"""
        out = []
        if self.prog.mro(c) is None:
            return out
        for k in self.prog.mro_classes(c):
            out.extend(k.methods.values())
            for p in k.own_props.values():
                if p.getter is not None:
                    out.append(p.getter)
                if p.setter is not None:
                    out.append(p.setter)
        return out

    def _has_external_base(self, c):
        m = self.prog.mro(c)
        if m is None:
            return False
        return any(isinstance(b, External) and b.dotted.split(".")[0] not in ("builtins", "object", "abc", "typing")
                   and b.dotted not in ("object", "ABC", "abc.ABC") for b in m)

    def reachable(self, roots, through_instantiation=True):
        """set of id(FuncInfo) reachable from roots; returns dict id -> (FuncInfo, parent FuncInfo|None)"""
        seen = {}
        stack = [(r, None) for r in roots]
        while stack:
            f, par = stack.pop()
            if id(f) in seen:
                continue
            seen[id(f)] = (f, par)
            for cs in self.callsites(f):
                for t in cs.targets:
                    if id(t) not in seen:
                        stack.append((t, f))
                if through_instantiation and cs.inst is not None and self._has_external_base(cs.inst):
                    # callbacks: methods of a class derived from an external library class are invoked by that library
                    for t in self.class_methods(cs.inst):
                        if id(t) not in seen:
                            stack.append((t, f))
        return seen
