"""
Narrow-accumulator rule: genotype storage is int8 (the `mat` setter of the genotype matrices enforces it).  A reduction or
contraction whose element type is still int8 and whose contracted extent is the taxa or variant axis wraps modulo 256.

numpy facts used (trusted base): `a.sum(axis)` / `numpy.sum` promote small integers to the platform integer unless `dtype=` is
given; `numpy.einsum`, `@`, `dot`, `matmul`, `tensordot`, `inner` accumulate in the operands' common dtype; `astype(D)` and the
repo's `tacount(D)` produce dtype D.
"""
import ast

from .astutil import walk_no_nested, dump, kwargs_of, field_of

INT8, SAFE, PARAM, UNKNOWN = "int8", "safe", "param", "unknown"
# numpy.add.reduce / numpy.sum promote small integers to the platform integer (ufunc.reduce: "for add and multiply ... the default platform integer is used"); the
# contraction functions below do not
CONTRACT_FUNCS = {"numpy.einsum", "numpy.dot", "numpy.matmul", "numpy.tensordot", "numpy.inner", "numpy.vdot"}
GENO_PARAM_HINT = ("gmat", "pgmat", "gtobj", "geno", "gtmat")


class DtypeScan:
    def __init__(self, prog, f, K=None):
        self.prog, self.f, self.K = prog, f, K
        self.env = {}       # local name -> dtype class
        self.dt_env = {}    # local name holding a dtype -> dtype class
        self.findings = []
        self.checked = 0

    def geno_obj(self, e):
        """expression denotes a genotype matrix object (self of a genotype class, or a parameter named/annotated as one)"""
        if isinstance(e, ast.Name):
            if e.id == "self" and self.K is not None and self.prog.is_subclass(self.K, "GenotypeMatrix"):
                return True
            if e.id in GENO_PARAM_HINT:
                return True
            a = self.f.node.args
            for arg in a.posonlyargs + a.args + a.kwonlyargs:
                if arg.arg == e.id and arg.annotation is not None and "GenotypeMatrix" in dump(arg.annotation):
                    return True
        return False

    def dtype_of_dtype_expr(self, e):
        if e is None:
            return None
        if isinstance(e, ast.Constant):
            if e.value is None:
                return None
            if isinstance(e.value, str):
                return INT8 if e.value in ("int8", "i1", "uint8", "u1", "b") else SAFE
        if isinstance(e, ast.Name):
            if e.id in ("int", "float"):
                return SAFE
            if e.id in self.dt_env:
                return self.dt_env[e.id]
            if e.id in self.f.params():
                return PARAM
            return UNKNOWN
        if isinstance(e, ast.Attribute):
            if e.attr == "dtype":
                return self.dtype_of(e.value)
            d = self.prog.dotted(self.f.module, e)
            if d in ("numpy.int8", "numpy.uint8", "numpy.byte"):
                return INT8
            if d is not None and d.startswith("numpy."):
                return SAFE
        if isinstance(e, ast.Call) and dump(e.func) in ("numpy.dtype",) and e.args:
            return self.dtype_of_dtype_expr(e.args[0])
        if isinstance(e, ast.IfExp):
            # `X if dtype is None else numpy.dtype(dtype)`: the branch taken for the default argument (None) decides the accumulator of every call that does not ask
            t = e.test
            if isinstance(t, ast.Compare) and len(t.ops) == 1 and isinstance(t.left, ast.Name) and t.left.id in self.f.params() \
                    and isinstance(t.comparators[0], ast.Constant) and t.comparators[0].value is None:
                dflt = e.body if isinstance(t.ops[0], ast.Is) else (e.orelse if isinstance(t.ops[0], ast.IsNot) else None)
                if dflt is not None:
                    return self.dtype_of_dtype_expr(dflt)
            a, b = self.dtype_of_dtype_expr(e.body), self.dtype_of_dtype_expr(e.orelse)
            return INT8 if INT8 in (a, b) else (a if a == b else UNKNOWN)
        return UNKNOWN

    def dtype_of(self, e):
        if isinstance(e, ast.Name):
            return self.env.get(e.id, UNKNOWN)
        if isinstance(e, ast.Attribute):
            if e.attr in ("mat", "_mat") and self.geno_obj(e.value):
                return INT8
            if e.attr == "T":
                return self.dtype_of(e.value)
            return UNKNOWN
        if isinstance(e, ast.Subscript):
            return self.dtype_of(e.value)
        if isinstance(e, ast.UnaryOp):
            return self.dtype_of(e.operand)
        if isinstance(e, ast.BinOp):
            if isinstance(e.op, ast.MatMult):
                return self._common(self.dtype_of(e.left), self.dtype_of(e.right))
            l, r = e.left, e.right
            for a, b in ((l, r), (r, l)):
                if isinstance(b, ast.Constant) and isinstance(b.value, float):
                    return SAFE
            if isinstance(e.op, ast.Div):
                return SAFE
            lt, rt = self.dtype_of(l), self.dtype_of(r)
            if isinstance(r, ast.Constant) and isinstance(r.value, int):
                return lt
            if isinstance(l, ast.Constant) and isinstance(l.value, int):
                return rt
            return self._common(lt, rt)
        if isinstance(e, ast.Call):
            fn = e.func
            kws, _ = kwargs_of(e)
            d = self.prog.dotted(self.f.module, fn)
            if isinstance(fn, ast.Attribute):
                m = fn.attr
                if m == "astype" and e.args:
                    return self.dtype_of_dtype_expr(e.args[0]) or UNKNOWN
                if m == "tacount":
                    dt = e.args[0] if e.args else kws.get("dtype")
                    return (self.dtype_of_dtype_expr(dt) or SAFE) if dt is not None else SAFE
                if m in ("sum", "cumsum", "prod"):
                    dt = kws.get("dtype")
                    if dt is not None:
                        return self.dtype_of_dtype_expr(dt) or SAFE
                    return SAFE
                if m in ("copy", "transpose", "reshape", "ravel", "take"):
                    return self.dtype_of(fn.value)
                if m == "mat_asformat":
                    fmt = e.args[0] if e.args else kws.get("format")
                    if isinstance(fmt, ast.Constant) and isinstance(fmt.value, str):
                        return self._asformat_dtype(fmt.value)
                    return UNKNOWN
                if m == "dot" and e.args:
                    return self._common(self.dtype_of(fn.value), self.dtype_of(e.args[0]))
            if d in ("numpy.int8",):
                return INT8
            if d in ("numpy.float64", "numpy.float32", "numpy.int64", "numpy.int32", "numpy.float_"):
                return SAFE
            if d in CONTRACT_FUNCS:
                ops = [a for a in e.args if not (isinstance(a, ast.Constant) and isinstance(a.value, str))]
                t = None
                for a in ops:
                    t = self.dtype_of(a) if t is None else self._common(t, self.dtype_of(a))
                dt = kws.get("dtype")
                if dt is not None:
                    return self.dtype_of_dtype_expr(dt) or SAFE
                return t or UNKNOWN
            if d in ("numpy.sum",):
                dt = kws.get("dtype")
                return (self.dtype_of_dtype_expr(dt) or SAFE) if dt is not None else SAFE
        return UNKNOWN

    def _asformat_dtype(self, fmt):
        """dtype class of <genotype matrix>.mat_asformat(<fmt>): read from the branch for that format in every genotype-matrix class of the package (int8 when the
        branch accumulates in the storage dtype and every class agrees)"""
        from .astutil import if_chain
        from .model import body_nodoc
        found = []
        for g in self.prog.methods_by_name.get("mat_asformat", []):
            if g.cls is None or not self.prog.is_subclass(g.cls, "GenotypeMatrix") or len(body_nodoc(g.node)) == 0:
                continue
            body = body_nodoc(g.node)
            idx = [k for k, st in enumerate(body) if isinstance(st, ast.If)]
            if not idx:
                continue
            for test, bbody, _n in if_chain(body, idx[0])[0]:
                if isinstance(test, ast.Compare) and len(test.ops) == 1 and isinstance(test.ops[0], ast.Eq) and any(isinstance(x, ast.Constant) and x.value == fmt
                                                                                                                   for x in [test.left] + test.comparators):
                    sub = DtypeScan(self.prog, g, g.cls)
                    sub.env_axis = {}
                    t = UNKNOWN
                    for st in bbody:
                        if isinstance(st, ast.Assign) and len(st.targets) == 1 and isinstance(st.targets[0], ast.Name):
                            sub.env[st.targets[0].id] = sub.dtype_of(st.value)
                        elif isinstance(st, ast.AugAssign) and isinstance(st.target, ast.Name):
                            cur = sub.env.get(st.target.id, UNKNOWN)
                            v = st.value
                            sub.env[st.target.id] = cur if (isinstance(v, ast.Constant) and isinstance(v.value, int)) else self._common(cur, sub.dtype_of(v))
                        elif isinstance(st, ast.Return) and st.value is not None:
                            t = sub.dtype_of(st.value)
                    found.append(t)
        if found and all(t == found[0] for t in found):
            return found[0]
        return UNKNOWN

    @staticmethod
    def _common(a, b):
        if a == INT8 and b == INT8:
            return INT8
        if SAFE in (a, b):
            return SAFE
        if UNKNOWN in (a, b):
            return UNKNOWN
        return a

    def long_axes(self, axis_expr):
        """True if the reduction axes may include the taxa or variant axis (unbounded extent); False if only the phase axis"""
        if axis_expr is None:
            return True
        names = []
        elts = axis_expr.elts if isinstance(axis_expr, ast.Tuple) else [axis_expr]
        for x in elts:
            fld = field_of(x)
            if fld is not None:
                names.append(fld)
            elif isinstance(x, ast.Constant) and isinstance(x.value, int) and self.K is not None:
                pa = self.prog.const_prop(self.K, "phase_axis") if self.prog.has_attr(self.K, "phase_axis") else None
                names.append("phase_axis" if pa is not None and x.value == pa else "axis%d" % x.value)
            elif isinstance(x, ast.Name) and x.id in self.env_axis:
                names.append(self.env_axis[x.id])
            else:
                names.append("?")
        return any(n != "phase_axis" for n in names)

    def run(self):
        self.env_axis = {}
        stmts = [n for n in walk_no_nested(self.f.node) if isinstance(n, ast.Assign) and len(n.targets) == 1 and isinstance(n.targets[0], ast.Name)]
        stmts.sort(key=lambda n: n.lineno)
        for _ in range(2):
            for st in stmts:
                nm = st.targets[0].id
                v = st.value
                if isinstance(v, ast.Attribute) and v.attr == "dtype":
                    self.dt_env[nm] = self.dtype_of(v.value)
                elif isinstance(v, ast.Call) and dump(v.func) == "numpy.dtype" and v.args:
                    self.dt_env[nm] = self.dtype_of_dtype_expr(v.args[0]) or PARAM
                elif isinstance(v, ast.IfExp) and self.dtype_of_dtype_expr(v) not in (UNKNOWN, None):
                    self.dt_env[nm] = self.dtype_of_dtype_expr(v)
                elif field_of(v) in ("taxa_axis", "vrnt_axis", "phase_axis"):
                    self.env_axis[nm] = field_of(v)
                else:
                    self.env[nm] = self.dtype_of(v)
        for n in walk_no_nested(self.f.node):
            if isinstance(n, ast.Call):
                fn = n.func
                kws, _ = kwargs_of(n)
                d = self.prog.dotted(self.f.module, fn)
                if isinstance(fn, ast.Attribute) and fn.attr in ("sum", "cumsum") and d is None:
                    base_t = self.dtype_of(fn.value)
                    if base_t == INT8 or base_t == UNKNOWN and False:
                        self.checked += 1
                        dt = kws.get("dtype")
                        axis = n.args[0] if n.args else kws.get("axis")
                        if dt is not None and self.dtype_of_dtype_expr(dt) == INT8 and self.long_axes(axis):
                            self.findings.append((n, "allele counts are accumulated over the taxa/variant axis in the storage dtype int8 (%s): the count wraps modulo 256 "
                                                     "once more than 127 copies carry the allele" % dump(n)[:70]))
                elif d in CONTRACT_FUNCS or (isinstance(fn, ast.Attribute) and fn.attr == "dot" and d is None):
                    ops = list(n.args) + ([fn.value] if isinstance(fn, ast.Attribute) and fn.attr == "dot" and d is None else [])
                    ops = [a for a in ops if not (isinstance(a, ast.Constant) and isinstance(a.value, str))]
                    ts = [self.dtype_of(a) for a in ops]
                    if any(t == INT8 for t in ts):
                        self.checked += 1
                        dt = kws.get("dtype")
                        if all(t == INT8 for t in ts) and (dt is None or self.dtype_of_dtype_expr(dt) == INT8):
                            self.findings.append((n, "%s contracts int8 genotype data in int8 (no promotion): sums wrap modulo 256" % dump(n)[:70]))
            elif isinstance(n, ast.BinOp) and isinstance(n.op, ast.MatMult):
                ts = [self.dtype_of(n.left), self.dtype_of(n.right)]
                if INT8 in ts:
                    self.checked += 1
                    if ts == [INT8, INT8]:
                        self.findings.append((n, "%s multiplies int8 matrices in int8 (no promotion): inner products wrap modulo 256" % dump(n)[:70]))
        return self
