"""
Verdict bookkeeping, evidence JSON and the VIOLATION / KNOWN-FINDING / ANALYSIS-ERROR
output lines.  Three-valued and fail-closed (DESIGN.md §0):

  DISCHARGED    the structural fact was established on the current source
  VIOLATED      a definite structural counter-witness (classified difference / explicit gap)
  UNRECOGNISED  anchor vanished / idiom not modelled / instance count below floor -> exit 2
"""
import hashlib
import json
import os
import re
import sys
import time

VERIF = os.path.dirname(os.path.dirname(os.path.abspath(__file__)))
EVID_DIR = os.environ.get("VERIF_EVID_DIR") or os.path.join(VERIF, "evidence")
VIOL_DIR = os.path.join(EVID_DIR, "violations")
KNOWN = os.path.join(VERIF, "known_findings.json")


def _norm(s):
    return re.sub(r"\s+", " ", str(s)).strip()


class Report:
    def __init__(self, prop_id, tier="quick", seed=0):
        self.prop = prop_id
        self.tier = tier
        self.seed = seed
        self.t0 = time.time()
        self.discharged = []   # (rule, construct, detail)
        self.violations = []   # dict
        self.unrecognised = []  # (rule, construct, why)
        self.infos = []
        self.rule_counts = {}  # rule -> [count, floor]
        self.samples = []
        self.functions = set()
        self.call_sites = 0
        self.assumptions = []
        self.explanation = ""
        self.not_decided = []
        self.trusted = ["CPython ast module", "idiom tables in /verif/sa (numpy view/copy, reductions, draw API)",
                        "reference tables in /verif/rules"]
        self.extra = {}
        self.signatures = set()
        self._okset = set()
        self.only_rules = None   # when set: verdicts of other rules are ignored (rule sets shared between properties)

    def _skip(self, rule):
        return self.only_rules is not None and rule not in self.only_rules and rule not in ("engine", "parse")

    # ------------------------------------------------------------------ verdicts
    def ok(self, rule, construct, detail="", sample=None, sig=None):
        if self._skip(rule):
            return
        key = (rule, construct, _norm(detail))
        if key in self._okset:
            return
        self._okset.add(key)
        self.discharged.append(key)
        self._count(rule)
        if sig is not None:
            self.signatures.add(_norm(sig))
        elif detail:
            self.signatures.add(_norm(rule + "|" + detail))
        if sample is not None and len(self.samples) < 40:
            self.samples.append(sample)
        elif sample is None and len(self.samples) < 12 and detail:
            self.samples.append({"rule": rule, "construct": construct, "fact": _norm(detail)[:300]})

    def violate(self, rule, construct, detail, where=None, expected=None, found=None):
        """construct: qualified name; detail: normalised (no line numbers)."""
        if self._skip(rule):
            return
        self._count(rule)
        self.violations.append({
            "property": self.prop, "rule": rule, "construct": construct,
            "detail": _norm(detail), "where": where,
            "expected": _norm(expected) if expected is not None else None,
            "found": _norm(found) if found is not None else None,
        })

    def unrec(self, rule, construct, why):
        if self._skip(rule):
            return
        self._count(rule)
        self.unrecognised.append((rule, construct, _norm(why)))

    def info(self, rule, construct, text):
        if self._skip(rule):
            return
        self.infos.append((rule, construct, _norm(text)))

    def _count(self, rule):
        self.rule_counts.setdefault(rule, [0, 0])[0] += 1

    def floor(self, rule, n):
        """Declare the minimum instance count of a rule (guards against a rule going blind)."""
        self.rule_counts.setdefault(rule, [0, 0])[1] = n

    def saw(self, func):
        """Record a function as analysed (FuncInfo or qualname)."""
        self.functions.add(getattr(func, "qualname", func))

    # ------------------------------------------------------------------ finish
    def finish(self, replay_key=None):
        known, fixed = load_known()
        thorough_only = load_known.thorough_only
        out = []
        exit_code = 0
        # floors
        for rule, (cnt, flo) in sorted(self.rule_counts.items()):
            if cnt < flo:
                self.unrecognised.append((rule, "<rule>", "instance count %d below floor %d" % (cnt, flo)))
        new_viol = []
        known_hits = []
        seen_keys = set()
        for v in self.violations:
            key = (v["property"], v["rule"], v["construct"], v["detail"])
            if key in seen_keys:
                continue
            seen_keys.add(key)
            if key in known:
                known_hits.append(v)
            else:
                new_viol.append(v)
        os.makedirs(os.path.join(VERIF, "evidence", "violations"), exist_ok=True)
        for v in known_hits:
            out.append("KNOWN-FINDING: property=%s %s %s: %s" % (self.prop, v["rule"], v["construct"], v["detail"]))
        for v in new_viol:
            h = hashlib.sha1(("|".join([v["property"], v["rule"], v["construct"], v["detail"]])).encode()).hexdigest()[:10]
            safe = re.sub(r"[^A-Za-z0-9_.-]+", "_", v["construct"].split(":")[-1])[:60]
            rp = os.path.join("evidence", "violations", "%s-%s-%s-%s.json" % (self.prop, v["rule"], safe, h))
            with open(os.path.join(VERIF, rp), "w") as f:
                json.dump(v, f, indent=1, sort_keys=True)
            out.append("VIOLATION property=%s replay=%s" % (self.prop, rp))
            out.append("  %s %s %s: %s%s%s" % (
                v.get("where") or "", v["rule"], v["construct"], v["detail"],
                (" | expected: %s" % v["expected"]) if v.get("expected") else "",
                (" | found: %s" % v["found"]) if v.get("found") else ""))
        # stale known findings (informational)
        reported = seen_keys
        for key in sorted(known):
            if key[0] == self.prop and key not in reported and not (self.tier == "quick" and key in thorough_only):
                out.append("STALE-FINDING: property=%s %s %s: %s (listed in known_findings.json, no longer reported)"
                           % (self.prop, key[1], key[2], key[3]))
        for (rule, construct, why) in self.unrecognised:
            out.append("ANALYSIS-ERROR property=%s %s %s: %s" % (self.prop, rule, construct, why))
        if self.tier == "thorough" or os.environ.get("VERIF_INFO"):
            for (rule, construct, text) in self.infos:
                out.append("INFO property=%s %s %s: %s" % (self.prop, rule, construct, text))
        if self.unrecognised:
            exit_code = 2
        if new_viol:
            exit_code = 1
        if replay_key is not None:
            hit = [v for v in self.violations
                   if (v["property"], v["rule"], v["construct"], v["detail"]) == replay_key]
            if hit:
                out.append("REPLAY: still violated: %s %s: %s" % (hit[0]["rule"], hit[0]["construct"], hit[0]["detail"]))
                exit_code = 1
            else:
                out.append("REPLAY: construct no longer reported")
                exit_code = 0 if not self.unrecognised else 2
        n_obl = len(self.discharged) + len(seen_keys) + len(self.unrecognised)
        summary = ("%s %s: obligations=%d discharged=%d violated=%d (known=%d) unrecognised=%d functions=%d wall=%.2fs"
                   % (self.prop, self.tier, n_obl, len(self.discharged), len(seen_keys), len(known_hits),
                      len(self.unrecognised), len(self.functions), time.time() - self.t0))
        out.append(summary)
        for rule, (cnt, flo) in sorted(self.rule_counts.items()):
            out.append("  rule %-28s instances=%-5d floor=%d" % (rule, cnt, flo))
        if replay_key is None:
            self._write_evidence(n_obl, seen_keys, known_hits, new_viol)
        sys.stdout.write("\n".join(out) + "\n")
        sys.stdout.flush()
        return exit_code

    def _write_evidence(self, n_obl, seen_keys, known_hits, new_viol):
        os.makedirs(EVID_DIR, exist_ok=True)
        cov = {
            "explanation": self.explanation or "static rule set over the current source of /repo (see DESIGN.md)",
            "obligations": n_obl,
            "discharged": len(self.discharged),
            "violated": len(seen_keys),
            "known_findings_reported": len(known_hits),
            "unrecognised": len(self.unrecognised),
            "evaluations": max(n_obl, 1),
            "distinct_nontrivial": len(self.signatures),
            "rule": "one evaluation = one rule instance (a construct of /repo the rule was instantiated on); "
                    "distinct_nontrivial = number of distinct normalised facts/signatures established "
                    "(a fact is non-trivial when it names at least one operand, field or callee)",
            "functions_analysed": len(self.functions),
            "call_sites": self.call_sites,
            "rules": {r: {"instances": c, "floor": f} for r, (c, f) in sorted(self.rule_counts.items())},
            "samples": self.samples[:40] if self.samples else [{"note": "no instance"}],
            "exhaustive": True,
            "trusted_base": self.trusted,
            "checker_cmd": "./check %s --tier %s" % (self.prop, self.tier),
            "not_decided": self.not_decided,
        }
        cov.update(self.extra)
        ev = {
            "property_id": self.prop,
            "tier": self.tier,
            "seed": self.seed,
            "level": "other",
            "coverage": cov,
            "assumptions": self.assumptions + ["clauses listed under not_decided are NOT decided by this check"],
            "wall_s": round(time.time() - self.t0, 3),
            "violations": len(new_viol),
        }
        with open(os.path.join(EVID_DIR, "%s.json" % self.prop), "w") as f:
            json.dump(ev, f, indent=1, sort_keys=True)


class RuleProxy:
    """
    View of a Report for running a rule set shared with another property: only the rules in `rename` are forwarded (under their new name),
    optionally only the violations whose detail satisfies `keep`.  A construct already reported VIOLATED under the new name is not also
    reported UNRECOGNISED by the shared rule.
    """

    def __init__(self, rep, rename, keep=None, forward_ok=True):
        self._rep, self._rename, self._keep, self._fok = rep, rename, keep, forward_ok
        self.n_ok = 0

    def __getattr__(self, k):
        return getattr(self._rep, k)

    def ok(self, rule, construct, detail="", **k):
        if rule in self._rename:
            self.n_ok += 1
            if self._fok:
                return self._rep.ok(self._rename[rule], construct, detail, **k)

    def violate(self, rule, construct, detail, *a, **k):
        if rule in self._rename and (self._keep is None or self._keep(detail)):
            return self._rep.violate(self._rename[rule], construct, detail, *a, **k)

    def unrec(self, rule, construct, why):
        if rule in self._rename:
            new = self._rename[rule]
            if any(v["rule"] == new and v["construct"] == construct for v in self._rep.violations):
                return
            return self._rep.unrec(new, construct, why)

    def floor(self, rule, n):
        pass

    def info(self, *a, **k):
        pass


def load_known():
    """known_findings.json -> (set of keys, list of fixed strings). Never written at run time."""
    if not os.path.exists(KNOWN):
        return set(), []
    with open(KNOWN) as f:
        d = json.load(f)
    keys = set()
    load_known.thorough_only = set()
    for e in d.get("findings", []):
        k = (e["property"], e["rule"], e["construct"], _norm(e["detail"]))
        keys.add(k)
        if e.get("tier") == "thorough":
            load_known.thorough_only.add(k)
    return keys, d.get("fixed", [])


load_known.thorough_only = set()


class Buffer:
    """holds back the verdicts of one rule run so that the run can be repeated on a second reading of the same functions (astutil.inline_aliases) before anything is
    reported: everything else (extra, saw, floors) goes straight to the report"""

    def __init__(self, rep):
        self._rep, self._calls, self.nviol, self.nunrec = rep, [], 0, 0

    def __getattr__(self, k):
        return getattr(self._rep, k)

    def ok(self, *a, **k):
        self._calls.append(("ok", a, k))

    def violate(self, *a, **k):
        self.nviol += 1
        self._calls.append(("violate", a, k))

    def unrec(self, *a, **k):
        self.nunrec += 1
        self._calls.append(("unrec", a, k))

    def replay(self):
        for kind, a, k in self._calls:
            getattr(self._rep, kind)(*a, **k)


def second_reading(rep, funcs, run):
    """run(rep_like) once; if it reports anything, run it again with the nodes of `funcs` replaced by their alias-inlined view and keep the second outcome when it is
    clean - a local that merely names a plain read is not a reason for a report.  The first outcome is kept in every other case."""
    from sa.astutil import inline_aliases
    b1 = Buffer(rep)
    run(b1)
    if not (b1.nviol or b1.nunrec):
        b1.replay()
        return
    saved = []
    for f in funcs:
        v = inline_aliases(f.node)
        if v is not None:
            saved.append((f, f.node))
            f.node = v
    if not saved:
        b1.replay()
        return
    b2 = Buffer(rep)
    try:
        run(b2)
    except Exception:
        b2.nunrec += 1
    finally:
        for f, node in saved:
            f.node = node
    (b1 if (b2.nviol or b2.nunrec) else b2).replay()
