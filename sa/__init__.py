"""Static-analysis engine for the pybrops property checks (stdlib `ast` only)."""
