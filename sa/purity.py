"""
In-place update analysis: which storage can a function write through?

A forward, flow-sensitive may-alias walk over one function body.  Every local name carries a set of ROOTS it may share storage with:

    ("param", p)            the caller's object bound to parameter p
    ("attr", X)             the receiver's own attribute self.X (also reached through a method that returns it by reference)
    ("pattr", "p.X")        an attribute of a parameter object

Values that are fresh storage (arithmetic results, .copy(), numpy.array(...), fancy / boolean indexing, unknown calls) carry no root.  Views keep the
roots of what they view: basic slices, .T, .reshape / .ravel / .view / .squeeze / .transpose, numpy.asarray / asanyarray / ascontiguousarray /
atleast_nd / reshape / ravel / squeeze / transpose (asarray does not copy an array that already has the requested dtype).

EVENTS are the statements that write through a name with roots:  x[...] = v,  x[...] op= v,  x op= v (in place for arrays),  x.sort() / fill / put /
partition / resize / itemset,  numpy.copyto / put / place / putmask / fill_diagonal(x, ...),  <rng>.shuffle(x),  f(..., out=x).

Return summaries (which roots a method's result may share storage with) are computed by the same walk and are context sensitive in the parameters.
Nothing is executed.
"""
import ast

from .astutil import dump

VIEW_FUNCS = {"numpy.asarray", "numpy.asanyarray", "numpy.ascontiguousarray", "numpy.asfortranarray", "numpy.atleast_1d", "numpy.atleast_2d", "numpy.atleast_3d",
              "numpy.ravel", "numpy.reshape", "numpy.squeeze", "numpy.transpose", "numpy.swapaxes", "numpy.moveaxis", "numpy.expand_dims", "numpy.broadcast_to",
              "numpy.diagonal", "numpy.real", "numpy.imag", "numpy.flipud", "numpy.fliplr", "numpy.flip", "numpy.rollaxis"}
VIEW_METHODS = {"view", "reshape", "ravel", "squeeze", "transpose", "swapaxes", "diagonal"}
VIEW_ATTRS = {"T", "real", "imag", "flat", "mT"}
INPLACE_METHODS = {"sort", "fill", "put", "itemset", "resize", "partition", "setfield", "setflags"}
INPLACE_FUNCS = {"numpy.copyto", "numpy.put", "numpy.place", "numpy.putmask", "numpy.fill_diagonal", "numpy.put_along_axis", "random.shuffle", "numpy.random.shuffle"}


class Event:
    def __init__(self, node, roots, what, name):
        self.node, self.roots, self.what, self.name = node, roots, what, name

    def __repr__(self):
        return "<Event %s %s>" % (self.what, sorted(self.roots))


class Purity:
    def __init__(self, prog, f, summaries=None, depth=0):
        self.prog, self.f = prog, f
        self.summaries = summaries if summaries is not None else {}
        self.depth = depth
        self.events = []
        self.ret = set()
        self._seen_events = set()
        a = f.node.args
        params = [x.arg for x in a.posonlyargs + a.args + a.kwonlyargs]
        env = {}
        recv = params[0] if params and params[0] in ("self", "cls") and f.cls is not None else None
        self.recv = recv
        for p in params:
            if p != recv:
                env[p] = frozenset([("param", p)])
        from .model import body_nodoc
        self.walk(body_nodoc(f.node), env)

    # ------------------------------------------------------------------ aliases
    def alias(self, e, env):
        if isinstance(e, ast.Name):
            return env.get(e.id, frozenset())
        if isinstance(e, ast.Attribute):
            if isinstance(e.value, ast.Name) and e.value.id == self.recv:
                return frozenset([("attr", e.attr)])
            if e.attr in VIEW_ATTRS:
                return self.alias(e.value, env)
            if isinstance(e.value, ast.Name) and any(r[0] == "param" for r in env.get(e.value.id, ())):
                return frozenset([("pattr", "%s.%s" % (e.value.id, e.attr))])
            return frozenset()
        if isinstance(e, ast.Subscript):
            sl = e.slice
            elts = sl.elts if isinstance(sl, ast.Tuple) else [sl]
            basic = all(isinstance(x, ast.Slice) or (isinstance(x, ast.Constant) and (isinstance(x.value, int) or x.value is None or x.value is Ellipsis)) or isinstance(x, ast.Name)
                        for x in elts)
            has_slice = any(isinstance(x, ast.Slice) for x in elts)
            only_consts = all(not isinstance(x, ast.Name) for x in elts)
            # x[a:b], x[:, i], x[0] are views; x[mask] / x[idx] with a bare name is taken as fancy indexing (a copy)
            if basic and (only_consts or has_slice):
                return self.alias(e.value, env)
            return frozenset()
        if isinstance(e, ast.IfExp):
            return self.alias(e.body, env) | self.alias(e.orelse, env)
        if isinstance(e, ast.BoolOp):
            out = frozenset()
            for v in e.values:
                out |= self.alias(v, env)
            return out
        if isinstance(e, ast.NamedExpr):
            return self.alias(e.value, env)
        if isinstance(e, ast.Call):
            fn = e.func
            d = self.prog.dotted(self.f.module, fn)
            if d in VIEW_FUNCS and e.args:
                return self.alias(e.args[0], env)
            if isinstance(fn, ast.Attribute):
                if fn.attr in VIEW_METHODS:
                    return self.alias(fn.value, env)
                if isinstance(fn.value, ast.Name) and fn.value.id == self.recv and self.f.cls is not None and self.depth < 3:
                    return self.call_summary(fn.attr, e, env)
            return frozenset()
        return frozenset()

    def call_summary(self, mname, call, env):
        K = getattr(self, "K", None) or self.f.cls
        g = self.prog.lookup_method(K, mname)
        if g is None or not hasattr(g, "node"):
            return frozenset()
        key = (K.qualname, mname)
        if key not in self.summaries:
            self.summaries[key] = None      # recursion guard
            try:
                sub = Purity(self.prog, g, self.summaries, self.depth + 1)
                self.summaries[key] = frozenset(sub.ret)
            except RecursionError:
                self.summaries[key] = frozenset()
        s = self.summaries[key]
        if not s:
            return frozenset()
        out = set()
        try:
            bound, _callee = self.prog.bound_args(self.f, call)
            bound = bound or {}
        except Exception:
            bound = {}
        for r in s:
            if r[0] == "attr":
                out.add(("attr", r[1], mname))
            elif r[0] == "param" and r[1] in bound and isinstance(bound[r[1]], ast.AST):
                out |= set(self.alias(bound[r[1]], env))
        return frozenset(out)

    # ------------------------------------------------------------------ events
    def event(self, node, roots, what, name):
        if roots:
            k = (id(node), what)
            if k not in self._seen_events:
                self._seen_events.add(k)
                self.events.append(Event(node, frozenset(roots), what, name))

    def scan_calls(self, e, env):
        for c in ast.walk(e):
            if not isinstance(c, ast.Call):
                continue
            for k in c.keywords:
                if k.arg == "out" and not (isinstance(k.value, ast.Constant) and k.value.value is None):
                    tg = k.value
                    for t in (tg.elts if isinstance(tg, ast.Tuple) else [tg]):
                        self.event(c, self.alias(_base(t), env), "%s(..., out=%s)" % (dump(c.func), dump(t)), dump(_base(t)))
            fn = c.func
            d = self.prog.dotted(self.f.module, fn)
            if d in INPLACE_FUNCS and c.args:
                self.event(c, self.alias(_base(c.args[0]), env), "%s(%s, ...)" % (d, dump(c.args[0])), dump(_base(c.args[0])))
            elif isinstance(fn, ast.Attribute) and fn.attr == "shuffle" and c.args:
                self.event(c, self.alias(_base(c.args[0]), env), "%s(%s)" % (dump(fn), dump(c.args[0])), dump(_base(c.args[0])))
            elif isinstance(fn, ast.Attribute) and fn.attr in INPLACE_METHODS and not isinstance(fn.value, ast.Call):
                # list.sort() on a fresh local has no roots and is not reported
                self.event(c, self.alias(_base(fn.value), env), "%s.%s()" % (dump(fn.value), fn.attr), dump(_base(fn.value)))

    # ------------------------------------------------------------------ walk
    def walk(self, stmts, env):
        """returns the environment after the statements, or None when they cannot fall through"""
        for st in stmts:
            if env is None:
                return None
            env = self.stmt(st, env)
        return env

    def stmt(self, st, env):
        if isinstance(st, (ast.FunctionDef, ast.AsyncFunctionDef, ast.ClassDef, ast.Import, ast.ImportFrom, ast.Pass, ast.Global, ast.Nonlocal)):
            return env
        if isinstance(st, ast.Return):
            if st.value is not None:
                self.scan_calls(st.value, env)
                vals = st.value.elts if isinstance(st.value, ast.Tuple) else [st.value]
                for v in vals:
                    self.ret |= set(self.alias(v, env))
            return None
        if isinstance(st, ast.Raise):
            return None
        if isinstance(st, (ast.Continue, ast.Break)):
            return None
        if isinstance(st, ast.Expr):
            self.scan_calls(st.value, env)
            return env
        if isinstance(st, ast.Assign):
            self.scan_calls(st.value, env)
            val = self.alias(st.value, env)
            env = dict(env)
            for t in st.targets:
                if isinstance(t, ast.Name):
                    env[t.id] = val
                elif isinstance(t, (ast.Tuple, ast.List)):
                    srcs = st.value.elts if isinstance(st.value, (ast.Tuple, ast.List)) and len(st.value.elts) == len(t.elts) else None
                    for i, x in enumerate(t.elts):
                        if isinstance(x, ast.Name):
                            env[x.id] = self.alias(srcs[i], env) if srcs else frozenset()
                        elif isinstance(x, ast.Subscript):
                            self.event(st, self.alias(_base(x), env), dump(st)[:60], dump(_base(x)))
                elif isinstance(t, ast.Subscript):
                    self.event(st, self.alias(_base(t), env), dump(st)[:60], dump(_base(t)))
                    self.scan_calls(t, env)
            return env
        if isinstance(st, ast.AnnAssign):
            if st.value is not None and isinstance(st.target, ast.Name):
                env = dict(env)
                env[st.target.id] = self.alias(st.value, env)
            return env
        if isinstance(st, ast.AugAssign):
            self.scan_calls(st.value, env)
            t = st.target
            if isinstance(t, ast.Name):
                self.event(st, env.get(t.id, frozenset()), dump(st)[:60], t.id)
            elif isinstance(t, ast.Subscript):
                self.event(st, self.alias(_base(t), env), dump(st)[:60], dump(_base(t)))
            return env
        if isinstance(st, ast.If):
            self.scan_calls(st.test, env)
            e1 = self.walk(st.body, dict(env))
            e2 = self.walk(st.orelse, dict(env))
            return _merge(e1, e2)
        if isinstance(st, (ast.For, ast.AsyncFor)):
            self.scan_calls(st.iter, env)
            cur = dict(env)
            for _ in range(2):
                body_env = dict(cur)
                it = self.alias(st.iter, cur)
                if isinstance(st.iter, ast.Call) and dump(st.iter.func) in ("enumerate", "zip", "reversed"):
                    it = frozenset()
                for x in ast.walk(st.target):
                    if isinstance(x, ast.Name):
                        body_env[x.id] = it if isinstance(st.target, ast.Name) else frozenset()
                out = self.walk(st.body, body_env)
                cur = _merge(cur, out) or cur
            e2 = self.walk(st.orelse, dict(cur)) if st.orelse else cur
            return e2 if e2 is not None else cur
        if isinstance(st, ast.While):
            self.scan_calls(st.test, env)
            cur = dict(env)
            for _ in range(2):
                out = self.walk(st.body, dict(cur))
                cur = _merge(cur, out) or cur
            return cur
        if isinstance(st, (ast.With, ast.AsyncWith)):
            for it in st.items:
                self.scan_calls(it.context_expr, env)
            return self.walk(st.body, dict(env))
        if isinstance(st, ast.Try):
            e1 = self.walk(st.body, dict(env))
            outs = [e1]
            for h in st.handlers:
                outs.append(self.walk(h.body, dict(_merge(env, e1) or env)))
            cur = None
            for o in outs:
                cur = _merge(cur, o) if cur is not None else o
            if st.orelse and cur is not None:
                cur = self.walk(st.orelse, dict(cur))
            if st.finalbody:
                cur = self.walk(st.finalbody, dict(cur if cur is not None else env))
            return cur
        if isinstance(st, (ast.Assert, ast.Delete)):
            return env
        for sub in ast.iter_child_nodes(st):
            if isinstance(sub, ast.expr):
                self.scan_calls(sub, env)
        return env


def _base(t):
    while isinstance(t, (ast.Subscript, ast.Starred)):
        t = t.value
    return t


def _merge(a, b):
    if a is None:
        return b
    if b is None:
        return a
    out = dict(a)
    for k, v in b.items():
        out[k] = out.get(k, frozenset()) | v
    for k in a:
        if k not in b:
            out[k] = a[k]
    return out


def root_text(r):
    if r[0] == "param":
        return "the caller's argument %s" % r[1]
    if r[0] == "attr":
        return "self.%s%s" % (r[1], " (returned by reference from %s())" % r[2] if len(r) > 2 else "")
    if r[0] == "pattr":
        return "the caller's %s" % r[1]
    return str(r)


def may_be_array(f, p):
    """evidence that parameter p can be an array: its annotation mentions ndarray / ArrayLike, or the body subscripts it / reads .shape / len()"""
    a = f.node.args
    for x in a.posonlyargs + a.args + a.kwonlyargs:
        if x.arg == p and x.annotation is not None and any(t in dump(x.annotation) for t in ("ndarray", "ArrayLike", "NDArray")):
            return True
    for n in ast.walk(f.node):
        if isinstance(n, ast.Subscript) and isinstance(n.value, ast.Name) and n.value.id == p:
            return True
        if isinstance(n, ast.Attribute) and isinstance(n.value, ast.Name) and n.value.id == p and n.attr in ("shape", "dtype", "ndim", "size"):
            return True
    return False
