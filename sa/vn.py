"""
Value numbering with an algebraic normal form (DESIGN.md §2.3).

Expressions are normalised to polynomials with rational coefficients over opaque ATOMS; an atom is a variable,
an attribute, or a canonical operator application whose arguments are themselves normalised.  Two expressions built
from + - * / **int over the same atoms have equal normal forms iff they are equal as rational functions, which is what
licenses a "different" verdict for coefficient / sign / missing-term differences.

Only numeric literals move through linear operators (dot, sum, index, transpose): that is valid for any shapes.
"""
import ast
from fractions import Fraction

from .astutil import dump, kwargs_of, strip_us, is_guard, is_diagnostic
from .model import AnalysisError


class VNUnknown(AnalysisError):
    pass


def _key(x):
    return repr(x)


class Poly:
    """sum of monomials; monomial = tuple of (atom, int exponent) sorted by repr; coefficient Fraction"""
    __slots__ = ("terms", "_k")

    def __init__(self, terms=None):
        self.terms = {m: c for m, c in (terms or {}).items() if c != 0}
        self._k = None

    # constructors
    @staticmethod
    def const(c):
        return Poly({(): Fraction(c)})

    @staticmethod
    def atom(a):
        return Poly({((a, 1),): Fraction(1)})

    def key(self):
        if self._k is None:
            self._k = tuple(sorted(((m, (c.numerator, c.denominator)) for m, c in self.terms.items()), key=_key))
        return self._k

    def __eq__(self, o):
        return isinstance(o, Poly) and self.key() == o.key()

    def __hash__(self):
        return hash(self.key())

    def __repr__(self):
        return "Poly%s" % (self.key(),)

    def is_const(self):
        return all(m == () for m in self.terms)

    def const_value(self):
        if not self.terms:
            return Fraction(0)
        if self.is_const():
            return self.terms[()]
        return None

    def is_zero(self):
        return not self.terms

    def __add__(self, o):
        t = dict(self.terms)
        for m, c in o.terms.items():
            t[m] = t.get(m, 0) + c
        return Poly(t)

    def __neg__(self):
        return Poly({m: -c for m, c in self.terms.items()})

    def __sub__(self, o):
        return self + (-o)

    def __mul__(self, o):
        t = {}
        for m1, c1 in self.terms.items():
            for m2, c2 in o.terms.items():
                m = _mono_mul(m1, m2)
                t[m] = t.get(m, 0) + c1 * c2
        return Poly(t)

    def scale(self, c):
        return Poly({m: k * Fraction(c) for m, k in self.terms.items()})

    def pow(self, n):
        if n == 0:
            return Poly.const(1)
        if n > 0:
            r = Poly.const(1)
            for _ in range(n):
                r = r * self
            return r
        # negative power
        if len(self.terms) == 1:
            (m, c), = self.terms.items()
            return Poly({tuple((a, -e * (-n)) for a, e in m): Fraction(1) / (c ** (-n))})
        if not self.terms:
            raise VNUnknown("division by zero polynomial")
        # normalise sign / content so that a/(b-c) and -a/(c-b) meet
        lead = sorted(self.terms.items(), key=_key)[0][1]
        norm = self.scale(Fraction(1) / lead)
        return Poly({((("inv", norm.key()), -n),): Fraction(1) / (lead ** (-n))})

    def split_const(self):
        """(numeric content, primitive part) when the polynomial is a single monomial"""
        if len(self.terms) == 1:
            (m, c), = self.terms.items()
            return c, Poly({m: Fraction(1)})
        return Fraction(1), self

    def atoms(self):
        out = set()
        for m in self.terms:
            for a, e in m:
                out.add(a)
        return out

    def var_names(self):
        """names of all free variables mentioned anywhere in the value (walks nested keys)"""
        out = set()

        def walk(k):
            if isinstance(k, tuple):
                if len(k) == 2 and k[0] == "var" and isinstance(k[1], str):
                    out.add(k[1])
                    return
                for x in k:
                    walk(x)
        for m in self.terms:
            walk(m)
        return out

    def show(self):
        if not self.terms:
            return "0"
        parts = []
        for m, c in sorted(self.terms.items(), key=_key):
            f = "*".join((_show_atom(a) + ("^%d" % e if e != 1 else "")) for a, e in m)
            cs = str(c)
            if f:
                parts.append((cs + "*" if c != 1 else "") + f if c != -1 else "-" + f)
            else:
                parts.append(cs)
        return " + ".join(parts)


def _show_atom(a):
    if isinstance(a, tuple):
        if a[0] == "var":
            return a[1]
        if a[0] == "attr":
            return "self." + a[1]
        if a[0] == "inv":
            return "(" + Poly({m: Fraction(*c) for m, c in a[1]}).show() + ")"
        if a[0] == "fn":
            return "%s(%s)" % (a[1], ", ".join(_show_arg(x) for x in a[2:]))
        return "%s(%s)" % (a[0], ", ".join(_show_arg(x) for x in a[1:]))
    return str(a)


def _show_arg(x):
    if isinstance(x, tuple) and x and isinstance(x[0], tuple):
        try:
            return Poly({m: Fraction(*c) for m, c in x}).show()
        except Exception:
            return str(x)
    return str(x)


def _mono_mul(m1, m2):
    d = {}
    for a, e in m1 + m2:
        d[a] = d.get(a, 0) + e
    # inv(p)^-k * ... keep; cancel x^0
    items = [(a, e) for a, e in d.items() if e != 0]
    # inv atoms with negative exponent mean multiplication by the polynomial itself: leave symbolic
    return tuple(sorted(items, key=_key))


INF = ("var", "+inf")
INVERSE = {("log", "exp"), ("exp", "log"), ("arctanh", "tanh"), ("tanh", "arctanh")}
AT_ZERO = {"exp": 1, "log1p": 0, "tanh": 0, "arctanh": 0, "sin": 0, "sqrt": 0, "abs": 0, "expm1": 0}
AT_ONE = {"log": 0, "sqrt": 1}
NUMPY_UNARY = {"exp", "log", "tanh", "arctanh", "sqrt", "abs", "absolute", "square", "log1p", "expm1", "negative", "isnan", "sign"}
REDUCERS = {"sum", "mean", "var", "std", "max", "min", "amax", "amin", "nansum", "nanmean", "nanstd", "nanvar", "nanmax", "nanmin",
            "prod", "all", "any", "argmax", "argmin", "ptp", "nanargmax", "nanargmin", "cumsum"}
CANON = {"absolute": "abs", "amax": "max", "amin": "min"}


def fn_apply(name, arg):
    """canonical application of a unary function with the identities of table B.6"""
    name = CANON.get(name, name)
    if name == "negative":
        return -arg
    if name == "square":
        return arg * arg
    c = arg.const_value()
    if c is not None:
        if c == 0 and name in AT_ZERO:
            return Poly.const(AT_ZERO[name])
        if c == 1 and name in AT_ONE:
            return Poly.const(AT_ONE[name])
    # limits at +/- infinity: argument = c * INF
    if len(arg.terms) == 1:
        (m, co), = arg.terms.items()
        if m == ((INF, 1),):
            if name == "exp":
                return Poly.const(0) if co < 0 else Poly.atom(INF)
            if name == "tanh":
                return Poly.const(1 if co > 0 else -1)
            if name in ("abs", "sqrt") and co > 0:
                return arg
        # f(g(x)) with (f,g) inverse pair
        if co == 1 and len(m) == 1 and m[0][1] == 1:
            a = m[0][0]
            if isinstance(a, tuple) and a[0] == "fn" and (name, a[1]) in INVERSE and len(a) == 3:
                return Poly({mm: Fraction(*cc) for mm, cc in a[2]})
    # abs(-x) = abs(x): normalise sign of the leading coefficient
    if name == "abs" and arg.terms:
        lead = sorted(arg.terms.items(), key=_key)[0][1]
        if lead < 0:
            arg = -arg
    return Poly.atom(("fn", name, arg.key()))


class VN:
    """normaliser for expressions inside one function; sequential environment of locals"""

    def __init__(self, prog=None, func=None, env=None, attr_self=True, selfname="self", strip_broadcast=False, flags=None, inline=0, skip=None):
        self.skip = skip                         # predicate on statements that are to be ignored (tolerated idioms of the calling rule), also inside inlined helpers
        self.inline = inline                     # > 0: calls of straight-line helpers of the package are evaluated in place (to that depth) instead of being opaque atoms
        self.prog, self.func = prog, func
        self.env = dict(env or {})
        self.selfname = selfname
        self.strip_broadcast = strip_broadcast   # x[None, :] / x[:, None] treated as x (elementwise congruence modulo broadcasting)
        self.flags = dict(flags or {})           # name -> bool: boolean parameters fixed for this evaluation (IfExp / if specialisation)

    # ------------------------------------------------------------------ statements
    def run(self, stmts):
        """straight-line body -> Poly of the returned expression (tuple returns -> list of Poly)"""
        for st in stmts:
            r = self.stmt(st)
            if r is not None:
                return r
        return None

    def stmt(self, st):
        if self.skip is not None and self.skip(st):
            return None
        if isinstance(st, ast.Assign):
            v = self.expr(st.value)
            for t in st.targets:
                self.bind(t, v, st)
            return None
        if isinstance(st, ast.AnnAssign):
            if st.value is not None:
                self.bind(st.target, self.expr(st.value), st)
            return None
        if isinstance(st, ast.AugAssign):
            cur = self.expr(st.target)
            v = self.expr(st.value)
            res = self.binop(type(st.op), cur, v, st)
            self.bind(st.target, res, st)
            return None
        if isinstance(st, ast.Return):
            if st.value is None:
                return Poly.const(0)
            if isinstance(st.value, ast.Tuple):
                return [self.expr(e) for e in st.value.elts]
            return self.expr(st.value)
        if isinstance(st, ast.Expr):
            if isinstance(st.value, ast.Call) and isinstance(st.value.func, ast.Name) and st.value.func.id.startswith("check_"):
                return None
            if isinstance(st.value, ast.Constant) or is_diagnostic(st):
                return None
            raise VNUnknown("expression statement %s" % dump(st)[:50])
        if isinstance(st, ast.Pass):
            return None
        if isinstance(st, ast.If) and isinstance(st.test, ast.Name) and st.test.id in self.flags:
            return self.run(st.body if self.flags[st.test.id] else st.orelse)
        if is_guard(st):
            return None      # a guard whose only effect is to raise: not a normal exit
        raise VNUnknown("statement %s not straight-line" % type(st).__name__)

    def bind(self, t, v, st):
        if isinstance(t, ast.Name):
            self.env[t.id] = v
        elif isinstance(t, ast.Attribute) and isinstance(t.value, ast.Name) and t.value.id == self.selfname:
            self.env["self." + strip_us(t.attr)] = v
        elif isinstance(t, ast.Subscript) and isinstance(t.value, ast.Name):
            # x[idx] = v : masked / indexed update
            cur = self.env.get(t.value.id, Poly.atom(("var", t.value.id)))
            self.env[t.value.id] = Poly.atom(("setitem", cur.key(), self.index_key(t.slice), v.key()))
        else:
            raise VNUnknown("assignment target %s" % dump(t)[:40])

    # ------------------------------------------------------------------ expressions
    def expr(self, e):
        if isinstance(e, ast.Constant):
            if isinstance(e.value, bool):
                return Poly.atom(("const", e.value))
            if isinstance(e.value, (int, float)):
                if isinstance(e.value, float):
                    if e.value != e.value or e.value in (float("inf"), float("-inf")):
                        return Poly.atom(INF) if e.value > 0 else -Poly.atom(INF)
                    return Poly.const(Fraction(repr(e.value)))
                return Poly.const(e.value)
            return Poly.atom(("const", repr(e.value)))
        if isinstance(e, ast.Name):
            if e.id in self.env:
                return self.env[e.id]
            return Poly.atom(("var", e.id))
        if isinstance(e, ast.Attribute):
            if isinstance(e.value, ast.Name) and e.value.id == self.selfname:
                k = "self." + strip_us(e.attr)
                if k in self.env:
                    return self.env[k]
                return Poly.atom(("attr", strip_us(e.attr)))
            d = self.dotted(e)
            if d in ("numpy.inf", "numpy.Inf", "numpy.infty", "math.inf"):
                return Poly.atom(INF)
            if d in ("numpy.nan", "numpy.NaN", "math.nan"):
                return Poly.atom(("var", "nan"))
            if d is not None:
                return Poly.atom(("var", d))
            base = self.expr(e.value)
            if e.attr == "T":
                return self.transpose(base)
            return Poly.atom(("getattr", base.key(), e.attr))
        if isinstance(e, ast.UnaryOp):
            v = self.expr(e.operand)
            if isinstance(e.op, ast.USub):
                return -v
            if isinstance(e.op, ast.UAdd):
                return v
            if isinstance(e.op, ast.Invert):
                return Poly.atom(("not", v.key()))
            if isinstance(e.op, ast.Not):
                return Poly.atom(("not", v.key()))
        if isinstance(e, ast.BinOp):
            return self.binop(type(e.op), self.expr(e.left), self.expr(e.right), e)
        if isinstance(e, ast.Compare) and len(e.ops) == 1:
            l, r = self.expr(e.left), self.expr(e.comparators[0])
            op = type(e.ops[0]).__name__
            # canonical orientation: a > b  ==  b < a
            if op in ("Gt", "GtE"):
                l, r = r, l
                op = {"Gt": "Lt", "GtE": "LtE"}[op]
            if op in ("Eq", "NotEq") and _key(l.key()) > _key(r.key()):
                l, r = r, l
            return Poly.atom(("cmp", op, l.key(), r.key()))
        if isinstance(e, ast.BoolOp):
            parts = sorted((self.expr(v).key() for v in e.values), key=_key)
            return Poly.atom(("and" if isinstance(e.op, ast.And) else "or",) + tuple(parts))
        if isinstance(e, ast.Subscript):
            base = self.expr(e.value)
            if self.strip_broadcast and isinstance(e.slice, ast.Tuple) and all(
                    (isinstance(x, ast.Constant) and x.value is None) or (isinstance(x, ast.Slice) and x.lower is None and x.upper is None and x.step is None)
                    for x in e.slice.elts):
                return base
            # x.shape[0] is len(x)
            if isinstance(e.value, ast.Attribute) and e.value.attr == "shape" and isinstance(e.slice, ast.Constant) and e.slice.value == 0:
                return Poly.atom(("len", self.expr(e.value.value).key()))
            ik = self.index_key(e.slice)
            c, prim = base.split_const()
            # X[i][s] == X[i, s] when i is an integer position (a variable of a `for i in range(..)` loop): merge the two subscripts
            if len(prim.terms) == 1:
                (m_, c_), = prim.terms.items()
                if c_ == 1 and len(m_) == 1 and m_[0][1] == 1 and isinstance(m_[0][0], tuple) and m_[0][0][0] == "index":
                    inner = m_[0][0]
                    k1 = inner[2]
                    if self._is_range_var_key(k1):
                        rest = ik[1:] if (isinstance(ik, tuple) and ik and ik[0] == "ix") else (ik,)
                        return Poly.atom(("index", inner[1], ("ix", k1) + tuple(rest))).scale(c)
            return Poly.atom(("index", prim.key(), ik)).scale(c)
        if isinstance(e, ast.Call):
            return self.call(e)
        if isinstance(e, ast.IfExp) and isinstance(e.test, ast.Name) and e.test.id in self.flags:
            return self.expr(e.body if self.flags[e.test.id] else e.orelse)
        if isinstance(e, ast.IfExp):
            return Poly.atom(("ifexp", self.expr(e.test).key(), self.expr(e.body).key(), self.expr(e.orelse).key()))
        if isinstance(e, (ast.Tuple, ast.List)):
            return Poly.atom(("tuple",) + tuple(self.expr(x).key() for x in e.elts))
        raise VNUnknown("expression %s" % dump(e)[:60])

    def _is_range_var_key(self, k):
        """key of a bare variable that is the target of a `for v in range(...)` loop of the function"""
        try:
            (m_, c_), = k
            if not (c_ == (1, 1) and len(m_) == 1 and m_[0][1] == 1 and isinstance(m_[0][0], tuple) and m_[0][0][0] == "var"):
                return False
            name = m_[0][0][1]
        except Exception:
            return False
        if self.func is None:
            return False
        rv = getattr(self, "_range_vars", None)
        if rv is None:
            rv = set()
            for n in ast.walk(self.func.node):
                if isinstance(n, ast.For) and isinstance(n.target, ast.Name) and isinstance(n.iter, ast.Call) and dump(n.iter.func) == "range":
                    rv.add(n.target.id)
            self._range_vars = rv
        return name in rv

    def dotted(self, e):
        if self.prog is not None and self.func is not None:
            return self.prog.dotted(self.func.module, e)
        return None

    def index_key(self, s):
        if isinstance(s, ast.Tuple):
            ks = [self.index_key(x) for x in s.elts]
            # a trailing full slice selects nothing: x[i, :] is x[i]
            if not any(isinstance(x, ast.Constant) and (x.value is Ellipsis or x.value is None) for x in s.elts):
                while len(ks) > 1 and ks[-1] == ("slice", None, None, None):
                    ks.pop()
                if len(ks) == 1:
                    return ks[0]
            return ("ix",) + tuple(ks)
        if isinstance(s, ast.Slice):
            return ("slice", self.expr(s.lower).key() if s.lower else None, self.expr(s.upper).key() if s.upper else None,
                    self.expr(s.step).key() if s.step else None)
        if isinstance(s, ast.Constant) and s.value is None:
            return ("newaxis",)
        return self.expr(s).key()

    def transpose(self, base):
        c, prim = base.split_const()
        # (A.T).T = A
        if len(prim.terms) == 1:
            (m, _), = prim.terms.items()
            if len(m) == 1 and m[0][1] == 1 and isinstance(m[0][0], tuple) and m[0][0][0] == "T":
                return Poly({mm: Fraction(*cc) for mm, cc in m[0][0][1]}).scale(c)
        return Poly.atom(("T", prim.key())).scale(c)

    def binop(self, op, l, r, node):
        if op is ast.Add:
            return l + r
        if op is ast.Sub:
            return l - r
        if op is ast.Mult:
            return l * r
        if op is ast.Div:
            return l * r.pow(-1)
        if op is ast.Pow:
            c = r.const_value()
            if c is not None and c.denominator == 1 and -8 <= c <= 8:
                # sqrt(x)**2 = x
                if c == 2 and len(l.terms) == 1:
                    (m, co), = l.terms.items()
                    if len(m) == 1 and m[0][1] == 1 and isinstance(m[0][0], tuple) and m[0][0][0] == "fn" and m[0][0][1] == "sqrt":
                        return Poly({mm: Fraction(*cc) for mm, cc in m[0][0][2]}).scale(co * co)
                return l.pow(int(c))
            if c is not None and c == Fraction(1, 2):
                return fn_apply("sqrt", l)
            return Poly.atom(("pow", l.key(), r.key()))
        if op is ast.MatMult:
            return self.dot(l, r)
        if op in (ast.BitAnd, ast.BitOr, ast.BitXor):
            nm = {ast.BitAnd: "and", ast.BitOr: "or", ast.BitXor: "xor"}[op]
            parts = sorted((l.key(), r.key()), key=_key)
            return Poly.atom((nm,) + tuple(parts))
        if op is ast.FloorDiv:
            return Poly.atom(("floordiv", l.key(), r.key()))
        if op is ast.Mod:
            return Poly.atom(("mod", l.key(), r.key()))
        raise VNUnknown("operator %s" % op.__name__)

    def dot(self, l, r):
        cl, pl = l.split_const()
        cr, pr = r.split_const()
        return Poly.atom(("dot", pl.key(), pr.key())).scale(cl * cr)

    def _inline_call(self, e):
        """value of a call to a straight-line helper of the package (own method / module function), or None"""
        if not self.inline or self.prog is None or self.func is None:
            return None
        ba, callee = self.prog.bound_args(self.func, e)
        if ba is None or callee is None or callee.node.args.vararg is not None:
            return None
        from .model import body_nodoc
        body = body_nodoc(callee.node)
        if len(body) == 1 and isinstance(body[0], ast.Raise):
            return None
        env = {k: v for k, v in self.env.items() if k.startswith("self.")}
        try:
            for p_, a_ in ba.items():
                env[p_] = self.expr(a_)
            # defaults of parameters that were not supplied
            args = callee.node.args
            names = [a.arg for a in args.args]
            for nm, d in zip(names[len(names) - len(args.defaults):], args.defaults):
                if nm not in env:
                    env[nm] = self.expr(d)
            sub = VN(self.prog, callee, env, selfname=self.selfname, strip_broadcast=self.strip_broadcast, flags=self.flags, inline=self.inline - 1, skip=self.skip)
            r = sub.run(body)
        except VNUnknown:
            return None
        if r is None or isinstance(r, list):
            return None
        return r

    def call(self, e):
        fn = e.func
        kws, stars = kwargs_of(e)
        r_inl = self._inline_call(e)
        if r_inl is not None:
            return r_inl
        d = self.dotted(fn)
        if d is not None and d.startswith("numpy."):
            name = d.split(".", 1)[1]
            args = [self.expr(a) for a in e.args]
            if name in NUMPY_UNARY and len(args) == 1 and not kws:
                return fn_apply(name, args[0])
            if name in ("dot", "matmul") and len(args) == 2:
                return self.dot(args[0], args[1])
            if name in REDUCERS and args:
                axis = e.args[1] if len(e.args) > 1 else kws.get("axis")
                return self.reduce(CANON.get(name, name), args[0], axis, kws)
            if name == "power" and len(e.args) == 2:
                return self.binop(ast.Pow, args[0], args[1], e)
            if name in ("multiply", "add", "subtract", "divide", "true_divide") and len(args) == 2:
                return self.binop({"multiply": ast.Mult, "add": ast.Add, "subtract": ast.Sub, "divide": ast.Div, "true_divide": ast.Div}[name],
                                  args[0], args[1], e)
            if name in ("transpose",) and len(args) == 1 and not kws:
                return self.transpose(args[0])
            if name in ("linalg.norm",):
                ordv = kws.get("ord")
                axis = kws.get("axis")
                return Poly.atom(("norm", args[0].key(), self.expr(ordv).key() if ordv is not None else None,
                                  self.expr(axis).key() if axis is not None else None))
            if name in ("float64", "asarray", "array", "float_", "ascontiguousarray") and len(args) == 1 and not (set(kws) - {"dtype"}):
                return args[0]
            if name == "where" and len(args) == 3 and not kws:
                # one spelling of a two-way choice: where(a <= b, X, Y) is where(b < a, Y, X); where(~c, X, Y) is where(c, Y, X); where(a != b, X, Y) is where(a == b, Y, X)
                c_, x_, y_ = args
                for _ in range(4):
                    ck = c_.key()
                    at = ck[0][0][0][0] if (len(ck) == 1 and ck[0][1] == (1, 1) and len(ck[0][0]) == 1 and ck[0][0][0][1] == 1 and isinstance(ck[0][0][0][0], tuple)) else None
                    if at is not None and at[0] == "cmp" and at[1] == "LtE":
                        c_ = Poly.atom(("cmp", "Lt", at[3], at[2]))
                        x_, y_ = y_, x_
                    elif at is not None and at[0] == "cmp" and at[1] == "NotEq":
                        c_ = Poly.atom(("cmp", "Eq", at[2], at[3]))
                        x_, y_ = y_, x_
                    elif at is not None and at[0] in ("not", "np.logical_not") and len(at) == 2:
                        c_ = Poly({mm: Fraction(*cc) for mm, cc in at[1]})
                        x_, y_ = y_, x_
                    else:
                        break
                args = [c_, x_, y_]
            kk = tuple(sorted((k, self.expr(v).key()) for k, v in kws.items()))
            return Poly.atom(("np." + name,) + tuple(a.key() for a in args) + kk)
        if isinstance(fn, ast.Attribute):
            recv = fn.value
            m = fn.attr
            # x.sum(axis) etc.
            if m in REDUCERS:
                base = self.expr(recv)
                axis = e.args[0] if e.args else kws.get("axis")
                return self.reduce(CANON.get(m, m), base, axis, kws)
            if m == "dot" and len(e.args) == 1:
                return self.dot(self.expr(recv), self.expr(e.args[0]))
            if m in ("copy",) and not e.args:
                return self.expr(recv)
            if m == "astype":
                return self.expr(recv)
            if m == "transpose" and not e.args:
                return self.transpose(self.expr(recv))
            base = self.expr(recv)
            # own methods: arguments are keyed by the callee's parameter names, so m(a) and m(x=a) normalise alike
            if self.prog is not None and self.func is not None and isinstance(recv, ast.Name) and recv.id in (self.selfname, "cls"):
                ba, callee = self.prog.bound_args(self.func, e)
                if ba is not None:
                    kk = tuple(sorted((k, self.expr(v).key()) for k, v in ba.items()))
                    return Poly.atom(("meth", m, base.key()) + kk)
            args = tuple(self.expr(a).key() for a in e.args)
            kk = tuple(sorted((k, self.expr(v).key()) for k, v in kws.items()))
            return Poly.atom(("meth", m, base.key()) + args + kk)
        if isinstance(fn, ast.Name):
            if self.prog is not None and self.func is not None and fn.id not in ("float", "int", "len", "abs"):
                ba, callee = self.prog.bound_args(self.func, e)
                if ba is not None:
                    kk = tuple(sorted((k, self.expr(v).key()) for k, v in ba.items()))
                    return Poly.atom(("call", fn.id) + kk)
            args = tuple(self.expr(a).key() for a in e.args)
            kk = tuple(sorted((k, self.expr(v).key()) for k, v in kws.items()))
            if fn.id in ("float", "int") and len(e.args) == 1:
                return self.expr(e.args[0])
            if fn.id == "len" and len(e.args) == 1:
                return Poly.atom(("len", args[0]))
            if fn.id in ("abs",) and len(e.args) == 1:
                return fn_apply("abs", self.expr(e.args[0]))
            return Poly.atom(("call", fn.id) + args + kk)
        raise VNUnknown("call %s" % dump(e)[:50])

    def reduce(self, name, base, axis, kws):
        c, prim = base.split_const()
        ak = self.expr(axis).key() if axis is not None else None
        extra = tuple(sorted((k, self.expr(v).key()) for k, v in kws.items() if k not in ("axis", "dtype")))
        linear = name in ("sum", "mean", "nansum", "nanmean", "cumsum")
        if linear:
            return Poly.atom(("red", name, prim.key(), ak) + extra).scale(c)
        return Poly.atom(("red", name, base.key(), ak) + extra)


RAISES = object()


def path_values(prog, f, stmts=None, inline=0, skip=None, limit=64, env=None):
    """
    every control-flow path through a function body made of assignments, if/elif/else, return and raise:
    list of (conditions, value) with conditions = [(test text, taken), ...] (a leading `not` is folded into `taken`; the conjuncts of a taken `and`
    are listed too) and value = normal form of the returned expression, RAISES for a raising path, None when the path falls off the end.
    """
    from .model import body_nodoc
    stmts = body_nodoc(f.node) if stmts is None else stmts
    out = []

    def cond_items(test, taken):
        items = []
        t = test
        while isinstance(t, ast.UnaryOp) and isinstance(t.op, ast.Not):
            t, taken = t.operand, not taken
        items.append((dump(t), taken))
        if isinstance(t, ast.BoolOp) and ((isinstance(t.op, ast.And) and taken) or (isinstance(t.op, ast.Or) and not taken)):
            for v in t.values:
                items += cond_items(v, taken)
        return items

    def run(sts, env, conds):
        if len(out) > limit:
            raise VNUnknown("too many paths")
        vn = VN(prog, f, env, inline=inline, skip=skip)
        for i, st in enumerate(sts):
            if isinstance(st, ast.If):
                for branch, taken in ((st.body, True), (st.orelse, False)):
                    run(list(branch) + list(sts[i + 1:]), dict(vn.env), conds + cond_items(st.test, taken))
                return
            if isinstance(st, ast.Raise):
                out.append((conds, RAISES))
                return
            if isinstance(st, ast.Return):
                out.append((conds, vn.expr(st.value) if st.value is not None else None))
                return
            if isinstance(st, ast.Expr):
                continue
            vn.stmt(st)
        out.append((conds, None))
    run(list(stmts), dict(env or {}), [])
    return out


def normalise_function(prog, f, env=None, selfname="self"):
    """straight-line function body -> Poly (or list of Poly for tuple returns)"""
    from .model import body_nodoc
    vn = VN(prog, f, env, selfname=selfname)
    return vn.run(body_nodoc(f.node))


def parse_expr(text, env=None, prog=None, func=None):
    """normalise a reference expression written in python syntax (names are free variables)"""
    e = ast.parse(text, mode="eval").body
    return VN(prog, func, env).expr(e)


def _symbols(key, out):
    """operator symbols (function / method / numpy names) occurring anywhere in a normal-form key"""
    if isinstance(key, tuple):
        if key and isinstance(key[0], str):
            h = key[0]
            if h in ("fn", "meth", "call", "red") and len(key) > 1 and isinstance(key[1], str):
                out.add("%s:%s" % (h, key[1]))
            elif h.startswith("np."):
                out.add(h)
            elif h in ("dot", "T", "index", "norm", "setitem", "ifexp", "cmp", "pow", "getattr", "floordiv", "mod"):
                out.add(h)
        for x in key:
            _symbols(x, out)


STRUCTURAL = ("np.where", "setitem", "ifexp", "np.concatenate", "np.stack", "np.select", "np.piecewise", "np.choose", "np.logical_and", "np.logical_or", "np.logical_not", "and", "or", "not")


def _structure(key, out):
    """multiset of the case-structure operators (where / masked store / conditional / concatenation / boolean connectives) of a normal form"""
    if isinstance(key, tuple):
        if key and isinstance(key[0], str) and key[0] in STRUCTURAL:
            out[key[0]] = out.get(key[0], 0) + 1
        for x in key:
            _structure(x, out)


def comparable(got, ref):
    """
    True  -> both normal forms use the same operator symbols: a difference is a difference of coefficients / signs /
             terms / operands / axes (a classified difference);
    False -> `got` uses an operator the reference does not know (another formulation): the comparison cannot decide.
    """
    a, b = set(), set()
    _symbols(got.key(), a)
    _symbols(ref.key(), b)
    if not a <= b:
        return False
    # the same vocabulary arranged as a different case structure (nested where vs where + masked store, ...) is another formulation, not a classified difference
    sa_, sb_ = {}, {}
    _structure(got.key(), sa_)
    _structure(ref.key(), sb_)
    return sa_ == sb_
