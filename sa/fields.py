"""
Field flow (DESIGN.md §2.4, A.2): symbolic evaluation of a matrix method for a CONCRETE class,
with super()/self calls inlined along that class's MRO and **kwargs pass-through tracked.

Values are terms (tuples):
  ("self", f)                     field f of self as it was on entry (public/private slot unified)
  ("obj", name, f)                field f of another object (values, m, mats[0], ...)
  ("param", p)                    a parameter, untouched
  ("const", v)
  ("np", fn, src, idx, vals, axis) numpy primitive: fn in take/delete/insert/append/concatenate/index
  ("guard", cond, a, b)           value a if cond else b
  ("listof", var, f, filled)      [m.f for m in mats]
  ("block", lo, hi, axes)         square block fill: lo block = lo, hi block = hi, along `axes`
  ("indexat", idx, axis)          tuple(idx if i == axis else slice(None) ...)
  ("sqslice", which, axes)        tuple(slice(..) if i in axes else slice(None) ...)  which in lo/hi
  ("call", text, args)            any other call (opaque but structured)
  ("new", id)                     an object constructed in the method (see Eval.objects)
  ("opaque", text)
Conditions: ("isnone", t) ("notnone", t) ("isinst", t, text) ("and", [...]) ("or", [...]) ("not", c) ("opaque", text)
"""
import ast
import itertools

from .astutil import dump, kwargs_of, strip_us, is_none
from .model import AnalysisError, ClassInfo, FuncInfo, body_nodoc, super_call_info

NP_PRIMS = {"take", "delete", "insert", "append", "concatenate"}


class Unrecognised(AnalysisError):
    pass


class Raised(Exception):
    pass


ABSENT = ("absent",)
NONE = ("const", None)


def is_term(t, kind):
    return isinstance(t, tuple) and t and t[0] == kind


class NewObj:
    _ids = itertools.count()

    def __init__(self, how, cls_text, kw, star, node):
        self.id = next(NewObj._ids)
        self.how = how            # "ctor" | "factory:<name>" | "deepcopy" ...
        self.cls_text = cls_text
        self.kw = kw              # name -> term
        self.star = star          # list of terms for **rest that could not be expanded
        self.post = {}            # attr -> term
        self.node = node


class Frame:
    def __init__(self, func, concrete, env, selfname="self"):
        self.func = func
        self.concrete = concrete
        self.env = env
        self.selfname = selfname
        self.ret = ABSENT


class Eval:
    """Evaluate method `func` for concrete class `concrete`."""

    MAXDEPTH = 8

    def __init__(self, prog, concrete):
        self.prog = prog
        self.K = concrete
        self.objects = {}
        self.inlined = []          # FuncInfo inlined (for evidence)
        self.notes = []
        self.self_calls = []       # (method name, kwargs terms) of non-inlined self calls

    # ------------------------------------------------------------------ entry
    def run(self, func, bind=None):
        env = {}
        a = func.node.args
        params = [x.arg for x in a.posonlyargs + a.args + a.kwonlyargs]
        selfname = params[0] if params and func.kind != "staticmethod" else None
        for p in params:
            if p == selfname:
                continue
            env[p] = ("param", p)
        if a.kwarg is not None:
            env[a.kwarg.arg] = ("kwdict", {}, [("param", "**" + a.kwarg.arg)])
        if bind:
            env.update(bind)
        fr = Frame(func, self.K, env, selfname)
        self.selfkind = func.kind
        self._exec_func(fr, 0)
        return fr

    def _exec_func(self, fr, depth):
        try:
            live = self.exec_block(body_nodoc(fr.func.node), fr, depth, [])
        except Raised:
            live = False
        return fr

    # ------------------------------------------------------------------ statements
    def exec_block(self, stmts, fr, depth, pathcond):
        """returns True if control can fall through; raises Raised if every path raises"""
        for st in stmts:
            if fr.env.get("<done>"):
                break
            self.exec_stmt(st, fr, depth, pathcond)
        return True

    def exec_stmt(self, st, fr, depth, pathcond):
        env = fr.env
        if isinstance(st, ast.Assign):
            val = self.eval(st.value, fr, depth)
            for t in st.targets:
                self.assign(t, val, fr, depth, pathcond, st)
            return
        if isinstance(st, ast.AnnAssign):
            if st.value is not None:
                self.assign(st.target, self.eval(st.value, fr, depth), fr, depth, pathcond, st)
            return
        if isinstance(st, ast.AugAssign):
            cur = self.eval(st.target, fr, depth) if not isinstance(st.target, ast.Subscript) else None
            if isinstance(st.target, ast.Subscript):
                base = st.target.value
                if isinstance(base, ast.Name):
                    env[base.id] = ("opaque", "augassigned:" + base.id)
                else:
                    self.assign(st.target, ("opaque", dump(st)), fr, depth, pathcond, st)
                return
            val = ("call", "aug:" + type(st.op).__name__, (cur, self.eval(st.value, fr, depth)))
            self.assign(st.target, val, fr, depth, pathcond, st)
            return
        if isinstance(st, ast.Expr):
            if isinstance(st.value, ast.Call):
                if isinstance(st.value.func, ast.Name) and st.value.func.id in ("delattr",):
                    raise Unrecognised("dynamic attribute store %s" % dump(st.value)[:50])
                self.eval_call(st.value, fr, depth, stmt=True, pathcond=pathcond)
            return
        if isinstance(st, ast.Return):
            v = self.eval(st.value, fr, depth) if st.value is not None else NONE
            if fr.ret is ABSENT or not pathcond:
                fr.ret = v if fr.ret is ABSENT else ("guard", ("opaque", "earlier-return"), fr.ret, v)
            else:
                fr.ret = ("guard", _and(pathcond), v, fr.ret)
            env["<done>"] = True
            return
        if isinstance(st, ast.Raise):
            raise Raised()
        if isinstance(st, ast.Pass):
            return
        if isinstance(st, ast.If):
            self.exec_if(st, fr, depth, pathcond)
            return
        if isinstance(st, ast.For):
            self.exec_for(st, fr, depth, pathcond)
            return
        if isinstance(st, ast.While):
            self.havoc(st, fr, "while loop")
            return
        if isinstance(st, (ast.Import, ast.ImportFrom)):
            return
        if isinstance(st, ast.Delete):
            return
        if isinstance(st, ast.With):
            for it in st.items:
                v = self.eval(it.context_expr, fr, depth)
                if it.optional_vars is not None:
                    self.assign(it.optional_vars, ("call", "with", (v,)), fr, depth, pathcond, st)
            self.exec_block(st.body, fr, depth, pathcond)
            return
        if isinstance(st, ast.Try):
            self.exec_block(st.body, fr, depth, pathcond)
            for h in st.handlers:
                # handler bodies: havoc what they assign
                self.havoc(h, fr, "except handler")
            self.exec_block(st.finalbody, fr, depth, pathcond)
            return
        if isinstance(st, ast.Assert):
            return
        raise Unrecognised("statement %s not modelled" % type(st).__name__)

    def havoc(self, node, fr, why):
        for n in ast.walk(node):
            if isinstance(n, ast.Name) and isinstance(n.ctx, ast.Store):
                fr.env[n.id] = ("opaque", "%s:%s" % (why, n.id))
            elif isinstance(n, ast.Attribute) and isinstance(n.ctx, ast.Store) and isinstance(n.value, ast.Name) \
                    and n.value.id == fr.selfname:
                fr.env["self." + strip_us(n.attr)] = ("opaque", "%s:self.%s" % (why, n.attr))

    def exec_if(self, st, fr, depth, pathcond):
        cond = self.cond(st.test, fr, depth)
        base = fr.env
        ret0 = fr.ret
        env_t = dict(base)
        fr.env = env_t
        t_raised = False
        try:
            self.exec_block(st.body, fr, depth, pathcond + [cond])
        except Raised:
            t_raised = True
        env_t = fr.env
        ret_t = fr.ret
        fr.ret = ret0
        env_f = dict(base)
        fr.env = env_f
        f_raised = False
        try:
            self.exec_block(st.orelse, fr, depth, pathcond + [("not", cond)])
        except Raised:
            f_raised = True
        env_f = fr.env
        ret_f = fr.ret
        if t_raised and f_raised:
            fr.env = base
            raise Raised()
        if t_raised:
            fr.env = env_f
            fr.ret = ret_f
            return
        if f_raised:
            fr.env = env_t
            fr.ret = ret_t
            return
        merged = {}
        for k in set(env_t) | set(env_f):
            dflt = ("self", k[5:]) if k.startswith("self.") else ABSENT
            a = env_t.get(k, dflt)
            b = env_f.get(k, dflt)
            if k == "<done>":
                if a is True and b is True:
                    merged[k] = True
                elif a is True or b is True:
                    # one branch returned: continue with the other branch's state
                    merged = dict(env_f if a is True else env_t)
                    merged.pop("<done>", None)
                    fr.env = merged
                    fr.ret = ret_t if a is True else ret_f
                    if a is True and ret_f is not ABSENT and ret_f is not ret0:
                        fr.ret = ("guard", cond, ret_t, ret_f)
                    fr.pending_return = True
                    return
                continue
            if a is b or a == b:
                merged[k] = a
            else:
                merged[k] = mkguard(cond, a, b)
        fr.env = merged
        if ret_t is ret_f or ret_t == ret_f:
            fr.ret = ret_t
        else:
            fr.ret = mkguard(cond, ret_t, ret_f)

    def exec_for(self, st, fr, depth, pathcond):
        it = self.eval(st.iter, fr, depth)
        # unroll loops over a constant tuple (square axes)
        if is_term(it, "const") and isinstance(it[1], (tuple, list)) and isinstance(st.target, ast.Name) and len(it[1]) <= 16:
            for v in it[1]:
                fr.env[st.target.id] = ("const", v)
                self.exec_block(st.body, fr, depth, pathcond)
            return
        # loop over a square-axes property that does not fold to a constant: one symbolic iteration
        if is_term(it, "self") and it[1].endswith("_axes") and isinstance(st.target, ast.Name):
            fr.env[st.target.id] = ("axisof", it[1])
            self.exec_block(st.body, fr, depth, pathcond)
            return
        # classify the body
        stores_sub = []
        assigns = set()
        has_effect = False
        for n in ast.walk(st):
            if isinstance(n, ast.Subscript) and isinstance(n.ctx, ast.Store):
                if isinstance(n.value, ast.Name):
                    stores_sub.append(n.value.id)
                else:
                    has_effect = True
            elif isinstance(n, ast.Name) and isinstance(n.ctx, ast.Store):
                assigns.add(n.id)
            elif isinstance(n, ast.Attribute) and isinstance(n.ctx, ast.Store):
                has_effect = True
            elif isinstance(n, (ast.Return,)):
                has_effect = True
            elif isinstance(n, ast.Call) and isinstance(n.func, ast.Attribute) and isinstance(n.func.value, ast.Name) \
                    and n.func.value.id == fr.selfname and not n.func.attr.startswith(("check_", "is_")):
                has_effect = True
            elif isinstance(n, ast.Call) and isinstance(n.func, ast.Name) and n.func.id in ("setattr", "delattr", "exec", "eval"):
                has_effect = True      # dynamic attribute stores: which fields are written is not visible in the statement (constant-tuple loops are unrolled above)
            elif isinstance(n, ast.Attribute) and n.attr == "__dict__":
                has_effect = True
        if has_effect:
            raise Unrecognised("loop with stores/returns/self-calls not modelled: for %s in %s" % (dump(st.target), dump(st.iter)))
        for name in stores_sub:
            cur = fr.env.get(name, ("opaque", name))
            if is_term(cur, "listof"):
                fr.env[name] = ("listof", cur[1], cur[2], True)
            elif is_term(cur, "guard") or is_term(cur, "const"):
                fr.env[name] = map_leaves(cur, lambda l: ("listof", l[1], l[2], True) if is_term(l, "listof") else l)
            else:
                fr.env[name] = ("opaque", "filled-in-loop:" + name)
        for name in assigns:
            if name not in stores_sub:
                fr.env[name] = ("opaque", "loop-local:" + name)

    def assign(self, target, val, fr, depth, pathcond, st):
        env = fr.env
        if isinstance(target, ast.Name):
            env[target.id] = val
            return
        if isinstance(target, (ast.Tuple, ast.List)):
            if is_term(val, "call") and val[1] == "numpy.unique" :
                for i, e in enumerate(target.elts):
                    self.assign(e, ("unique_part", i, val), fr, depth, pathcond, st)
                return
            if is_term(val, "tuple") and len(val[1]) == len(target.elts):
                for e, v in zip(target.elts, val[1]):
                    self.assign(e, v, fr, depth, pathcond, st)
                return
            for i, e in enumerate(target.elts):
                self.assign(e, ("item", i, val), fr, depth, pathcond, st)
            return
        if isinstance(target, ast.Attribute):
            if isinstance(target.value, ast.Name) and target.value.id == fr.selfname and fr.func.kind != "classmethod":
                env["self." + strip_us(target.attr)] = val
                return
            base = self.eval(target.value, fr, depth)
            if is_term(base, "new"):
                o = self.objects[base[1]]
                prev = o.post.get(target.attr, ABSENT)
                o.post[target.attr] = val if not pathcond else mkguard(_and(pathcond), val, prev)
                return
            raise Unrecognised("store to attribute of %s not modelled: %s" % (term_str(base), dump(target)))
        if isinstance(target, ast.Subscript):
            base = target.value
            if isinstance(base, ast.Name):
                cur = env.get(base.id, ("opaque", base.id))
                idx = self.eval(target.slice, fr, depth)
                if is_term(idx, "sqslice"):
                    lo, hi = (cur[1], cur[2]) if is_term(cur, "block") else (ABSENT, ABSENT)
                    if idx[1] == "lo":
                        lo = val
                    else:
                        hi = val
                    env[base.id] = ("block", lo, hi, idx[2])
                    return
                env[base.id] = ("substore", cur, idx, val)
                return
            if isinstance(base, ast.Attribute) and isinstance(base.value, ast.Name) and base.value.id == fr.selfname:
                f = "self." + strip_us(base.attr)
                cur = env.get(f, ("self", strip_us(base.attr)))
                env[f] = ("substore", cur, self.eval(target.slice, fr, depth), val)
                return
            raise Unrecognised("subscript store not modelled: %s" % dump(target))
        raise Unrecognised("assignment target not modelled: %s" % dump(target))

    # ------------------------------------------------------------------ conditions
    def cond(self, e, fr, depth):
        if isinstance(e, ast.BoolOp):
            parts = [self.cond(v, fr, depth) for v in e.values]
            return ("and" if isinstance(e.op, ast.And) else "or", tuple(parts))
        if isinstance(e, ast.UnaryOp) and isinstance(e.op, ast.Not):
            return ("not", self.cond(e.operand, fr, depth))
        if isinstance(e, ast.Compare) and len(e.ops) == 1:
            l, r = e.left, e.comparators[0]
            if isinstance(e.ops[0], (ast.Is, ast.IsNot)) and is_none(r):
                t = self.eval(l, fr, depth)
                return ("isnone" if isinstance(e.ops[0], ast.Is) else "notnone", t)
            return ("cmp", type(e.ops[0]).__name__, self.eval(l, fr, depth), self.eval(r, fr, depth))
        if isinstance(e, ast.Call) and isinstance(e.func, ast.Name) and e.func.id == "isinstance" and len(e.args) == 2:
            return ("isinst", self.eval(e.args[0], fr, depth), dump(e.args[1]))
        if isinstance(e, ast.Call):
            return ("callcond", self.eval(e, fr, depth))
        return ("opaque", dump(e))

    # ------------------------------------------------------------------ expressions
    def eval(self, e, fr, depth):
        env = fr.env
        if e is None:
            return NONE
        if isinstance(e, ast.Constant):
            return ("const", e.value)
        if isinstance(e, ast.Name):
            if e.id in env:
                return env[e.id]
            ma = getattr(fr.func.module, "assigns", {}).get(e.id)
            if isinstance(ma, (ast.Tuple, ast.List)) and ma.elts and all(isinstance(x, ast.Constant) and isinstance(x.value, str) for x in ma.elts):
                return ("const", tuple(x.value for x in ma.elts))
            return ("global", e.id)
        if isinstance(e, ast.Attribute):
            if isinstance(e.value, ast.Name) and e.value.id == fr.selfname:
                if fr.func.kind == "classmethod":
                    return ("clsattr", e.attr)
                if e.attr == "__class__":
                    return ("selfclass",)
                f = strip_us(e.attr)
                key = "self." + f
                if key in env:
                    return env[key]
                # constant-folded property (axis constants)
                if not e.attr.startswith("_"):
                    c = self.prog.const_prop(self.K, e.attr)
                    if c is not None:
                        return ("const", c)
                return ("self", f)
            base = self.eval(e.value, fr, depth)
            if is_term(base, "param") or is_term(base, "loopvar"):
                # axis constants of sibling objects of the same class
                if e.attr.endswith("_axis") or e.attr.endswith("_axes"):
                    c = self.prog.const_prop(self.K, e.attr)
                    if c is not None:
                        return ("const", c)
                return ("obj", base[1], strip_us(e.attr))
            if is_term(base, "item") and is_term(base[2], "param"):
                if e.attr.endswith("_axis") or e.attr.endswith("_axes"):
                    c = self.prog.const_prop(self.K, e.attr)
                    if c is not None:
                        return ("const", c)
                return ("obj", "%s[%s]" % (base[2][1], base[1]), strip_us(e.attr))
            if is_term(base, "selfclass"):
                return ("clsattr", e.attr)
            if is_term(base, "new"):
                o = self.objects[base[1]]
                if e.attr in o.post:
                    return o.post[e.attr]
                return ("newattr", base[1], e.attr)
            if is_term(base, "guard"):
                return map_leaves(base, lambda l: ("obj", l[1], strip_us(e.attr)) if is_term(l, "param") else ("attr", l, e.attr))
            return ("attr", base, e.attr)
        if isinstance(e, ast.Call):
            return self.eval_call(e, fr, depth)
        if isinstance(e, ast.Subscript):
            src = self.eval(e.value, fr, depth)
            idx = self.eval(e.slice, fr, depth)
            if is_term(idx, "indexat"):
                return ("np", "index", src, idx[1], None, idx[2])
            if is_term(src, "param") and is_term(idx, "const"):
                return ("item", idx[1], src)
            if is_term(idx, "param") or is_term(idx, "guard") or is_term(idx, "call") or is_term(idx, "selfcall") \
                    or is_term(idx, "methcall"):
                return ("np", "index", src, idx, None, ("const", 0))
            return ("subscript", src, idx)
        if isinstance(e, ast.IfExp):
            c = self.cond(e.test, fr, depth)
            return mkguard(c, self.eval(e.body, fr, depth), self.eval(e.orelse, fr, depth))
        if isinstance(e, (ast.Tuple, ast.List)):
            return ("tuple", tuple(self.eval(x, fr, depth) for x in e.elts))
        if isinstance(e, ast.ListComp) or isinstance(e, ast.GeneratorExp):
            return self.eval_comp(e, fr, depth)
        if isinstance(e, ast.BinOp):
            return ("binop", type(e.op).__name__, self.eval(e.left, fr, depth), self.eval(e.right, fr, depth))
        if isinstance(e, ast.UnaryOp):
            return ("unop", type(e.op).__name__, self.eval(e.operand, fr, depth))
        if isinstance(e, ast.Compare) or isinstance(e, ast.BoolOp):
            return ("bool", self.cond(e, fr, depth))
        if isinstance(e, ast.Slice):
            return ("slice", self.eval(e.lower, fr, depth) if e.lower else NONE,
                    self.eval(e.upper, fr, depth) if e.upper else NONE)
        if isinstance(e, ast.Dict):
            return ("dict", tuple((self.eval(k, fr, depth) if k is not None else NONE, self.eval(v, fr, depth))
                                  for k, v in zip(e.keys, e.values)))
        if isinstance(e, ast.JoinedStr):
            return ("const", "<fstring>")
        if isinstance(e, ast.Starred):
            return ("starred", self.eval(e.value, fr, depth))
        if isinstance(e, ast.Lambda):
            return ("opaque", "lambda")
        return ("opaque", dump(e))

    def eval_comp(self, e, fr, depth):
        # [m.f for m in mats]
        if len(e.generators) == 1 and not e.generators[0].ifs:
            g = e.generators[0]
            if isinstance(g.target, ast.Name) and isinstance(e.elt, ast.Attribute) and isinstance(e.elt.value, ast.Name) \
                    and e.elt.value.id == g.target.id:
                it = self.eval(g.iter, fr, depth)
                if is_term(it, "param"):
                    return ("listof", it[1], strip_us(e.elt.attr), False)
            # tuple(idx if i == AXIS else slice(None) for i in range(ndim))
            if isinstance(g.target, ast.Name) and isinstance(e.elt, ast.IfExp):
                i = g.target.id
                t = e.elt.test
                if isinstance(t, ast.Compare) and len(t.ops) == 1 and isinstance(t.ops[0], ast.Eq) and isinstance(t.comparators[0], ast.Name) and t.comparators[0].id == i \
                        and not (isinstance(t.left, ast.Name) and t.left.id == i):
                    t = ast.Compare(left=t.comparators[0], ops=[ast.Eq()], comparators=[t.left])      # AXIS == i  is  i == AXIS
                if isinstance(t, ast.Compare) and len(t.ops) == 1 and isinstance(t.left, ast.Name) and t.left.id == i:
                    other = t.comparators[0]
                    if isinstance(t.ops[0], ast.Eq) and _is_slice_none(e.elt.orelse):
                        return ("indexat", self.eval(e.elt.body, fr, depth), self.eval(other, fr, depth))
                    if isinstance(t.ops[0], ast.In) and _is_slice_none(e.elt.orelse) and isinstance(e.elt.body, ast.Call) \
                            and isinstance(e.elt.body.func, ast.Name) and e.elt.body.func.id == "slice":
                        axes = self.eval(other, fr, depth)
                        a = e.elt.body.args
                        if len(a) == 2 and isinstance(a[0], ast.Constant) and a[0].value == 0:
                            bound = self._shape_of(a[1], i, fr, depth)
                            if bound is not None:
                                return ("sqslice", "lo", axes, bound)
                        elif len(a) == 2:
                            b0 = self._shape_of(a[0], i, fr, depth)
                            b1 = self._shape_of(a[1], i, fr, depth)
                            if b0 is not None and b1 is not None:
                                return ("sqslice", "hi", axes, b0, b1)
        return ("opaque", "comp:" + dump(e)[:60])

    def _shape_of(self, e, ivar, fr, depth):
        """`S[i]` where S evaluates to a shape term -> that term"""
        if isinstance(e, ast.Subscript) and isinstance(e.slice, ast.Name) and e.slice.id == ivar:
            return self.eval(e.value, fr, depth)
        return None

    # ------------------------------------------------------------------ calls
    def eval_call(self, call, fr, depth, stmt=False, pathcond=None):
        prog = self.prog
        fn = call.func
        # tuple(<genexp>) / list(...)
        if isinstance(fn, ast.Name) and fn.id in ("tuple", "list") and len(call.args) == 1:
            inner = self.eval(call.args[0], fr, depth)
            if is_term(inner, "indexat") or is_term(inner, "sqslice") or is_term(inner, "listof"):
                return inner
            return ("call", fn.id, (inner,))
        if isinstance(fn, ast.Name) and fn.id in ("getattr", "setattr") and len(call.args) >= 2 and isinstance(call.args[0], ast.Name) and call.args[0].id == fr.selfname:
            nm = self.eval(call.args[1], fr, depth)
            if is_term(nm, "const") and isinstance(nm[1], str):
                node = ast.Attribute(value=ast.Name(id=fr.selfname, ctx=ast.Load()), attr=nm[1], ctx=ast.Load())
                ast.copy_location(node, call)
                if fn.id == "getattr" and len(call.args) == 2:
                    return self.eval(node, fr, depth)
                if fn.id == "setattr" and len(call.args) == 3:
                    node.ctx = ast.Store()
                    self.assign(node, self.eval(call.args[2], fr, depth), fr, depth, pathcond or [], call)
                    return NONE
            raise Unrecognised("dynamic attribute access %s" % dump(call)[:50])
        sc = super_call_info(call)
        if sc is not None:
            cname, xname, m = sc
            c = None
            if cname is not None:
                r = prog.resolve_name(fr.func.module, cname)
                c = r if isinstance(r, ClassInfo) else None
            else:
                c = fr.func.cls
            if c is None:
                raise Unrecognised("super() target class not resolved: %s" % dump(call))
            callee = prog.lookup_method(self.K, m, after=c)
            if callee is None:
                raise Unrecognised("super().%s not found after %s in MRO of %s" % (m, c.name, self.K.name))
            return self.inline(callee, call, fr, depth, bound_self=True)
        d = prog.dotted(fr.func.module, fn)
        if d is not None:
            return self.eval_external(d, call, fr, depth)
        if isinstance(fn, ast.Attribute):
            v = fn.value
            if fn.attr == "__class__" and isinstance(v, ast.Name) and v.id == fr.selfname:
                return self.make_new("ctor", "self.__class__", call, fr, depth)
            # self.m(...)
            if isinstance(v, ast.Name) and v.id == fr.selfname:
                if fr.func.kind == "classmethod":
                    # cls.m(...)
                    callee = prog.lookup_method(self.K, fn.attr)
                    if callee is not None and callee.kind == "classmethod":
                        if fn.attr.startswith("from_"):
                            return self.make_new("factory:" + fn.attr, "cls", call, fr, depth)
                        return self.inline(callee, call, fr, depth, bound_self=True)
                    raise Unrecognised("cls.%s not resolved" % fn.attr)
                callee = prog.lookup_method(self.K, fn.attr)
                if callee is not None:
                    if fn.attr.startswith(("is_", "check_")) or fn.attr in ("unscale",):
                        kws, _ = kwargs_of(call)
                        return ("selfcall", fn.attr, tuple(self.eval(a, fr, depth) for a in call.args))
                    if depth < self.MAXDEPTH:
                        return self.inline(callee, call, fr, depth, bound_self=True)
                    raise Unrecognised("inlining depth exceeded at self.%s" % fn.attr)
                raise Unrecognised("self.%s is not a method of %s" % (fn.attr, self.K.name))
            # self.__class__(...)  handled below; self.__class__.from_x(...)
            if isinstance(v, ast.Attribute) and v.attr == "__class__" and isinstance(v.value, ast.Name) and v.value.id == fr.selfname:
                return self.make_new("factory:" + fn.attr, "self.__class__", call, fr, depth)
            recv = self.eval(v, fr, depth)
            args = tuple(self.eval(a, fr, depth) for a in call.args)
            kws, stars = kwargs_of(call)
            kwt = tuple(sorted((k, self.eval(x, fr, depth)) for k, x in kws.items()))
            if is_term(recv, "param") or (is_term(recv, "guard")):
                return ("objcall", recv, fn.attr, args, kwt)
            return ("methcall", recv, fn.attr, args, kwt)
        if isinstance(fn, ast.Attribute) is False and isinstance(fn, ast.Name):
            if fn.id == "cls" and fr.func.kind == "classmethod":
                return self.make_new("ctor", "cls", call, fr, depth)
            r = prog.resolve_name(fr.func.module, fn.id)
            if isinstance(r, ClassInfo):
                return self.make_new("ctor", r.name, call, fr, depth)
            args = tuple(self.eval(a, fr, depth) for a in call.args)
            if isinstance(r, FuncInfo):
                return ("call", r.qualname, args)
            return ("call", fn.id, args)
        raise Unrecognised("call not modelled: %s" % dump(call)[:80])

    def eval_external(self, d, call, fr, depth):
        kws, stars = kwargs_of(call)
        args = [self.eval(a, fr, depth) for a in call.args]
        kw = {k: self.eval(v, fr, depth) for k, v in kws.items()}
        short = d.split(".")[-1]
        if d.startswith("numpy.") and short in NP_PRIMS:
            axis = kw.get("axis")
            extra = {k: v for k, v in kws.items() if k not in ("axis", "a", "indices", "arr", "obj", "values", "arrays")}
            if "out" in extra:
                raise Unrecognised("numpy.%s(..., out=) not modelled" % short)
            if short == "take":      # take(a, indices, axis)
                src = args[0] if args else kw.get("a")
                idx = args[1] if len(args) > 1 else kw.get("indices")
                if axis is None and len(args) > 2:
                    axis = args[2]
                md = extra.get("mode")
                if md is not None and not (isinstance(md, ast.Constant) and md.value == "raise"):
                    # clip / wrap re-interpret the indices: no longer the index the sibling fields are taken with
                    idx = ("call", "take-mode:%s" % dump(md), (idx,))
                return ("np", "take", src, idx, None, axis)
            if short == "delete":    # delete(arr, obj, axis)
                src = args[0] if args else kw.get("arr")
                idx = args[1] if len(args) > 1 else kw.get("obj")
                if axis is None and len(args) > 2:
                    axis = args[2]
                return ("np", "delete", src, idx, None, axis)
            if short == "insert":    # insert(arr, obj, values, axis)
                src = args[0] if args else kw.get("arr")
                idx = args[1] if len(args) > 1 else kw.get("obj")
                vals = args[2] if len(args) > 2 else kw.get("values")
                if axis is None and len(args) > 3:
                    axis = args[3]
                return ("np", "insert", src, idx, vals, axis)
            if short == "append":    # append(arr, values, axis)
                src = args[0] if args else kw.get("arr")
                vals = args[1] if len(args) > 1 else kw.get("values")
                if axis is None and len(args) > 2:
                    axis = args[2]
                return ("np", "append", src, None, vals, axis)
            if short == "concatenate":
                src = args[0] if args else kw.get("arrays")
                if axis is None and len(args) > 1:
                    axis = args[1]
                return ("np", "concatenate", src, None, None, axis)
        if d in ("copy.copy", "copy.deepcopy"):
            return ("copy", short, args[0] if args else NONE)
        return ("call", d, tuple(args) + tuple(sorted(kw.items())))

    def make_new(self, how, cls_text, call, fr, depth):
        kws, stars = kwargs_of(call)
        kw = {}
        if call.args:
            # positional ctor args: bind through the concrete class's constructor parameters
            ps = self.prog.init_params(self.K) if how == "ctor" else []
            for p, a in zip(ps, call.args):
                kw[p] = self.eval(a, fr, depth)
            if len(call.args) > len(ps):
                raise Unrecognised("positional constructor arguments not modelled: %s" % dump(call)[:60])
        for k, v in kws.items():
            kw[k] = self.eval(v, fr, depth)
        rest = []
        for s in stars:
            t = self.eval(s, fr, depth)
            if is_term(t, "kwdict"):
                for k, v in t[1].items():
                    kw.setdefault(k, v)
                rest.extend(t[2])
            else:
                rest.append(t)
        o = NewObj(how, cls_text, kw, rest, call)
        self.objects[o.id] = o
        return ("new", o.id)

    def inline(self, callee, call, fr, depth, bound_self):
        if depth >= self.MAXDEPTH:
            raise Unrecognised("inlining depth exceeded at %s" % callee.qualname)
        a = callee.node.args
        params = [x.arg for x in a.posonlyargs + a.args + a.kwonlyargs]
        selfp = params[0] if params and callee.kind != "staticmethod" else None
        names = [p for p in params if p != selfp]
        env = {}
        # defaults
        pos = a.posonlyargs + a.args
        defaults = dict(zip([x.arg for x in pos[len(pos) - len(a.defaults):]], a.defaults))
        for x, dflt in zip(a.kwonlyargs, a.kw_defaults):
            if dflt is not None:
                defaults[x.arg] = dflt
        kws, stars = kwargs_of(call)
        extra = {}
        for p, arg in zip(names, call.args):
            env[p] = self.eval(arg, fr, depth)
        if len(call.args) > len(names):
            raise Unrecognised("too many positional arguments for %s" % callee.qualname)
        for k, v in kws.items():
            t = self.eval(v, fr, depth)
            if k in names:
                env[k] = t
            else:
                extra[k] = t
        rest = []
        for s in stars:
            t = self.eval(s, fr, depth)
            if is_term(t, "kwdict"):
                for k, v in t[1].items():
                    if k in names:
                        env.setdefault(k, v)
                    else:
                        extra.setdefault(k, v)
                rest.extend(t[2])
            else:
                rest.append(t)
        for p in names:
            if p not in env:
                if p in defaults:
                    sub = Frame(callee, self.K, {}, selfp)
                    env[p] = self.eval(defaults[p], sub, depth)
                else:
                    env[p] = ("missingarg", p)
        if a.kwarg is not None:
            env[a.kwarg.arg] = ("kwdict", extra, rest)
        elif extra:
            raise Unrecognised("%s receives unexpected keywords %s" % (callee.qualname, sorted(extra)))
        # self state is shared: copy self.* keys in, and back out afterwards
        for k, v in fr.env.items():
            if k.startswith("self."):
                env[k] = v
        sub = Frame(callee, self.K, env, selfp)
        self.inlined.append(callee)
        try:
            self.exec_block(body_nodoc(callee.node), sub, depth + 1, [])
        except Raised:
            raise
        for k, v in sub.env.items():
            if k.startswith("self."):
                fr.env[k] = v
        return sub.ret if sub.ret is not ABSENT else NONE


def _is_slice_none(e):
    return (isinstance(e, ast.Call) and isinstance(e.func, ast.Name) and e.func.id == "slice"
            and len(e.args) == 1 and is_none(e.args[0]))


def _and(conds):
    conds = [c for c in conds]
    if len(conds) == 1:
        return conds[0]
    return ("and", tuple(conds))


def mkguard(cond, a, b):
    """guard with the known-None simplification: in the branch where `X is None` holds, X reads as None"""
    if cond[0] == "notnone" and b == cond[1]:
        b = NONE
    if cond[0] == "isnone" and a == cond[1]:
        a = NONE
    if a == b:
        return a
    return ("guard", cond, a, b)


def map_leaves(t, fn):
    if is_term(t, "guard"):
        return ("guard", t[1], map_leaves(t[2], fn), map_leaves(t[3], fn))
    return fn(t)


def leaves(t):
    """all alternatives of a guarded term"""
    if is_term(t, "guard"):
        return leaves(t[2]) + leaves(t[3])
    return [t]


def leaves_with_conds(t, conds=()):
    if is_term(t, "guard"):
        return leaves_with_conds(t[2], conds + (t[1],)) + leaves_with_conds(t[3], conds + (("not", t[1]),))
    return [(t, conds)]


def term_str(t, depth=0):
    if not isinstance(t, tuple) or not t:
        return repr(t)
    k = t[0]
    if depth > 6:
        return "..."
    if k == "self":
        return "self.%s" % t[1]
    if k == "obj":
        return "%s.%s" % (t[1], t[2])
    if k == "param":
        return t[1]
    if k == "const":
        return repr(t[1])
    if k == "np":
        parts = [term_str(t[2], depth + 1)]
        if t[3] is not None:
            parts.append(term_str(t[3], depth + 1))
        if t[4] is not None:
            parts.append(term_str(t[4], depth + 1))
        parts.append("axis=%s" % (term_str(t[5], depth + 1) if t[5] is not None else "None"))
        return "%s(%s)" % (t[1], ", ".join(parts))
    if k == "guard":
        return "(%s if %s else %s)" % (term_str(t[2], depth + 1), cond_str(t[1]), term_str(t[3], depth + 1))
    if k == "listof":
        return "[m.%s for m in %s]" % (t[2], t[1])
    if k == "block":
        return "block(lo=%s, hi=%s, axes=%s)" % (term_str(t[1], depth + 1), term_str(t[2], depth + 1), term_str(t[3], depth + 1))
    if k == "new":
        return "<new#%d>" % t[1]
    if k == "selfcall":
        return "self.%s()" % t[1]
    if k == "objcall":
        return "%s.%s()" % (term_str(t[1], depth + 1), t[2])
    if k == "call":
        return "%s(%s)" % (t[1], ", ".join(term_str(x, depth + 1) if isinstance(x, tuple) and x and isinstance(x[0], str) and len(x) != 2 or (isinstance(x, tuple) and x and x[0] in ("self", "param", "const")) else "..." for x in t[2][:4]))
    if k == "copy":
        return "%s(%s)" % (t[1], term_str(t[2], depth + 1))
    if k == "absent":
        return "<absent>"
    if k == "opaque":
        return "<%s>" % t[1]
    if k == "kwdict":
        return "**{%s}" % ", ".join(sorted(t[1]))
    return "<%s>" % k


def cond_str(c):
    k = c[0]
    if k in ("isnone", "notnone"):
        return "%s is %sNone" % (term_str(c[1]), "" if k == "isnone" else "not ")
    if k == "isinst":
        return "isinstance(%s, %s)" % (term_str(c[1]), c[2])
    if k in ("and", "or"):
        return "(" + (" %s " % k).join(cond_str(x) for x in c[1]) + ")"
    if k == "not":
        return "not " + cond_str(c[1])
    if k == "callcond":
        return term_str(c[1])
    return "<cond>"
