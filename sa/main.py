"""
./check <property-id|all> [--tier quick|thorough] [--replay FILE]

exit 0  property held on everything analysed (KNOWN-FINDING lines allowed)
exit 1  VIOLATION property=<id> replay=<path>
exit 2  ANALYSIS-ERROR (anchor vanished, idiom unrecognised, engine failure) -- never a silent pass
"""
import importlib
import json
import os
import sys
import traceback

from .model import AnalysisError, load_program
from .report import Report

ALL = ["C%02d" % i for i in range(1, 21)]


def run_one(prop, tier, replay=None):
    seed = int(os.environ.get("VERIF_SEED", "0") or 0)
    rep = Report(prop, tier, seed)
    replay_key = None
    if replay is not None:
        with open(replay) as f:
            v = json.load(f)
        replay_key = (v["property"], v["rule"], v["construct"], v["detail"])
    try:
        mod = importlib.import_module("rules.%s" % prop.lower())
    except ModuleNotFoundError:
        print("ANALYSIS-ERROR property=%s no rule set implemented" % prop)
        return 2
    try:
        prog = load_program()
        if prog.parse_errors:
            for rel, e in prog.parse_errors:
                rep.unrec("parse", rel, "syntax error: %s" % e)
        mod.run(prog, rep, tier)
    except AnalysisError as e:
        rep.unrec("engine", "<anchor>", str(e))
    except Exception as e:  # engine defect: fail closed, never a VIOLATION
        tb = traceback.format_exc()
        sys.stderr.write(tb)
        last = tb.strip().splitlines()[-1]
        rep.unrec("engine", "<internal>", "internal error: %s" % last)
    return rep.finish(replay_key)


def main(argv):
    if not argv:
        print(__doc__)
        return 2
    prop = argv[0].upper()
    tier = os.environ.get("VERIF_TIER") or "quick"
    replay = None
    i = 1
    while i < len(argv):
        if argv[i] == "--tier":
            tier = os.environ.get("VERIF_TIER") or argv[i + 1]
            i += 2
        elif argv[i] == "--replay":
            replay = argv[i + 1]
            i += 2
        else:
            print("unknown argument %s" % argv[i])
            return 2
    if tier not in ("quick", "thorough"):
        print("unknown tier %s" % tier)
        return 2
    if prop == "ALL":
        worst = 0
        for p in ALL:
            rc = run_one(p, tier)
            worst = max(worst, rc) if rc != 1 and worst != 1 else 1
        return worst
    return run_one(prop, tier, replay)


if __name__ == "__main__":
    sys.exit(main(sys.argv[1:]))
