"""
Constructor forwarding (the KW rule of DESIGN §2.10 applied to constructor chains).

Every class in the package hands the options it is constructed with to its base constructor by name
(`super().__init__(nobj=nobj, obj_wt=obj_wt, ...)`, 194 resolvable calls on the reference tree, none of which deviates).  For an option `p` that the
class's `__init__` accepts and the next `__init__` along the class's MRO also accepts, two things break whatever the option stands for:

  cross-wired   the base parameter `k` receives the constructor's own parameter `v` (v != k) although the constructor has a parameter `k` of its own
                - the declared `k` is replaced by the declared `v`;
  dropped       `p` is not handed on and is not read anywhere else in the constructor - the base constructor's default silently replaces what was declared.

Both are decided on the resolved call (positional arguments are matched against the base signature, `super(X, self)` starts after X).  A call whose
target does not resolve, or that forwards through `*args` / a computed `**mapping`, is not judged (it is counted).
"""
import ast

from sa.astutil import dump, walk_no_nested, where


def _next_init(prog, c, base_call):
    mro = prog.mro(c)
    if mro is None:
        return None
    start = 1
    if base_call.args:
        nm = dump(base_call.args[0])
        for i, b in enumerate(mro):
            if getattr(b, "name", None) == nm:
                start = i + 1
    for b in mro[start:]:
        if hasattr(b, "methods") and "__init__" in b.methods:
            return b.methods["__init__"]
    return None


def super_init_calls(prog, prefixes, exclude=()):
    """(class, __init__ FuncInfo, call, base __init__ FuncInfo | None) for every super().__init__(...) call in the classes of the given module prefixes"""
    for m in sorted(prog.modules.values(), key=lambda m_: m_.name):
        if not any(m.name == p or m.name.startswith(p + ".") for p in prefixes) or any(m.name == p or m.name.startswith(p + ".") for p in exclude):
            continue
        for c in m.classes.values():
            f = c.methods.get("__init__")
            if f is None:
                continue
            for call in walk_no_nested(f.node):
                if (isinstance(call, ast.Call) and isinstance(call.func, ast.Attribute) and call.func.attr == "__init__" and isinstance(call.func.value, ast.Call)
                        and dump(call.func.value.func) == "super"):
                    yield c, f, call, _next_init(prog, c, call.func.value)


def check_super_init(prog, rep, rule, prefixes, what, exclude=()):
    """arm the two forwarding obligations on the constructors of `prefixes`; `what` says, for the report, what the options of these classes stand for"""
    n = 0
    for c, f, call, bf in super_init_calls(prog, prefixes, exclude):
        construct = f.qualname
        rep.saw(f)
        if bf is None:
            rep.extra.setdefault("ctor_unresolved", []).append(construct)
            continue
        params = [p for p in f.params() if p != "self"]
        bparams = [p for p in bf.params() if p != "self"]
        if any(isinstance(a, ast.Starred) for a in call.args):
            rep.extra.setdefault("ctor_unresolved", []).append(construct)
            continue
        bound = {}
        for i, a in enumerate(call.args):
            if i < len(bparams):
                bound[bparams[i]] = a
        opaque = False
        for k in call.keywords:
            if k.arg is None:
                if not (isinstance(k.value, ast.Name) and k.value.id == (f.node.args.kwarg.arg if f.node.args.kwarg else None)):
                    opaque = True
            else:
                bound[k.arg] = k.value
        n += 1
        good = True
        for k, v in bound.items():
            if isinstance(v, ast.Name) and v.id != k and v.id in params and k in params:
                rep.violate(rule, construct, "the base constructor's `%s` receives this constructor's `%s` although `%s` is itself an argument: the declared %s is replaced (%s)"
                            % (k, v.id, k, k, what), where(f, call), "%s=%s" % (k, k), "%s=%s" % (k, v.id))
                good = False
        if not opaque:
            for p in params:
                if p in bparams and p not in bound and p != (f.node.args.kwarg.arg if f.node.args.kwarg else None):
                    reads = sum(1 for x in walk_no_nested(f.node) if isinstance(x, ast.Name) and x.id == p and isinstance(x.ctx, ast.Load))
                    if reads == 0:
                        rep.violate(rule, construct, "`%s` is accepted but neither handed to the base constructor nor used: the base default silently replaces the declared value (%s)"
                                    % (p, what), where(f, call), "%s=%s" % (p, p), "absent")
                        good = False
        else:
            rep.unrec(rule, construct, "base constructor called with a computed ** mapping")
            good = False
        if good:
            rep.ok(rule, construct, "every option shared with the base constructor is handed on under its own name (%d arguments)" % len(bound))
    return n


def resolve_call(prog, m, cls, call):
    """(callee FuncInfo, number of receiver parameters to skip) for calls of module functions, constructors `K(...)`, `self.` / `cls.` methods and
    `K.method(...)` on a class of the package; (None, 0) otherwise"""
    from sa.model import FuncInfo, ClassInfo
    fn = call.func
    try:
        if isinstance(fn, ast.Name):
            t = prog.resolve_name(m, fn.id)
            if isinstance(t, FuncInfo):
                return t, 0
            if isinstance(t, ClassInfo) and prog.mro(t) is not None:
                i = prog.lookup_method(t, "__init__")
                if isinstance(i, FuncInfo):
                    return i, 1
        elif isinstance(fn, ast.Attribute):
            if isinstance(fn.value, ast.Name) and fn.value.id in ("self", "cls") and cls is not None and prog.mro(cls) is not None:
                t = prog.lookup_method(cls, fn.attr)
                if isinstance(t, FuncInfo):
                    return t, (0 if t.kind == "staticmethod" else 1)
            elif isinstance(fn.value, ast.Name):
                t = prog.resolve_name(m, fn.value.id)
                if isinstance(t, ClassInfo) and prog.mro(t) is not None:
                    g = prog.lookup_method(t, fn.attr)
                    if isinstance(g, FuncInfo):
                        return g, (1 if g.kind == "classmethod" else 0)
    except Exception:
        pass
    return None, 0


# the five calls of the reference tree in which one variable legitimately fills its own slot and another one (module, slot, variable): reason
DUPFEED_OK = {
    ("pybrops.breed.prot.mate.SelfCross", "msel", "fsel"),                                   # selfing: the male parent IS the female parent
    ("pybrops.breed.prot.sel.RandomSelection", "ndecn", "ntaxa"),                             # one decision variable per taxon
    ("pybrops.breed.prot.sel.prob.OptimalHaploidValueSelectionProblem", "start", "step"),     # chunk stops begin one step in: srange(step, stop, step)
}


def _attr_of(e):
    """(object text, attribute name without leading underscore) of `o.a`, `copy.copy(o.a)`, `copy.deepcopy(o.a, memo)`"""
    if isinstance(e, ast.Call) and dump(e.func) in ("copy.copy", "copy.deepcopy") and e.args:
        e = e.args[0]
    if isinstance(e, ast.Attribute):
        return dump(e.value), e.attr.lstrip("_")
    return None


def _in(name, prefixes):
    return any(name == p or name.startswith(p + ".") for p in prefixes)


def check_argument_exchange(prog, rep, rule, prefixes, exclude=()):
    """No call may bind two parameters of its (resolved) callee to each other's names: `f(a=b, b=a)`, or positionally `f(x, b, a)` for `def f(x, a, b)`.
    On the reference tree 3454 calls resolve and none does; the names are the only documentation of the roles, so an exchange hands each value to the
    other's role.  In scope: calls made in, or to, the modules of `prefixes`."""
    n = 0
    calls = getattr(prog, "_ctx_calls", None)
    if calls is None:
        calls = prog._ctx_calls = prog._calls_with_context()
    encl = {}
    for m, cls, call in calls:
        callee, skip = resolve_call(prog, m, cls, call)
        if callee is None or any(isinstance(a, ast.Starred) for a in call.args):
            # unresolved callee (a method of a local object, `out.__init__(...)`): only its keywords name roles
            if not _in(m.name, prefixes) or _in(m.name, exclude) or len([k for k in call.keywords if k.arg]) < 2:
                continue
            callee = None
            pn = []
            allp = {k.arg for k in call.keywords if k.arg}
        else:
            if not (_in(m.name, prefixes) or _in(callee.module.name, prefixes)) or _in(m.name, exclude):
                continue
            pn = [a.arg for a in callee.node.args.args][skip:]
            allp = set(pn) | {a.arg for a in callee.node.args.kwonlyargs}
        bound = {}
        for i, a in enumerate(call.args):
            if i < len(pn):
                bound[pn[i]] = a
        for k in call.keywords:
            if k.arg:
                bound[k.arg] = k.value
        if len(bound) < 2:
            continue
        n += 1
        bad = None
        dup = None
        for k, v in bound.items():
            if isinstance(v, ast.Name) and v.id != k and isinstance(bound.get(v.id), ast.Name) and bound[v.id].id == v.id and (m.name, k, v.id) not in DUPFEED_OK:
                dup = (k, v.id)
                break
        if dup is None:
            # the same two obligations when the values are attributes of one object (`taxa=g.taxa_grp, taxa_grp=g.taxa_grp` / `a=o.b, b=o.a`), also under copy.copy / deepcopy
            for k, v in bound.items():
                a = _attr_of(v)
                if a and a[1] != k.lstrip("_"):
                    aw = _attr_of(bound[a[1]]) if a[1] in bound else None
                    if aw and aw[0] == a[0] and aw[1] in (a[1], k.lstrip("_")) and (m.name, k, a[1]) not in DUPFEED_OK:
                        dup = (k, "%s.%s" % a)
                        break
        if dup:
            owner = _enclosing(prog, m, call)
            rep.violate(rule, "%s -> %s" % (owner, callee.qualname.split(":")[-1] if callee is not None else dump(call.func)), "the callee's `%s` receives `%s`, which also fills its own slot in the same call (or the two are exchanged): one value "
                        "stands in two roles and whatever belonged in `%s` is lost" % (dup[0], dup[1], dup[0]), "%s:%d" % (m.relpath, getattr(call, "lineno", 0)),
                        "%s=%s" % (dup[0], dup[0]), "%s=%s" % (dup[0], dup[1]))
            continue
        for k, v in bound.items():
            if isinstance(v, ast.Name) and v.id != k and v.id in allp:
                w = bound.get(v.id)
                if isinstance(w, ast.Name) and w.id != v.id and w.id in allp:
                    bad = (k, v.id, w.id)
                    break
        # the construct is the calling function (found lazily: only needed for reports)
        if bad:
            owner = _enclosing(prog, m, call)
            rep.violate(rule, "%s -> %s" % (owner, callee.qualname.split(":")[-1] if callee is not None else dump(call.func)), "the callee's `%s` receives `%s` while its `%s` receives `%s`: the two arguments are exchanged"
                        % (bad[0], bad[1], bad[1], bad[2]), "%s:%d" % (m.relpath, getattr(call, "lineno", 0)), "%s=%s" % (bad[0], bad[0]), "%s=%s" % (bad[0], bad[1]))
        else:
            rep.ok(rule, "%s:%s#%d" % (m.name, callee.qualname.split(":")[-1] if callee is not None else dump(call.func), n), "no two parameters bound to each other's names, none fed twice")
    return n


def _enclosing(prog, m, call):
    best = None
    for node in ast.walk(m.tree):
        if isinstance(node, (ast.FunctionDef, ast.AsyncFunctionDef)) and node.lineno <= getattr(call, "lineno", 0) <= (node.end_lineno or node.lineno):
            if any(x is call for x in ast.walk(node)):
                if best is None or node.lineno >= best.lineno:
                    best = node
    if best is None:
        return m.name
    for c in m.classes.values():
        for f in list(c.methods.values()) + [g for pr in c.own_props.values() for g in (pr.getter, pr.setter) if g is not None]:
            if f.node is best:
                return f.qualname
    for f in m.functions.values():
        if f.node is best:
            return f.qualname
    return "%s:%s" % (m.name, best.name)


WIRING = {
    # property: (module prefixes, excluded prefixes, what the constructor options of these classes stand for)
    "C01": (["pybrops.breed.prot.mate", "pybrops.core.util.mate"], [], "parent selections, counts and generator of the mating protocol"),
    "C03": (["pybrops.core.mat", "pybrops.popgen.gmat", "pybrops.breed.prot.gt"], [], "data and label arrays of the matrix"),
    "C04": (["pybrops.model.gmod"], [], "coefficients, trait names and parameters of the genomic model"),
    "C05": (["pybrops.breed.prot.sel.prob"], [], "objective / constraint weights, transformations and their keyword arguments of the problem"),
    "C06": (["pybrops.opt"], [], "decision space, bounds, objective and constraint weights / transformations of the problem"),
    "C07": (["pybrops.breed.prot.sel"], ["pybrops.breed.prot.sel.prob"], "cross shape, objective / constraint / non-dominated-set preferences of the protocol"),
    "C11": (["pybrops.popgen.gmap"], [], "positions and labels of the genetic map"),
    "C12": (["pybrops.model.vmat"], [], "matrix, labels and trait names of the variance matrix"),
    "C13": (["pybrops.popgen.cmat"], [], "matrix, marker weights, allele frequencies and taxa labels of the relationship matrix"),
    "C14": (["pybrops.breed.prot.pt", "pybrops.breed.prot.bv"], [], "model, variances and generator of the phenotyping / estimation protocol"),
    "C15": (["pybrops.popgen.bvmat", "pybrops.core.mat.DenseScaledMatrix"], [], "values, location, scale and labels of the breeding-value matrix"),
    "C20": (["pybrops.breed.arch", "pybrops.breed.op"], [], "operators and start state of the breeding programme"),
}


def wire(prog, rep, prop, floor_forward, floor_argorder):
    """arm the two constructor-forwarding obligations (RW-forward) and the argument-exchange obligation (RW-argorder) on the modules a property owns"""
    prefixes, exclude, what = WIRING[prop]
    if getattr(rep, "only_rules", None):
        rep.only_rules = set(rep.only_rules) | {"RW-forward", "RW-argorder"}
    rep.floor("RW-forward", floor_forward)
    rep.floor("RW-argorder", floor_argorder)
    nf = check_super_init(prog, rep, "RW-forward", prefixes, what, exclude)
    na = check_argument_exchange(prog, rep, "RW-argorder", prefixes, exclude)
    rep.extra["wiring"] = {"super_init_calls": nf, "calls_with_two_or_more_bound_parameters": na}
