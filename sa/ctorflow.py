"""
Constructor forwarding (the KW rule of DESIGN §2.10 applied to constructor chains).

Every class in the package hands the options it is constructed with to its base constructor by name
(`super().__init__(nobj=nobj, obj_wt=obj_wt, ...)`, 194 resolvable calls on the reference tree, none of which deviates).  For an option `p` that the
class's `__init__` accepts and the next `__init__` along the class's MRO also accepts, two things break whatever the option stands for:

  cross-wired   the base parameter `k` receives the constructor's own parameter `v` (v != k) although the constructor has a parameter `k` of its own
                - the declared `k` is replaced by the declared `v`;
  dropped       `p` is not handed on and is not read anywhere else in the constructor - the base constructor's default silently replaces what was declared.

Both are decided on the resolved call (positional arguments are matched against the base signature, `super(X, self)` starts after X).  A call whose
target does not resolve, or that forwards through `*args` / a computed `**mapping`, is not judged (it is counted).
"""
import ast

from sa.astutil import dump, walk_no_nested, where


def _next_init(prog, c, base_call):
    mro = prog.mro(c)
    if mro is None:
        return None
    start = 1
    if base_call.args:
        nm = dump(base_call.args[0])
        for i, b in enumerate(mro):
            if getattr(b, "name", None) == nm:
                start = i + 1
    for b in mro[start:]:
        if hasattr(b, "methods") and "__init__" in b.methods:
            return b.methods["__init__"]
    return None


def super_init_calls(prog, prefixes, exclude=()):
    """(class, __init__ FuncInfo, call, base __init__ FuncInfo | None) for every super().__init__(...) call in the classes of the given module prefixes"""
    for m in sorted(prog.modules.values(), key=lambda m_: m_.name):
        if not any(m.name == p or m.name.startswith(p + ".") for p in prefixes) or any(m.name == p or m.name.startswith(p + ".") for p in exclude):
            continue
        for c in m.classes.values():
            f = c.methods.get("__init__")
            if f is None:
                continue
            for call in walk_no_nested(f.node):
                if (isinstance(call, ast.Call) and isinstance(call.func, ast.Attribute) and call.func.attr == "__init__" and isinstance(call.func.value, ast.Call)
                        and dump(call.func.value.func) == "super"):
                    yield c, f, call, _next_init(prog, c, call.func.value)


def check_super_init(prog, rep, rule, prefixes, what, exclude=()):
    """arm the two forwarding obligations on the constructors of `prefixes`; `what` says, for the report, what the options of these classes stand for"""
    n = 0
    for c, f, call, bf in super_init_calls(prog, prefixes, exclude):
        construct = f.qualname
        rep.saw(f)
        if bf is None:
            rep.extra.setdefault("ctor_unresolved", []).append(construct)
            continue
        params = [p for p in f.params() if p != "self"]
        bparams = [p for p in bf.params() if p != "self"]
        if any(isinstance(a, ast.Starred) for a in call.args):
            rep.extra.setdefault("ctor_unresolved", []).append(construct)
            continue
        bound = {}
        for i, a in enumerate(call.args):
            if i < len(bparams):
                bound[bparams[i]] = a
        opaque = False
        for k in call.keywords:
            if k.arg is None:
                if not (isinstance(k.value, ast.Name) and k.value.id == (f.node.args.kwarg.arg if f.node.args.kwarg else None)):
                    opaque = True
            else:
                bound[k.arg] = k.value
        n += 1
        good = True
        for k, v in bound.items():
            if isinstance(v, ast.Name) and v.id != k and v.id in params and k in params:
                rep.violate(rule, construct, "the base constructor's `%s` receives this constructor's `%s` although `%s` is itself an argument: the declared %s is replaced (%s)"
                            % (k, v.id, k, k, what), where(f, call), "%s=%s" % (k, k), "%s=%s" % (k, v.id))
                good = False
        if not opaque:
            for p in params:
                if p in bparams and p not in bound and p != (f.node.args.kwarg.arg if f.node.args.kwarg else None):
                    reads = sum(1 for x in walk_no_nested(f.node) if isinstance(x, ast.Name) and x.id == p and isinstance(x.ctx, ast.Load))
                    if reads == 0:
                        rep.violate(rule, construct, "`%s` is accepted but neither handed to the base constructor nor used: the base default silently replaces the declared value (%s)"
                                    % (p, what), where(f, call), "%s=%s" % (p, p), "absent")
                        good = False
        else:
            rep.unrec(rule, construct, "base constructor called with a computed ** mapping")
            good = False
        if good:
            rep.ok(rule, construct, "every option shared with the base constructor is handed on under its own name (%d arguments)" % len(bound))
    return n


def resolve_call(prog, m, cls, call):
    """(callee FuncInfo, number of receiver parameters to skip) for calls of module functions, constructors `K(...)`, `self.` / `cls.` methods and
    `K.method(...)` on a class of the package; (None, 0) otherwise"""
    from sa.model import FuncInfo, ClassInfo
    fn = call.func
    try:
        if isinstance(fn, ast.Name):
            t = prog.resolve_name(m, fn.id)
            if isinstance(t, FuncInfo):
                return t, 0
            if isinstance(t, ClassInfo) and prog.mro(t) is not None:
                i = prog.lookup_method(t, "__init__")
                if isinstance(i, FuncInfo):
                    return i, 1
        elif isinstance(fn, ast.Attribute):
            if isinstance(fn.value, ast.Name) and fn.value.id in ("self", "cls") and cls is not None and prog.mro(cls) is not None:
                t = prog.lookup_method(cls, fn.attr)
                if isinstance(t, FuncInfo):
                    return t, (0 if t.kind == "staticmethod" else 1)
            elif isinstance(fn.value, ast.Name):
                t = prog.resolve_name(m, fn.value.id)
                if isinstance(t, ClassInfo) and prog.mro(t) is not None:
                    g = prog.lookup_method(t, fn.attr)
                    if isinstance(g, FuncInfo):
                        return g, (1 if g.kind == "classmethod" else 0)
    except Exception:
        pass
    return None, 0


# the five calls of the reference tree in which one variable legitimately fills its own slot and another one (module, slot, variable): reason
DUPFEED_OK = {
    ("pybrops.breed.prot.mate.SelfCross", "msel", "fsel"),                                   # selfing: the male parent IS the female parent
    ("pybrops.breed.prot.sel.RandomSelection", "ndecn", "ntaxa"),                             # one decision variable per taxon
    ("pybrops.breed.prot.sel.prob.OptimalHaploidValueSelectionProblem", "start", "step"),     # chunk stops begin one step in: srange(step, stop, step)
}


def _attr_of(e):
    """(object text, attribute name without leading underscore) of `o.a`, `copy.copy(o.a)`, `copy.deepcopy(o.a, memo)`"""
    if isinstance(e, ast.Call) and dump(e.func) in ("copy.copy", "copy.deepcopy") and e.args:
        e = e.args[0]
    if isinstance(e, ast.Attribute):
        return dump(e.value), e.attr.lstrip("_")
    return None


def _in(name, prefixes):
    return any(name == p or name.startswith(p + ".") for p in prefixes)


def check_argument_exchange(prog, rep, rule, prefixes, exclude=()):
    """No call may bind two parameters of its (resolved) callee to each other's names: `f(a=b, b=a)`, or positionally `f(x, b, a)` for `def f(x, a, b)`.
    On the reference tree 3454 calls resolve and none does; the names are the only documentation of the roles, so an exchange hands each value to the
    other's role.  In scope: calls made in, or to, the modules of `prefixes`."""
    n = 0
    calls = getattr(prog, "_ctx_calls", None)
    if calls is None:
        calls = prog._ctx_calls = prog._calls_with_context()
    encl = {}
    for m, cls, call in calls:
        callee, skip = resolve_call(prog, m, cls, call)
        if callee is None or any(isinstance(a, ast.Starred) for a in call.args):
            # unresolved callee (a method of a local object, `out.__init__(...)`): only its keywords name roles
            if not _in(m.name, prefixes) or _in(m.name, exclude) or len([k for k in call.keywords if k.arg]) < 2:
                continue
            callee = None
            pn = []
            allp = {k.arg for k in call.keywords if k.arg}
        else:
            if not (_in(m.name, prefixes) or _in(callee.module.name, prefixes)) or _in(m.name, exclude):
                continue
            pn = [a.arg for a in callee.node.args.args][skip:]
            allp = set(pn) | {a.arg for a in callee.node.args.kwonlyargs}
        bound = {}
        for i, a in enumerate(call.args):
            if i < len(pn):
                bound[pn[i]] = a
        for k in call.keywords:
            if k.arg:
                bound[k.arg] = k.value
        if callee is not None and callee.node.args.kwarg is not None:
            # a keyword the callee has no parameter for disappears into its **kwargs: when its value is named like a parameter the callee does have, and that parameter
            # is left unbound, the value was meant for that parameter (`afreq = p_anc` handed to `from_gmat(gmat, p_anc=None, **kwargs)`)
            lost = [(k, v.id) for k, v in bound.items() if k not in allp and isinstance(v, ast.Name) and v.id in allp and v.id not in bound]
            if lost:
                owner = _enclosing(prog, m, call)
                rep.violate(rule, "%s -> %s" % (owner, callee.qualname.split(":")[-1]), "`%s` is handed over as keyword `%s`, which the callee does not have (it disappears into **%s) "
                            "while the callee's own `%s` is left at its default" % (lost[0][1], lost[0][0], callee.node.args.kwarg.arg, lost[0][1]),
                            "%s:%d" % (m.relpath, getattr(call, "lineno", 0)), "%s=%s" % (lost[0][1], lost[0][1]), "%s=%s" % lost[0])
                n += 1
                continue
        if len(bound) < 2:
            continue
        n += 1
        bad = None
        dup = None
        for k, v in bound.items():
            if isinstance(v, ast.Name) and v.id != k and isinstance(bound.get(v.id), ast.Name) and bound[v.id].id == v.id and (m.name, k, v.id) not in DUPFEED_OK:
                dup = (k, v.id)
                break
        if dup is None:
            # the same two obligations when the values are attributes of one object (`taxa=g.taxa_grp, taxa_grp=g.taxa_grp` / `a=o.b, b=o.a`), also under copy.copy / deepcopy
            for k, v in bound.items():
                a = _attr_of(v)
                if a and a[1] != k.lstrip("_"):
                    aw = _attr_of(bound[a[1]]) if a[1] in bound else None
                    if aw and aw[0] == a[0] and aw[1] in (a[1], k.lstrip("_")) and (m.name, k, a[1]) not in DUPFEED_OK:
                        dup = (k, "%s.%s" % a)
                        break
        if dup:
            owner = _enclosing(prog, m, call)
            rep.violate(rule, "%s -> %s" % (owner, callee.qualname.split(":")[-1] if callee is not None else dump(call.func)), "the callee's `%s` receives `%s`, which also fills its own slot in the same call (or the two are exchanged): one value "
                        "stands in two roles and whatever belonged in `%s` is lost" % (dup[0], dup[1], dup[0]), "%s:%d" % (m.relpath, getattr(call, "lineno", 0)),
                        "%s=%s" % (dup[0], dup[0]), "%s=%s" % (dup[0], dup[1]))
            continue
        for k, v in bound.items():
            if isinstance(v, ast.Name) and v.id != k and v.id in allp:
                w = bound.get(v.id)
                if isinstance(w, ast.Name) and w.id != v.id and w.id in allp:
                    bad = (k, v.id, w.id)
                    break
        # the construct is the calling function (found lazily: only needed for reports)
        if bad:
            owner = _enclosing(prog, m, call)
            rep.violate(rule, "%s -> %s" % (owner, callee.qualname.split(":")[-1] if callee is not None else dump(call.func)), "the callee's `%s` receives `%s` while its `%s` receives `%s`: the two arguments are exchanged"
                        % (bad[0], bad[1], bad[1], bad[2]), "%s:%d" % (m.relpath, getattr(call, "lineno", 0)), "%s=%s" % (bad[0], bad[0]), "%s=%s" % (bad[0], bad[1]))
        else:
            rep.ok(rule, "%s:%s#%d" % (m.name, callee.qualname.split(":")[-1] if callee is not None else dump(call.func), n), "no two parameters bound to each other's names, none fed twice")
    return n


def _enclosing(prog, m, call):
    best = None
    for node in ast.walk(m.tree):
        if isinstance(node, (ast.FunctionDef, ast.AsyncFunctionDef)) and node.lineno <= getattr(call, "lineno", 0) <= (node.end_lineno or node.lineno):
            if any(x is call for x in ast.walk(node)):
                if best is None or node.lineno >= best.lineno:
                    best = node
    if best is None:
        return m.name
    for c in m.classes.values():
        for f in list(c.methods.values()) + [g for pr in c.own_props.values() for g in (pr.getter, pr.setter) if g is not None]:
            if f.node is best:
                return f.qualname
    for f in m.functions.values():
        if f.node is best:
            return f.qualname
    return "%s:%s" % (m.name, best.name)


def check_dropped_forward(prog, rep, rule, prefixes, exclude=()):
    """The `dropped` obligation of constructor forwarding at every other resolved call: a function that hands at least two of its own parameters to a callee under their
    own names (`g(a=a, b=b)`) and has a further parameter `q` that the callee also accepts hands `q` on as well, or reads it itself - a parameter that is accepted,
    never read and not handed on means the callee's default silently replaces what the caller declared."""
    import collections
    n = 0
    for m in sorted(prog.modules.values(), key=lambda m_: m_.name):
        if not _in(m.name, prefixes) or _in(m.name, exclude):
            continue
        funcs = [(c, f) for c in m.classes.values() for f in c.methods.values()] + [(None, f) for f in m.functions.values()]
        for c, f in funcs:
            if f.name == "__init__":
                continue        # constructor chains are judged by check_super_init
            params = [p_ for p_ in f.params() if p_ not in ("self", "cls")]
            if len(params) < 3:
                continue
            reads = collections.Counter(x.id for x in ast.walk(f.node) if isinstance(x, ast.Name) and isinstance(x.ctx, ast.Load))
            for call in walk_no_nested(f.node):
                if not isinstance(call, ast.Call):
                    continue
                callee, skip = resolve_call(prog, m, c, call)
                if callee is None or any(isinstance(a, ast.Starred) for a in call.args):
                    continue
                pn = [a.arg for a in callee.node.args.args][skip:]
                allp = set(pn) | {a.arg for a in callee.node.args.kwonlyargs}
                bound = {}
                for i, a in enumerate(call.args):
                    if i < len(pn):
                        bound[pn[i]] = a
                for kw in call.keywords:
                    if kw.arg:
                        bound[kw.arg] = kw.value
                same = [k for k, v in bound.items() if isinstance(v, ast.Name) and v.id == k and k in params]
                if len(same) < 2:
                    continue
                n += 1
                rep.saw(f)
                construct = "%s -> %s" % (f.qualname, callee.qualname.split(":")[-1])
                lost = [q for q in params if reads[q] == 0 and q in allp and q not in bound]
                if lost:
                    rep.violate(rule, construct, "`%s` is accepted and the callee has a parameter of that name, but it is neither handed on nor read: the callee's default silently "
                                "replaces the declared value" % lost[0], where(f, call), "%s=%s" % (lost[0], lost[0]), "absent")
                else:
                    rep.ok(rule, construct + "#%d" % getattr(call, "lineno", 0), "%d parameters handed on under their own names, none left behind" % len(same))
    return n


def check_properties(prog, rep, rule, prefixes, exclude=()):
    """RW-property: a property reads what it writes.  (1) A getter that is `return self._a` and a setter that stores `self._b = ...` on the same (resolved) property
    have a == b (387 pairs on the reference tree, none deviates).  (2) A function decorated `@<Base>.<p>.setter` / `.getter` is itself named <p>: Python binds the new
    property object to the FUNCTION's name, so another name silently creates a property that reads through p's getter and writes elsewhere."""
    from sa.model import body_nodoc
    n = 0
    for m in sorted(prog.modules.values(), key=lambda m_: m_.name):
        if not _in(m.name, prefixes) or _in(m.name, exclude):
            continue
        for c in m.classes.values():
            for st in c.node.body:
                if not isinstance(st, (ast.FunctionDef, ast.AsyncFunctionDef)):
                    continue
                for d in st.decorator_list:
                    if isinstance(d, ast.Attribute) and d.attr in ("setter", "getter", "deleter") and isinstance(d.value, (ast.Attribute, ast.Name)):
                        pname = d.value.attr if isinstance(d.value, ast.Attribute) else d.value.id
                        n += 1
                        construct = "%s.%s#%s" % (c.qualname, st.name, d.attr)
                        if pname != st.name:
                            rep.violate(rule, construct, "the %s is declared on property `%s` (%s) but the function is named `%s`: the class attribute `%s` becomes a property that "
                                        "keeps `%s`'s other accessor - it reads and writes different storage" % (d.attr, pname, dump(d), st.name, st.name, pname),
                                        "%s:%d" % (m.relpath, st.lineno), "@%s.%s.%s" % (dump(d.value).rsplit(".", 1)[0] if isinstance(d.value, ast.Attribute) else "", st.name, d.attr), dump(d))
                        else:
                            rep.ok(rule, construct, "accessor declared on the property of its own name")
            for name in sorted(c.own_props):
                if prog.mro(c) is None:
                    continue
                P = prog.lookup_prop(c, name)
                if P is None or P.getter is None or P.setter is None:
                    continue
                gb = body_nodoc(P.getter.node)
                if not (len(gb) == 1 and isinstance(gb[0], ast.Return) and isinstance(gb[0].value, ast.Attribute) and dump(gb[0].value.value) == "self"):
                    continue
                ga = gb[0].value.attr
                stores = {t.attr for st in walk_no_nested(P.setter.node) if isinstance(st, ast.Assign) for t in st.targets if isinstance(t, ast.Attribute) and dump(t.value) == "self"}
                if not stores:
                    continue
                n += 1
                rep.saw(P.getter)
                construct = "%s.%s" % (c.qualname, name)
                if ga not in stores:
                    rep.violate(rule, construct, "the getter returns self.%s but the setter stores %s: what is read back is not what was stored" % (ga, ", ".join("self." + x for x in sorted(stores))),
                                where(P.getter, gb[0]), "return self.%s" % sorted(stores)[0], "return self.%s" % ga)
                else:
                    rep.ok(rule, construct, "getter returns the attribute the setter stores (self.%s)" % ga)
    return n


# words that distinguish the members of one family of sibling classes
FAMILY_WORDS = [("Binary", "Integer", "Real", "Subset"), ("TwoWay", "ThreeWay", "FourWay", "Dihybrid"), ("Genetic", "Genic"), ("Haldane", "Kosambi"),
                ("Molecular", "VanRaden", "Yang", "GeneralizedWeighted")]


def _through_alias(f, v, depth=0):
    """a local that is bound once, to a plain name or attribute, stands for that name (`weights = mkrwt ; g(mkrwt=weights)` hands on mkrwt)"""
    if depth > 3 or not isinstance(v, ast.Name) or v.id in f.params():
        return v
    defs = [st.value for st in walk_no_nested(f.node) if isinstance(st, ast.Assign) and len(st.targets) == 1 and isinstance(st.targets[0], ast.Name) and st.targets[0].id == v.id]
    other = [1 for st in walk_no_nested(f.node) if isinstance(st, (ast.AugAssign, ast.For, ast.With)) and any(isinstance(x, ast.Name) and x.id == v.id and isinstance(x.ctx, ast.Store) for x in ast.walk(st))]
    if len(defs) == 1 and not other and isinstance(defs[0], (ast.Name, ast.Attribute)):
        return _through_alias(f, defs[0], depth + 1)
    return v


def check_family(prog, rep, rule, prefixes, exclude=()):
    """RW-family, two obligations on families of sibling classes (the Binary / Integer / Real / Subset variants of one protocol or problem, the two-/three-/four-way
    variance matrices and their factories, ...):
      own family    a member that constructs, or calls a `from_*` factory of, a class of a sibling family constructs its OWN counterpart (the dihybrid factory builds
                    the dihybrid matrix) - 138 such references on the reference tree, none crosses;
      same wiring   where the other members of a family hand a parameter on under its own name (`gmat = gmat`, `ebv = ebv`) in the same call of the same method, every
                    member does - 27 families, none deviates."""
    import collections
    allnames = {c.name for m in prog.modules.values() for c in m.classes.values()}
    n = 0
    mods = [m for m in sorted(prog.modules.values(), key=lambda m_: m_.name) if _in(m.name, prefixes) and not _in(m.name, exclude)]
    for m in mods:
        for c in m.classes.values():
            for S in FAMILY_WORDS:
                mine = [e for e in S if e in c.name]
                if len(mine) != 1:
                    continue
                e = mine[0]
                for f in c.methods.values():
                    for x in walk_no_nested(f.node):
                        tgt = None
                        if isinstance(x, ast.Call) and isinstance(x.func, ast.Name):
                            tgt = x.func.id
                        elif isinstance(x, ast.Call) and isinstance(x.func, ast.Attribute) and isinstance(x.func.value, ast.Name) and x.func.attr.startswith("from_"):
                            tgt = x.func.value.id
                        if tgt is None or tgt not in allnames or tgt == c.name:
                            continue
                        words = [e2 for e2 in S if e2 in tgt]
                        if len(words) != 1:
                            continue
                        n += 1
                        rep.saw(f)
                        construct = "%s -> %s" % (f.qualname, tgt)
                        if words[0] != e and tgt.replace(words[0], e, 1) in allnames:
                            rep.violate(rule, construct, "the %s member of the family builds / dispatches to the %s counterpart %s although %s exists: the result is computed by the "
                                        "sibling design's routine" % (e, words[0], tgt, tgt.replace(words[0], e, 1)), where(f, x), tgt.replace(words[0], e, 1), tgt)
                        else:
                            rep.ok(rule, construct, "own-family counterpart")
    # same wiring among the encoding variants
    ENC = FAMILY_WORDS[0]
    for m in mods:
        fam = collections.defaultdict(dict)
        for c in m.classes.values():
            for e in ENC:
                if e in c.name:
                    fam[c.name.replace(e, "#", 1)][e] = c
                    break
        for k, members in sorted(fam.items()):
            if len(members) < 3:
                continue
            meths = set.intersection(*[set(c.methods) for c in members.values()])
            for mn in sorted(meths):
                table = {}
                for e, c in members.items():
                    f = c.methods[mn]
                    cnt = collections.Counter()
                    for call in walk_no_nested(f.node):
                        if not isinstance(call, ast.Call) or (not call.keywords and len(call.args) < 2):
                            continue
                        ft = dump(call.func)
                        for e2 in ENC:
                            ft = ft.replace(e2, "#")
                        cnt[ft] += 1
                        callee, skip = resolve_call(prog, m, c, call)
                        bound = {}
                        if callee is not None and not any(isinstance(a, ast.Starred) for a in call.args):
                            pn = [a.arg for a in callee.node.args.args][skip:]
                            for i, a in enumerate(call.args):
                                if i < len(pn):
                                    bound[pn[i]] = a
                        for kw in call.keywords:
                            if kw.arg:
                                bound[kw.arg] = kw.value
                        table.setdefault((ft, cnt[ft]), {})[e] = (f, call, {p_: dump(_through_alias(f, v)) for p_, v in bound.items()})
                for key, per in sorted(table.items()):
                    if len(per) < 3:
                        continue
                    params = set().union(*[set(d[2]) for d in per.values()])
                    for p_ in sorted(params):
                        vals = {e: per[e][2].get(p_) for e in per}
                        cnts = collections.Counter(vals.values()).most_common()
                        own = {p_, "self." + p_, "self._" + p_}
                        if cnts[0][0] not in own or cnts[0][1] < 2:
                            continue
                        n += 1
                        odd = [e for e, v in vals.items() if v != cnts[0][0]]
                        construct = "%s.%s -> %s [%s]" % (k, mn, key[0][:60], p_)
                        if len(cnts) == 2 and len(odd) == 1 and vals[odd[0]] is not None:      # (None: handed over positionally to a callee that does not resolve - not judged)
                            f_, call_, _ = per[odd[0]]
                            rep.saw(f_)
                            rep.violate(rule, construct, "the %s variant hands `%s` to `%s` where the other %d variants of the family hand on %s: the variant computes on other data than "
                                        "its siblings and than its own documentation" % (odd[0], vals[odd[0]], p_, cnts[0][1], cnts[0][0]),
                                        "%s:%d" % (m.relpath, getattr(call_, "lineno", 0)), "%s=%s" % (p_, cnts[0][0]), "%s=%s" % (p_, vals[odd[0]]))
                        elif not odd:
                            rep.ok(rule, construct, "all %d variants hand on %s" % (len(per), cnts[0][0]))
    return n


WIRING = {
    # property: (module prefixes, excluded prefixes, what the constructor options of these classes stand for)
    "C01": (["pybrops.breed.prot.mate", "pybrops.core.util.mate"], [], "parent selections, counts and generator of the mating protocol"),
    "C03": (["pybrops.core.mat", "pybrops.popgen.gmat", "pybrops.popgen.cmat", "pybrops.breed.prot.gt"], [], "data and label arrays of the matrix"),
    "C04": (["pybrops.model.gmod"], [], "coefficients, trait names and parameters of the genomic model"),
    "C05": (["pybrops.breed.prot.sel.prob"], [], "objective / constraint weights, transformations and their keyword arguments of the problem"),
    "C06": (["pybrops.opt"], [], "decision space, bounds, objective and constraint weights / transformations of the problem"),
    "C07": (["pybrops.breed.prot.sel"], ["pybrops.breed.prot.sel.prob"], "cross shape, objective / constraint / non-dominated-set preferences of the protocol"),
    "C11": (["pybrops.popgen.gmap"], [], "positions and labels of the genetic map"),
    "C12": (["pybrops.model.vmat"], [], "matrix, labels and trait names of the variance matrix"),
    "C13": (["pybrops.popgen.cmat"], [], "matrix, marker weights, allele frequencies and taxa labels of the relationship matrix"),
    "C14": (["pybrops.breed.prot.pt", "pybrops.breed.prot.bv"], [], "model, variances and generator of the phenotyping / estimation protocol"),
    "C15": (["pybrops.popgen.bvmat", "pybrops.core.mat.DenseScaledMatrix"], [], "values, location, scale and labels of the breeding-value matrix"),
    "C20": (["pybrops.breed.arch", "pybrops.breed.op"], [], "operators and start state of the breeding programme"),
}


# instance floors of RW-property (about 80 % of the accessor pairs / decorated accessors counted on the reference tree)
PROPERTY_FLOORS = {"C01": 40, "C03": 125, "C04": 32, "C05": 90, "C06": 210, "C07": 208, "C11": 45, "C12": 36, "C13": 33, "C14": 21, "C15": 9, "C20": 43}


# ------------------------------------------------------------------------------------------------ self-check on a miniature module
# (rule, substring of the construct, substring of the detail) that must be reported on fixtures/wiring, and nothing else
EXPECTED = [
    ("RW-forward", "CrossWiredChild.__init__", "`beta` receives this constructor's `alpha`"),
    ("RW-forward", "DroppingChild.__init__", "`gamma` is accepted but neither handed"),
    ("RW-forward", "forgetting_caller", "`third` is accepted and the callee has a parameter"),
    ("RW-argorder", "exchanging_caller", "exchanged"),
    ("RW-argorder", "double_feeding_caller", "`second` receives `first`"),
    ("RW-argorder", "attribute_feeding_caller", "`second` receives `obj.first`"),
    ("RW-argorder", "absorbing_caller", "disappears into **kwargs"),
    ("RW-property", "Store.right", "getter returns self._left"),
    ("RW-property", "Derived.middle#setter", "declared on property `left`"),
    ("RW-argorder", "CrossWiredChild.__init__", "`beta` receives `alpha`"),            # the cross-wired constructor is also a double feed
    ("RW-property", "Derived.left", "getter returns self._left but the setter stores self._middle"),   # ... and the misnamed accessor a read/write mismatch
    ("RW-family", "Thing#Selection.problem", "the Real variant hands `other` to `data`"),
    ("RW-family", "ThingSubsetSelection.problem -> ThingBinaryProblem", "dispatches to the Binary counterpart"),
]
_SELFCHECK = None


class _Collector:
    def __init__(self):
        self.v, self.extra, self.only_rules, self.explanation = [], {}, None, ""

    def violate(self, rule, construct, detail, *a, **k):
        self.v.append((rule, construct, detail))

    def unrec(self, rule, construct, why):
        self.v.append((rule, construct, "UNRECOGNISED " + why))

    def __getattr__(self, name):
        return lambda *a, **k: None


def selfcheck():
    """run the four wiring rules on fixtures/wiring (a module with one deliberate instance of every fault kind next to correct twins) and return the list of
    discrepancies between what they report and EXPECTED - empty when every violation branch of the rules still fires and nothing else does"""
    global _SELFCHECK
    if _SELFCHECK is not None:
        return _SELFCHECK
    import os
    from sa.model import Program
    here = os.path.dirname(os.path.dirname(os.path.abspath(__file__)))
    saved = os.environ.get("VERIF_NO_REFERENCE")
    os.environ["VERIF_NO_REFERENCE"] = "1"      # the reference table describes /repo, not the fixture
    try:
        fx = Program(repo=os.path.join(here, "fixtures", "wiring"), exclude=())
    finally:
        if saved is None:
            os.environ.pop("VERIF_NO_REFERENCE", None)
        else:
            os.environ["VERIF_NO_REFERENCE"] = saved
    col = _Collector()
    pre = ["pybrops.fx"]
    check_super_init(fx, col, "RW-forward", pre, "fixture")
    check_dropped_forward(fx, col, "RW-forward", pre)
    check_argument_exchange(fx, col, "RW-argorder", pre)
    check_properties(fx, col, "RW-property", pre)
    check_family(fx, col, "RW-family", pre)
    problems = []
    left = list(col.v)
    for rule, cons, det in EXPECTED:
        hit = [x for x in left if x[0] == rule and cons in x[1] and det in x[2]]
        if not hit:
            problems.append("fixture fault not reported: %s %s (%s)" % (rule, cons, det))
        for x in hit[:1]:
            left.remove(x)
    for x in left:
        problems.append("unexpected report on the fixture: %s %s: %s" % (x[0], x[1], x[2][:80]))
    _SELFCHECK = problems
    return problems


def wire(prog, rep, prop, floor_forward, floor_argorder, floor_family=None):
    """arm the two constructor-forwarding obligations (RW-forward) and the argument-exchange obligation (RW-argorder) on the modules a property owns"""
    prefixes, exclude, what = WIRING[prop]
    for pr in selfcheck():
        rep.unrec("RW-selfcheck", "fixtures/wiring", pr)
    rep.extra["wiring_selfcheck"] = "%d fault kinds of fixtures/wiring reported, nothing else" % len(EXPECTED) if not selfcheck() else "FAILED"
    if getattr(rep, "only_rules", None):
        rep.only_rules = set(rep.only_rules) | {"RW-forward", "RW-argorder"}
    if isinstance(getattr(rep, "explanation", None), str) and "Wiring rules" not in rep.explanation:
        rep.explanation += (" Wiring rules over the resolved calls of %s: options forwarded under their own names along constructor chains and same-named calls, no exchange / "
                            "double feed / dropped or absorbed argument, accessor pairs read what they write, sibling families dispatch and wire alike." % ", ".join(prefixes))
    rep.floor("RW-forward", floor_forward)
    rep.floor("RW-argorder", floor_argorder)
    nf = check_super_init(prog, rep, "RW-forward", prefixes, what, exclude)
    nf += check_dropped_forward(prog, rep, "RW-forward", prefixes, exclude)
    na = check_argument_exchange(prog, rep, "RW-argorder", prefixes, exclude)
    rep.extra["wiring"] = {"super_init_calls": nf, "calls_with_two_or_more_bound_parameters": na}
    if getattr(rep, "only_rules", None):
        rep.only_rules = set(rep.only_rules) | {"RW-property"}
    rep.floor("RW-property", PROPERTY_FLOORS[prop])
    rep.extra["wiring"]["property_obligations"] = check_properties(prog, rep, "RW-property", prefixes, exclude)
    if floor_family is not None:
        if getattr(rep, "only_rules", None):
            rep.only_rules = set(rep.only_rules) | {"RW-family"}
        rep.floor("RW-family", floor_family)
        rep.extra["wiring"]["family_obligations"] = check_family(prog, rep, "RW-family", prefixes, exclude)
