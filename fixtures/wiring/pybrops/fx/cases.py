"""
Miniature module: one deliberate instance of every kind of wiring fault that sa/ctorflow.py reports, next to a correct twin.
It is analysed (never imported) on every run of a wired check; the rules must report exactly the faults named in EXPECTED of sa/ctorflow.selfcheck.
"""


class Base:
    def __init__(self, alpha, beta, gamma=None, **kwargs):
        self.alpha = alpha
        self.beta = beta
        self.gamma = gamma


class GoodChild(Base):
    def __init__(self, alpha, beta, gamma=None, **kwargs):
        super().__init__(alpha=alpha, beta=beta, gamma=gamma, **kwargs)


class CrossWiredChild(Base):
    def __init__(self, alpha, beta, gamma=None, **kwargs):
        super().__init__(alpha=alpha, beta=alpha, gamma=gamma, **kwargs)      # FAULT cross-wired: beta receives alpha


class DroppingChild(Base):
    def __init__(self, alpha, beta, gamma=None, **kwargs):
        super().__init__(alpha=alpha, beta=beta, **kwargs)                     # FAULT dropped: gamma accepted, not handed on, never read


def callee(first, second, third=None, **kwargs):
    return first, second, third


def good_caller(first, second, third):
    return callee(first, second, third)


def exchanging_caller(first, second, third):
    return callee(second, first, third)                                        # FAULT exchange


def double_feeding_caller(first, second, third):
    return callee(first, first, third)                                         # FAULT double feed (second <- first, first <- first)


def attribute_feeding_caller(obj):
    return callee(first=obj.first, second=obj.first, third=obj.third)          # FAULT double feed, attribute form


def absorbing_caller(first, second, third):
    return callee(first, second, extra=third)                                  # FAULT `third` disappears into **kwargs as `extra`


def forgetting_caller(first, second, third):
    return callee(first=first, second=second)                                  # FAULT dropped at a plain call: third accepted, never read, callee has it


class Store:
    def __init__(self):
        self._left = None
        self._right = None

    @property
    def left(self):
        return self._left

    @left.setter
    def left(self, value):
        self._left = value

    @property
    def right(self):
        return self._left                                                       # FAULT getter returns the neighbour's storage

    @right.setter
    def right(self, value):
        self._right = value


class Derived(Store):
    @Store.left.setter
    def middle(self, value):                                                   # FAULT accessor declared on `left`, function named `middle`
        self._middle = value


class ThingBinaryProblem:
    @classmethod
    def from_data(cls, data, weight, size):
        return cls()


class ThingIntegerProblem:
    @classmethod
    def from_data(cls, data, weight, size):
        return cls()


class ThingRealProblem:
    @classmethod
    def from_data(cls, data, weight, size):
        return cls()


class ThingSubsetProblem:
    @classmethod
    def from_data(cls, data, weight, size):
        return cls()


class ThingBinarySelection:
    def problem(self, data, other, weight):
        return ThingBinaryProblem.from_data(data=data, weight=weight, size=3)


class ThingIntegerSelection:
    def problem(self, data, other, weight):
        return ThingIntegerProblem.from_data(data=data, weight=weight, size=3)


class ThingRealSelection:
    def problem(self, data, other, weight):
        return ThingRealProblem.from_data(data=other, weight=weight, size=3)  # FAULT the Real variant hands `other` to `data`


class ThingSubsetSelection:
    def problem(self, data, other, weight):
        return ThingBinaryProblem.from_data(data=data, weight=weight, size=3)  # FAULT the Subset member dispatches to the Binary counterpart
