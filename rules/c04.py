"""
C04  Genomic-model predictions are linear, label-preserving and self-consistent   (structural part; solver convergence is not decided)

  R1-linear     the numpy kernels normalise to their definitions: predict = X.beta + Z.u, gebv = Z.u_a, gegv = Z.[u_a;u_d], score = 1 - SSE/SST,
                var_A = Var_taxa(gebv), var_a = ploidy^2 sum u^2 p(1-p), bulmer = var_A/var_a with NaN where var_a == 0; gebv/gegv add Xstar.beta with
                Xstar = [1, 1/q, ...] fully written; the dominance design is D = (A != 0) & (A != ploidy) (A == 1 for a raw diploid array) and the design
                blocks [A, D] and coefficient blocks [u_a; u_d] are concatenated in the same order at all three sites
  R2-coding     every genotype-to-design conversion inside a model asks for the '{0,1,2}' coding
  R3-labels     "output rows carry the input's taxon labels": taxa / taxa_grp of the result come from the genotype object
  R4-counts     facount = acount where u>0 else ploidy*n - acount, 0 where u == 0; dacount is its mirror (u<0); fafreq = facount/(ploidy n);
                avail / fixed / poly are the comparisons > 0, == max, (>0)&(<max) on the integer counts; neutral flags use u == 0
  R5-forward    a parameter that caller and callee both declare under the same name is forwarded (not silently replaced by the callee's default)
  R6-exact      (C09-R5) no reciprocal-multiply frequency reaches a comparison with 1 in the model code
  R7-rrblup     intercept = mean of the UNCENTRED response; monomorphic markers get effect 0 through the complementary mask; normal equations
                Z'Z + ridge*I with ridge = varE/varU and Z'y; Gauss-Seidel update (b_i - A[i,:i].x[:i] - A[i,i+1:].x[i+1:]) / A[i,i]
"""
import ast

from sa.astutil import dump, where, kwargs_of, walk_no_nested, field_of
from sa.model import body_nodoc, FuncInfo
from sa.vn import VN, Poly, VNUnknown, comparable, parse_expr
from rules import c09

GM = "pybrops.model.gmod."
MODELS = ["DenseLinearGenomicModel", "DenseAdditiveLinearGenomicModel", "DenseAdditiveDominanceLinearGenomicModel", "rrBLUPModel0"]
KERNELS = {
    "predict_numpy": "X @ self.beta + Z @ self.u",
    "gebv_numpy": "Z @ self.u_a",
    "gegv_numpy": "Z @ numpy.concatenate([self.u_a, self.u_d], axis=0)",
    "score_numpy": "1.0 - ((Y - (X @ self.beta + Z @ self.u)) ** 2).sum(0) / ((Y - Y.mean(0)) ** 2).sum(0)",
    "var_A_numpy": "self.gebv_numpy(Z, **kwargs).var(0)",
    "var_G_numpy": "self.gegv_numpy(Z, **kwargs).var(0)",
    "var_a_numpy": "ploidy ** 2.0 * (self.u_a ** 2 * p[:, None] * (1.0 - p[:, None])).sum(0)",
}
COUNT_REF = {
    "facount": "mask = self.u_a > 0.0\nacount = gmat.acount(dtype=dtype)[:, None]\nmaxfav = dtype.type(gmat.ploidy * gmat.ntaxa)\nout = numpy.where(mask, acount, maxfav - acount)\nout[self.u_a == 0.0] = 0",
    "dacount": "mask = self.u_a < 0.0\nacount = gmat.acount(dtype=dtype)[:, None]\nmaxfav = dtype.type(gmat.ploidy * gmat.ntaxa)\nout = numpy.where(mask, acount, maxfav - acount)\nout[self.u_a == 0.0] = 0",
    "fafreq": "out = self.facount(gmat) / (gmat.ploidy * gmat.ntaxa)",
    "dafreq": "out = self.dacount(gmat) / (gmat.ploidy * gmat.ntaxa)",
    "faavail": "out = self.facount(gmat) > 0",
    "daavail": "out = self.dacount(gmat) > 0",
    "fafixed": "out = self.facount(gmat) == gmat.ploidy * gmat.ntaxa",
    "dafixed": "out = self.dacount(gmat) == gmat.ploidy * gmat.ntaxa",
    "fapoly": "out = (self.facount(gmat) > 0) & (self.facount(gmat) < gmat.ploidy * gmat.ntaxa)",
    "dapoly": "out = (self.dacount(gmat) > 0) & (self.dacount(gmat) < gmat.ploidy * gmat.ntaxa)",
    "nafixed": "out = ((gmat.acount()[:, None] == 0) | (gmat.acount()[:, None] == gmat.ploidy * gmat.ntaxa)) & (self.u_a == 0.0)",
    "napoly": "out = (gmat.acount()[:, None] > 0) & (gmat.acount()[:, None] < gmat.ploidy * gmat.ntaxa) & (self.u_a == 0.0)",
}


def _vn_body(prog, f, skip_dtype=True):
    """normalise a method whose body is: [dtype default/cast blocks], straight-line statements, return out"""
    vn = VN(prog, f)
    ret = None
    for st in body_nodoc(f.node):
        if isinstance(st, ast.Expr):
            continue
        if isinstance(st, ast.If) and ("dtype" in dump(st.test)):
            continue
        if isinstance(st, ast.Assign) and dump(st.targets[0]) == "dtype":
            continue
        if isinstance(st, ast.Return):
            ret = vn.expr(st.value)
            break
        vn.stmt(st)
    return ret, vn


# class-specific forms of the same definitions (legacy model: one effect matrix `u`; additive model: genotypic value == breeding value)
KERNELS_BY_CLASS = {
    "DenseLinearGenomicModel": {"gebv_numpy": "Z @ self.u", "var_a_numpy": "ploidy ** 2.0 * (self.u ** 2 * p[:, None] * (1.0 - p[:, None])).sum(0)",
                                "var_G_numpy": "self.gebv_numpy(Z, **kwargs).var(0)"},
    "DenseAdditiveLinearGenomicModel": {"gegv_numpy": "self.gebv_numpy(Z=Z, **kwargs)", "var_G_numpy": "self.gebv_numpy(Z, **kwargs).var(0)"},
    "DenseAdditiveDominanceLinearGenomicModel": {"score_numpy": "1.0 - ((Y - self.predict_numpy(X, Z, **kwargs)) ** 2).sum(0) / ((Y - Y.mean(0)) ** 2).sum(0)"},
}


def check_kernels(prog, rep):
    for cname in MODELS:
        K = prog.get_class(cname, GM + cname)
        for name, ref in KERNELS.items():
            ref = KERNELS_BY_CLASS.get(cname, {}).get(name, ref)
            f = K.methods.get(name)
            if f is None:
                continue
            rep.saw(f)
            construct = f.qualname
            try:
                got, _ = _vn_body(prog, f)
                r = VN(prog, f).expr(ast.parse(ref, mode="eval").body)
            except VNUnknown as e:
                rep.unrec("R1-linear", construct, "kernel not straight-line: %s" % e)
                continue
            if got == r:
                rep.ok("R1-linear", construct, "%s == %s" % (name, ref), sample={"kernel": construct, "normal_form": got.show()[:200]})
            elif got is not None and comparable(got, r):
                rep.violate("R1-linear", construct, "%s normalises to %s; its definition is %s" % (name, got.show()[:160], r.show()[:160]), where(f), ref, got.show()[:160])
            else:
                rep.unrec("R1-linear", construct, "kernel written with other operators")
        # bulmer_numpy
        f = K.methods.get("bulmer_numpy")
        if f is not None:
            rep.saw(f)
            try:
                got, _ = _vn_body(prog, f)
                ref = VN(prog, f)
                for st in ast.parse("sigma_A = self.var_A_numpy(Z)\nsigma_a = self.var_a_numpy(p, ploidy)\nmask = sigma_a == 0.0\ndenom = sigma_a.copy()\ndenom[mask] = 1.0\n"
                                    "out = sigma_A / denom\nout[mask] = numpy.nan").body:
                    ref.stmt(st)
                r = ref.env["out"]
                if got == r:
                    rep.ok("R1-linear", f.qualname, "bulmer = var_A(Z) / var_a(p, ploidy), NaN where var_a == 0")
                elif comparable(got, r):
                    rep.violate("R1-linear", f.qualname, "Bulmer ratio normalises to %s; its definition is var_A(Z)/var_a(p, ploidy) with the zero-denominator guard" % got.show()[:160],
                                where(f), r.show()[:160], got.show()[:160])
                else:
                    rep.unrec("R1-linear", f.qualname, "other operators")
            except VNUnknown as e:
                rep.unrec("R1-linear", f.qualname, str(e))
        # intercept row and design blocks
        for name in ("gebv", "gegv", "predict", "var_G"):
            f = K.methods.get(name)
            if f is None:
                continue
            rep.saw(f)
            construct = f.qualname
            txt = [dump(s) for s in walk_no_nested(f.node) if isinstance(s, (ast.Assign, ast.AugAssign))]
            good = True
            if name == "gegv" and K.name != "DenseAdditiveDominanceLinearGenomicModel":
                if txt == [] and dump(body_nodoc(f.node)[-1]) == "return self.gebv(gtobj=gtobj, **kwargs)":
                    rep.ok("R1-linear", construct, "additive model: genotypic value == breeding value (delegates to gebv)")
                else:
                    rep.unrec("R1-linear", construct, "gegv of a purely additive model does not delegate to gebv")
                continue
            if name in ("gebv", "gegv"):
                hat = "gebv_hat" if name == "gebv" else "gegv_hat"
                need = ["nfixed = self.beta.shape[0]", "Xstar[0, 0] = 1", "Xstar[0, 1:] = 1 / nfixed", "location = Xstar @ self.beta", "%s += location" % hat]
                alloc = [t for t in txt if t.startswith("Xstar = numpy.empty((1, nfixed)") or t.startswith("Xstar = numpy.zeros((1, nfixed)")]
                miss = [n for n in need if n not in txt]
                if not alloc:
                    rep.unrec("R1-linear", construct, "intercept row Xstar not allocated as (1, nfixed)")
                    good = False
                elif miss:
                    if "%s += location" % hat in miss and not any(t.startswith(hat + " = ") and "location" in t for t in txt):
                        rep.violate("R1-linear", construct, "the intercept term Xstar.beta is not added to the genetic values (dropped intercept)", where(f), "%s += location" % hat, "absent")
                    elif "Xstar[0, 0] = 1" in miss or "Xstar[0, 1:] = 1 / nfixed" in miss:
                        got = [t for t in txt if t.startswith("Xstar[")]
                        rep.violate("R1-linear", construct, "intercept row is written as %s, not [1, 1/q, ..., 1/q] over all q fixed effects" % got, where(f), "Xstar[0,0]=1; Xstar[0,1:]=1/nfixed", str(got))
                    else:
                        rep.unrec("R1-linear", construct, "intercept statements %s not found" % miss)
                    good = False
            if K.name == "DenseAdditiveDominanceLinearGenomicModel" and name in ("gegv", "predict", "var_G"):
                want_g = ["A = gtobj.mat_asformat('{0,1,2}')", "D = numpy.logical_and(A != 0, A != gtobj.ploidy)", "Z = numpy.concatenate([A, D], axis=1)"]
                want_n = ["A = gtobj", "D = gtobj == 1"]
                for w in want_g + want_n:
                    if w not in txt:
                        if w.startswith("Z ="):
                            z = [t for t in txt if t.startswith("Z = ")]
                            rep.violate("R1-linear", construct, "design blocks are assembled as %s, not [A, D] along the marker axis (the coefficient blocks are [u_a; u_d])" % z,
                                        where(f), w, str(z))
                        elif w.startswith("D ="):
                            d = [t for t in txt if t.startswith("D = ")]
                            rep.violate("R1-linear", construct, "heterozygosity indicator is %s, not (A != 0) & (A != ploidy) / (A == 1 for a raw diploid array)" % d, where(f), w, str(d))
                        else:
                            rep.unrec("R1-linear", construct, "statement `%s` not found" % w)
                        good = False
            if good:
                rep.ok("R1-linear", construct, "intercept row [1, 1/q..] fully written and added" if name in ("gebv", "gegv") else "design [A, D] with D = heterozygosity indicator")


def check_coding_labels(prog, rep):
    for m in prog.modules.values():
        if not m.name.startswith(GM):
            continue
        for c in m.classes.values():
            for f in c.methods.values():
                for n in walk_no_nested(f.node):
                    if isinstance(n, ast.Call) and isinstance(n.func, ast.Attribute) and n.func.attr == "mat_asformat" and n.args and isinstance(n.args[0], ast.Constant):
                        rep.saw(f)
                        if n.args[0].value == "{0,1,2}":
                            rep.ok("R2-coding", "%s#%d" % (f.qualname, len([1 for _ in ()])), "design taken as dosage coding {0,1,2}")
                        else:
                            rep.violate("R2-coding", f.qualname, "the genotype design is requested in coding %s; marker effects are defined on allele dosages {0,1,2}" % n.args[0].value,
                                        where(f, n), "'{0,1,2}'", repr(n.args[0].value))
                # labels
                if f.name in ("predict", "gebv", "gegv"):
                    body = body_nodoc(f.node)
                    if len(body) == 1 and isinstance(body[0], ast.Raise):
                        continue
                    outc = [n for n in walk_no_nested(f.node) if isinstance(n, ast.Call) and isinstance(n.func, ast.Attribute) and n.func.attr == "from_numpy"]
                    if len(outc) != 1:
                        continue
                    kws, _ = kwargs_of(outc[0])
                    good = True
                    g = [p for p in f.params() if p in ("gtobj", "gmat", "pgmat")]
                    if not g:
                        continue
                    g = g[0]
                    assigns = {}
                    for n in walk_no_nested(f.node):
                        if isinstance(n, ast.Assign) and isinstance(n.targets[0], ast.Name):
                            assigns.setdefault(n.targets[0].id, []).append(dump(n.value))
                    for k in ("taxa", "taxa_grp"):
                        v = kws.get(k)
                        if v is None:
                            rep.violate("R3-labels", f.qualname, "the result matrix is built without %s" % k, where(f, outc[0]), "%s=%s.%s" % (k, g, k), "absent")
                            good = False
                            continue
                        srcs = assigns.get(v.id, []) if isinstance(v, ast.Name) else [dump(v)]
                        obj = [s for s in srcs if s != "None"]
                        if obj != ["%s.%s" % (g, k)]:
                            rep.violate("R3-labels", f.qualname, "%s of the result is %s, not the genotype object's %s" % (k, obj, k), where(f, outc[0]), "%s.%s" % (g, k), str(obj))
                            good = False
                    if good:
                        rep.ok("R3-labels", f.qualname, "taxa / taxa_grp of the result come from %s" % g)


def check_counts(prog, rep):
    K = prog.get_class("DenseAdditiveLinearGenomicModel", GM + "DenseAdditiveLinearGenomicModel")
    for name, ref in COUNT_REF.items():
        f = K.methods.get(name)
        if f is None:
            rep.unrec("R4-counts", K.qualname, "%s vanished" % name)
            continue
        rep.saw(f)
        try:
            got, _ = _vn_body(prog, f)
            rv = VN(prog, f)
            for st in ast.parse(ref).body:
                rv.stmt(st)
            r = rv.env["out"]
        except VNUnknown as e:
            rep.unrec("R4-counts", f.qualname, "not straight-line: %s" % e)
            continue
        if got == r:
            rep.ok("R4-counts", f.qualname, "%s == %s" % (name, ref.splitlines()[-1] if "\n" not in ref else "where(u %s 0, acount, max - acount), 0 at u == 0" % (">" if name[0] == "f" else "<")))
        elif got is not None and comparable(got, r):
            rep.violate("R4-counts", f.qualname, "%s normalises to %s; its definition is %s" % (name, got.show()[:170], r.show()[:170]), where(f), r.show()[:170], got.show()[:170])
        else:
            # reformulation through the sibling count (e.g. max - facount): the zero-effect reset cannot be established
            txt = " ; ".join(dump(s) for s in body_nodoc(f.node))
            sib = "facount" if name.startswith("d") else "dacount"
            if name in ("facount", "dacount") and "self.%s(" % sib in txt and "== 0.0] = 0" not in txt:
                rep.violate("R4-counts", f.qualname, "%s is computed as the complement of %s without resetting zero-effect markers: at u == 0 it yields ploidy*n instead of 0"
                            % (name, sib), where(f), "out[self.u_a == 0.0] = 0", "absent")
            else:
                rep.unrec("R4-counts", f.qualname, "%s written with other operators: %s" % (name, got.show()[:100] if got is not None else "?"))


def check_forwarding(prog, rep):
    """R5: same-named parameter of caller and callee (both methods of the model class) must be passed on"""
    for cname in MODELS:
        K = prog.get_class(cname, GM + cname)
        if prog.mro(K) is None:
            continue
        for name, f in K.methods.items():
            cparams = [p for p in f.params() if p not in ("self", "cls")]
            for n in walk_no_nested(f.node):
                if not (isinstance(n, ast.Call) and isinstance(n.func, ast.Attribute) and isinstance(n.func.value, ast.Name) and n.func.value.id in ("self", "cls")):
                    continue
                callee = prog.lookup_method(K, n.func.attr)
                if callee is None or callee is f:
                    continue
                tps = [p for p in callee.params() if p not in ("self", "cls")]
                kws, stars = kwargs_of(n)
                passed = set(kws) | set(tps[:len(n.args)])
                shared = [p for p in tps if p in cparams and p not in ("dtype",)]
                if not shared:
                    continue
                rep.saw(f)
                miss = [p for p in shared if p not in passed]
                # a parameter re-derived from the data in the caller (e.g. ploidy = gtobj.ploidy) still has to be handed on
                if miss:
                    rep.violate("R5-forward", f.qualname, "%s() is called without %s, which both methods declare: the callee silently uses its default" % (callee.name, ", ".join(miss)),
                                where(f, n), ", ".join("%s=%s" % (p, p) for p in miss), dump(n)[:60])
                else:
                    wrong = [(p, dump(kws[p])) for p in shared if p in kws and isinstance(kws[p], ast.Name) and kws[p].id != p and kws[p].id in cparams]
                    if wrong:
                        rep.violate("R5-forward", f.qualname, "%s() receives %s" % (callee.name, ", ".join("%s=%s" % w for w in wrong)), where(f, n))
                    else:
                        rep.ok("R5-forward", "%s->%s" % (f.qualname, callee.name), "shared parameters %s forwarded" % ", ".join(shared))


def check_rrblup(prog, rep):
    m = prog.module(GM + "rrBLUPModel0")
    f = m.functions.get("rrBLUP_ML0")
    if f is None:
        rep.unrec("R7-rrblup", m.name, "rrBLUP_ML0 vanished")
        return
    rep.saw(f)
    body = body_nodoc(f.node)
    order = {}
    for i, st in enumerate(body):
        if isinstance(st, ast.Assign):
            order.setdefault(dump(st.targets[0]), []).append((i, dump(st.value)))
    good = True
    mean = [k for k, v in order.items() if any(x[1] in ("y.mean()", "numpy.mean(y)") for x in v)]
    cen = [x for x in order.get("y", []) if "center_y" in x[1] or x[1] in ("y - y.mean()", "y - meanY")]
    if not mean or not cen or order[mean[0]][0][0] > cen[0][0]:
        rep.violate("R7-rrblup", f.qualname, "the intercept is not the mean of the uncentred response (mean taken after centring, or not taken)", where(f), "meanY = y.mean() before y is centred",
                    "%s / %s" % (mean, cen))
        good = False
    else:
        bh = order.get("betahat", [])
        if not bh or bh[0][1] != "numpy.array([%s])" % mean[0]:
            rep.violate("R7-rrblup", f.qualname, "betahat is %s, not the training mean" % (bh[0][1] if bh else "?"), where(f), "numpy.array([%s])" % mean[0], bh[0][1] if bh else "absent")
            good = False
    want = {"ridge": "rrBLUP_ML0_calc_ridge(varE, varU)", "ZtZplI": "rrBLUP_ML0_calc_ZtZplI(Z, ridge)", "Zty": "rrBLUP_ML0_calc_Zty(Z, y)", "uhat": "gauss_seidel(ZtZplI, Zty, gsatol, gsmaxiter)"}
    for k, v in want.items():
        got = order.get(k, [(0, None)])[0][1]
        if got != v:
            rep.violate("R7-rrblup", f.qualname, "%s = %s, expected %s" % (k, got, v), where(f), v, str(got))
            good = False
    helpers = {"rrBLUP_ML0_calc_ridge": "varE / varU", "rrBLUP_ML0_calc_Zty": "Z.T @ y", "rrBLUP_ML0_center_y": "y - y.mean()"}
    for hn, ref in helpers.items():
        h = m.functions.get(hn)
        if h is None:
            rep.unrec("R7-rrblup", m.name, "%s vanished" % hn)
            good = False
            continue
        rep.saw(h)
        try:
            got = VN(prog, h).run(body_nodoc(h.node))
            r = VN(prog, h).expr(ast.parse(ref, mode="eval").body)
            if got != r:
                if comparable(got, r):
                    rep.violate("R7-rrblup", h.qualname, "%s normalises to %s, not %s" % (hn, got.show()[:80], ref), where(h), ref, got.show()[:80])
                else:
                    rep.unrec("R7-rrblup", h.qualname, "other operators")
                good = False
        except VNUnknown as e:
            rep.unrec("R7-rrblup", h.qualname, str(e))
            good = False
    h = m.functions.get("rrBLUP_ML0_calc_ZtZplI")
    if h is not None:
        rep.saw(h)
        txt = [dump(s) for s in body_nodoc(h.node)]
        if txt[:3] != ["ZtZplI = Z.T @ Z", "diagZtZplI = numpy.einsum('ii->i', ZtZplI)", "diagZtZplI += ridge"] or txt[-1] != "return ZtZplI":
            rep.violate("R7-rrblup", h.qualname, "penalised normal matrix is not Z'Z with `ridge` added on its diagonal view: %s" % txt[:3], where(h), "Z.T @ Z; diag += ridge", str(txt[:3])) \
                if any("ridge" in t for t in txt) else rep.violate("R7-rrblup", h.qualname, "the ridge penalty is not added to the diagonal of Z'Z", where(h))
            good = False
    g = m.functions.get("gauss_seidel")
    if g is not None:
        rep.saw(g)
        A, b = g.params()[:2]
        upd = [s for s in ast.walk(g.node) if isinstance(s, ast.Assign) and isinstance(s.targets[0], ast.Subscript) and isinstance(s.value, ast.BinOp) and isinstance(s.value.op, ast.Div)]
        if len(upd) != 1:
            rep.unrec("R7-rrblup", g.qualname, "Gauss-Seidel update not found")
            good = False
        else:
            x = dump(upd[0].targets[0].value)
            i = dump(upd[0].targets[0].slice)
            ref = parse_expr("(%s[%s] - %s[%s, :%s].dot(%s[:%s]) - %s[%s, %s + 1:].dot(%s[%s + 1:])) / %s[%s, %s]" % (b, i, A, i, i, x, i, A, i, i, x, i, A, i, i))
            got = VN(prog, g).expr(upd[0].value)
            if got != ref:
                if comparable(got, ref):
                    rep.violate("R7-rrblup", g.qualname, "Gauss-Seidel update normalises to %s; the sweep is (b_i - A[i,:i].x[:i] - A[i,i+1:].x[i+1:]) / A[i,i]" % got.show()[:160], where(g, upd[0]),
                                ref.show()[:160], got.show()[:160])
                else:
                    rep.unrec("R7-rrblup", g.qualname, "update written with other operators")
                good = False
        # termination: sweeps continue while ANY coordinate still moves by more than the tolerance; the previous iterate is a snapshot, not an alias
        wl = [s for s in ast.walk(g.node) if isinstance(s, ast.While)]
        if len(wl) != 1:
            rep.unrec("R7-rrblup", g.qualname, "expected one convergence loop")
            good = False
        else:
            test = wl[0].test
            parts = test.values if isinstance(test, ast.BoolOp) and isinstance(test.op, ast.And) else [test]
            conv = None
            for pt in parts:
                t = "".join(dump(pt).split())
                m1 = [q for q in ("numpy.any(", "numpy.max(", "numpy.amax(", "numpy.linalg.norm(") if t.startswith(q)]
                if t.startswith("numpy.all(") and ">" in t:
                    conv = ("all", pt)
                elif m1 and ">" in t and "<" not in t.replace("<=", ""):
                    conv = ("any", pt)
                elif (".max()>" in t or ".any()" in t) and ">" in t:
                    conv = ("any", pt)
                elif t.startswith("notnumpy.all(") and ("<=" in t or "<" in t):
                    conv = ("any", pt)
            if conv is None:
                rep.unrec("R7-rrblup", g.qualname, "convergence test %s" % dump(test)[:60])
                good = False
            elif conv[0] == "all":
                rep.violate("R7-rrblup", g.qualname, "the sweeps continue only while ALL coordinates still move (%s): the solver stops as soon as one coordinate is stationary, "
                            "before the others have converged" % dump(conv[1])[:50], where(g, conv[1]), "numpy.any(change > atol)", dump(conv[1])[:50])
                good = False
            snap = [s for s in wl[0].body if isinstance(s, ast.Assign) and isinstance(s.value, ast.Name) and dump(s.value) == (dump(upd[0].targets[0].value) if len(upd) == 1 else "?")]
            for sst in snap:
                if isinstance(sst.targets[0], ast.Name):
                    rep.violate("R7-rrblup", g.qualname, "`%s` aliases the current iterate instead of copying it: the measured change is always 0 and the solver stops after one sweep"
                                % dump(sst), where(g, sst), "%s[:] = %s" % (dump(sst.targets[0]), dump(sst.value)), dump(sst))
                    good = False
    # fit_numpy: complementary masks
    K = prog.get_class("rrBLUPModel0", GM + "rrBLUPModel0")
    fn = K.methods.get("fit_numpy")
    if fn is not None:
        rep.saw(fn)
        txt = [dump(s) for s in walk_no_nested(fn.node) if isinstance(s, ast.Assign)]
        need = ["ispolymorphic = ~numpy.all(Z == Z[0, :], axis=0)", "Zpoly = Z[:, ispolymorphic]", "u_a[ispolymorphic, :] = uhat", "u_a[~ispolymorphic, :] = 0.0"]
        miss = [n for n in need if n not in txt]
        if miss:
            stores = [t for t in txt if t.startswith("u_a[")]
            if "u_a[~ispolymorphic, :] = 0.0" in miss and any(t.startswith("u_a = numpy.zeros") for t in txt):
                pass
            elif "u_a[~ispolymorphic, :] = 0.0" in miss or "u_a[ispolymorphic, :] = uhat" in miss:
                rep.violate("R7-rrblup", fn.qualname, "marker effects are written as %s: monomorphic markers must get exactly 0 through the complement of the mask used for the estimates"
                            % stores, where(fn), "u_a[mask] = uhat; u_a[~mask] = 0.0", str(stores))
                good = False
            else:
                rep.unrec("R7-rrblup", fn.qualname, "statements %s not found" % miss)
                good = False
    if good:
        rep.ok("R7-rrblup", f.qualname, "intercept = uncentred mean; ridge = varE/varU on the diagonal of Z'Z; Z'y; Gauss-Seidel sweep; monomorphic markers -> 0")


def run(prog, rep, tier):
    rep.explanation = ("Spec congruence of the numpy kernels, count/flag definitions and the rrBLUP assembly through an algebraic normal form, plus structural rules for the "
                       "intercept row, the dominance design blocks, genotype coding, label hand-off and same-named parameter forwarding; the boundary-exactness taint of C09 "
                       "is applied to the model code.")
    rep.not_decided = ["convergence of Nelder-Mead and Gauss-Seidel, 'never worse than the zero solution' (numerical optimisation)",
                       "invariance to taxon order and marker partition as numerical facts (they follow from R1 for exact arithmetic)"]
    for r, n in (("R1-linear", 18), ("R2-coding", 10), ("R3-labels", 5), ("R4-counts", 12), ("R5-forward", 10), ("R5-exact-at-one", 4), ("R7-rrblup", 1)):
        rep.floor(r, n)
    check_kernels(prog, rep)
    check_coding_labels(prog, rep)
    check_counts(prog, rep)
    check_forwarding(prog, rep)
    c09.check_exactness(prog, rep, tier, sink_filter=c09.NOT_SELECTION)
    check_rrblup(prog, rep)
