"""
C04  Genomic-model predictions are linear, label-preserving and self-consistent   (structural part; solver convergence is not decided)

  R1-linear     the numpy kernels normalise to their definitions: predict = X.beta + Z.u, gebv = Z.u_a, gegv = Z.[u_a;u_d], score = 1 - SSE/SST,
                var_A = Var_taxa(gebv), var_a = ploidy^2 sum u^2 p(1-p), bulmer = var_A/var_a with NaN where var_a == 0; gebv/gegv add Xstar.beta with
                Xstar = [1, 1/q, ...] fully written; the dominance design is D = (A != 0) & (A != ploidy) (A == 1 for a raw diploid array) and the design
                blocks [A, D] and coefficient blocks [u_a; u_d] are concatenated in the same order at all three sites
  R2-coding     every genotype-to-design conversion inside a model asks for the '{0,1,2}' coding
  R3-labels     "output rows carry the input's taxon labels": taxa / taxa_grp of the result come from the genotype object
  R4-counts     facount = acount where u>0 else ploidy*n - acount, 0 where u == 0; dacount is its mirror (u<0); fafreq = facount/(ploidy n);
                avail / fixed / poly are the comparisons > 0, == max, (>0)&(<max) on the integer counts; neutral flags use u == 0
  R5-forward    a parameter that caller and callee both declare under the same name is forwarded (not silently replaced by the callee's default)
  R6-exact      (C09-R5) no reciprocal-multiply frequency reaches a comparison with 1 in the model code
  R7-rrblup     intercept = mean of the UNCENTRED response; monomorphic markers get effect 0 through the complementary mask; normal equations
                Z'Z + ridge*I with ridge = varE/varU and Z'y; Gauss-Seidel update (b_i - A[i,:i].x[:i] - A[i,i+1:].x[i+1:]) / A[i,i]
"""
import ast

from sa.ctorflow import wire

from sa.astutil import is_guard, oriented, dump, where, kwargs_of, walk_no_nested, field_of
from sa.model import body_nodoc, FuncInfo
from sa.vn import VN, Poly, VNUnknown, comparable, parse_expr
from rules import c09

GM = "pybrops.model.gmod."
MODELS = ["DenseLinearGenomicModel", "DenseAdditiveLinearGenomicModel", "DenseAdditiveDominanceLinearGenomicModel", "rrBLUPModel0"]
KERNELS = {
    "predict_numpy": "X @ self.beta + Z @ self.u",
    "gebv_numpy": "Z @ self.u_a",
    "gegv_numpy": "Z @ numpy.concatenate([self.u_a, self.u_d], axis=0)",
    "score_numpy": "1.0 - ((Y - (X @ self.beta + Z @ self.u)) ** 2).sum(0) / ((Y - Y.mean(0)) ** 2).sum(0)",
    "var_A_numpy": "self.gebv_numpy(Z, **kwargs).var(0)",
    "var_G_numpy": "self.gegv_numpy(Z, **kwargs).var(0)",
    "var_a_numpy": "ploidy ** 2.0 * (self.u_a ** 2 * p[:, None] * (1.0 - p[:, None])).sum(0)",
}
COUNT_REF = {
    "facount": "mask = self.u_a > 0.0\nacount = gmat.acount(dtype=dtype)[:, None]\nmaxfav = dtype.type(gmat.ploidy * gmat.ntaxa)\nout = numpy.where(mask, acount, maxfav - acount)\nout[self.u_a == 0.0] = 0",
    "dacount": "mask = self.u_a < 0.0\nacount = gmat.acount(dtype=dtype)[:, None]\nmaxfav = dtype.type(gmat.ploidy * gmat.ntaxa)\nout = numpy.where(mask, acount, maxfav - acount)\nout[self.u_a == 0.0] = 0",
    "fafreq": "out = self.facount(gmat) / (gmat.ploidy * gmat.ntaxa)",
    "dafreq": "out = self.dacount(gmat) / (gmat.ploidy * gmat.ntaxa)",
    "faavail": "out = self.facount(gmat) > 0",
    "daavail": "out = self.dacount(gmat) > 0",
    "fafixed": "out = self.facount(gmat) == gmat.ploidy * gmat.ntaxa",
    "dafixed": "out = self.dacount(gmat) == gmat.ploidy * gmat.ntaxa",
    "fapoly": "out = (self.facount(gmat) > 0) & (self.facount(gmat) < gmat.ploidy * gmat.ntaxa)",
    "dapoly": "out = (self.dacount(gmat) > 0) & (self.dacount(gmat) < gmat.ploidy * gmat.ntaxa)",
    "nafixed": "out = ((gmat.acount()[:, None] == 0) | (gmat.acount()[:, None] == gmat.ploidy * gmat.ntaxa)) & (self.u_a == 0.0)",
    "napoly": "out = (gmat.acount()[:, None] > 0) & (gmat.acount()[:, None] < gmat.ploidy * gmat.ntaxa) & (self.u_a == 0.0)",
}


def _vn_body(prog, f, skip_dtype=True):
    """normalise a method whose body is: [dtype default/cast blocks], straight-line statements, return out"""
    vn = VN(prog, f)
    ret = None
    for st in body_nodoc(f.node):
        if isinstance(st, ast.Expr):
            continue
        if isinstance(st, ast.If) and ("dtype" in dump(st.test)):
            continue
        if isinstance(st, ast.Assign) and dump(st.targets[0]) == "dtype":
            continue
        if isinstance(st, ast.Return):
            ret = vn.expr(st.value)
            break
        vn.stmt(st)
    return ret, vn


# class-specific forms of the same definitions (legacy model: one effect matrix `u`; additive model: genotypic value == breeding value)
KERNELS_BY_CLASS = {
    "DenseLinearGenomicModel": {"gebv_numpy": "Z @ self.u", "var_a_numpy": "ploidy ** 2.0 * (self.u ** 2 * p[:, None] * (1.0 - p[:, None])).sum(0)",
                                "var_G_numpy": "self.gebv_numpy(Z, **kwargs).var(0)"},
    "DenseAdditiveLinearGenomicModel": {"gegv_numpy": "self.gebv_numpy(Z=Z, **kwargs)", "var_G_numpy": "self.gebv_numpy(Z, **kwargs).var(0)"},
    "DenseAdditiveDominanceLinearGenomicModel": {"score_numpy": "1.0 - ((Y - self.predict_numpy(X, Z, **kwargs)) ** 2).sum(0) / ((Y - Y.mean(0)) ** 2).sum(0)"},
}


def check_kernels(prog, rep):
    for cname in MODELS:
        K = prog.get_class(cname, GM + cname)
        for name, ref in KERNELS.items():
            ref = KERNELS_BY_CLASS.get(cname, {}).get(name, ref)
            f = K.methods.get(name)
            if f is None:
                continue
            rep.saw(f)
            construct = f.qualname
            try:
                got, _ = _vn_body(prog, f)
                r = VN(prog, f).expr(ast.parse(ref, mode="eval").body)
            except VNUnknown as e:
                rep.unrec("R1-linear", construct, "kernel not straight-line: %s" % e)
                continue
            if got == r:
                rep.ok("R1-linear", construct, "%s == %s" % (name, ref), sample={"kernel": construct, "normal_form": got.show()[:200]})
            elif got is not None and comparable(got, r):
                rep.violate("R1-linear", construct, "%s normalises to %s; its definition is %s" % (name, got.show()[:160], r.show()[:160]), where(f), ref, got.show()[:160])
            else:
                rep.unrec("R1-linear", construct, "kernel written with other operators")
        # bulmer_numpy
        f = K.methods.get("bulmer_numpy")
        if f is not None:
            rep.saw(f)
            try:
                got, _ = _vn_body(prog, f)
                ref = VN(prog, f)
                for st in ast.parse("sigma_A = self.var_A_numpy(Z)\nsigma_a = self.var_a_numpy(p, ploidy)\nmask = sigma_a == 0.0\ndenom = sigma_a.copy()\ndenom[mask] = 1.0\n"
                                    "out = sigma_A / denom\nout[mask] = numpy.nan").body:
                    ref.stmt(st)
                r = ref.env["out"]
                if got == r:
                    rep.ok("R1-linear", f.qualname, "bulmer = var_A(Z) / var_a(p, ploidy), NaN where var_a == 0")
                elif comparable(got, r):
                    rep.violate("R1-linear", f.qualname, "Bulmer ratio normalises to %s; its definition is var_A(Z)/var_a(p, ploidy) with the zero-denominator guard" % got.show()[:160],
                                where(f), r.show()[:160], got.show()[:160])
                else:
                    rep.unrec("R1-linear", f.qualname, "other operators")
            except VNUnknown as e:
                rep.unrec("R1-linear", f.qualname, str(e))
        # intercept row and design blocks (name-independent: roles from the kernel call and the from_numpy keyword)
        for name in ("gebv", "gegv", "predict", "var_G"):
            f = K.methods.get(name)
            if f is None:
                continue
            rep.saw(f)
            construct = f.qualname
            body = body_nodoc(f.node)
            good = True
            if name == "gegv" and K.name != "DenseAdditiveDominanceLinearGenomicModel":
                nontrivial = [s_ for s_ in walk_no_nested(f.node) if isinstance(s_, (ast.Assign, ast.AugAssign))]
                if not nontrivial and "".join(dump(body[-1]).split()) in ("returnself.gebv(gtobj=gtobj,**kwargs)", "returnself.gebv(gtobj,**kwargs)"):
                    rep.ok("R1-linear", construct, "additive model: genotypic value == breeding value (delegates to gebv)")
                else:
                    rep.unrec("R1-linear", construct, "gegv of a purely additive model does not delegate to gebv")
                continue
            g = [p_ for p_ in f.params() if p_ in ("gtobj", "gmat", "pgmat")]
            g = g[0] if g else "gtobj"
            kcall = [c_ for c_ in walk_no_nested(f.node) if isinstance(c_, ast.Call) and isinstance(c_.func, ast.Attribute) and dump(c_.func.value) == "self"
                     and c_.func.attr.endswith("_numpy")]
            if name in ("gebv", "gegv"):
                if len(kcall) != 1:
                    rep.unrec("R1-linear", construct, "expected one call of the numpy kernel")
                    continue
                # tail after the type dispatch: value handed to from_numpy(mat=...)
                outc = [c_ for c_ in walk_no_nested(f.node) if isinstance(c_, ast.Call) and isinstance(c_.func, ast.Attribute) and c_.func.attr == "from_numpy"]
                kws_o = kwargs_of(outc[0])[0] if len(outc) == 1 else {}
                H = kws_o.get("mat")
                if not isinstance(H, ast.Name):
                    rep.unrec("R1-linear", construct, "from_numpy(mat=<local>) not found")
                    continue
                zarg = [a_ for a_ in kcall[0].args if isinstance(a_, ast.Name)]
                # the design handed to the kernel is an input of this part (its construction is the dispatch rule's subject below), wherever it is assembled
                tail = [s_ for s_ in body if not isinstance(s_, (ast.If, ast.Return, ast.Expr))
                        and not (isinstance(s_, ast.Assign) and isinstance(s_.targets[0], ast.Name) and s_.targets[0].id in [a_.id for a_ in zarg])]
                env = {a_.id: Poly.atom(("var", "<design>")) for a_ in zarg}
                try:
                    vn = VN(prog, f, env)
                    for s_ in tail:
                        vn.stmt(s_)
                    got = vn.env.get(H.id)
                    refs = []
                    for alloc in ("numpy.empty", "numpy.zeros"):
                        rv = VN(prog, f, {"DESIGN": Poly.atom(("var", "<design>"))})
                        src = ("H = self.%s(DESIGN, **kwargs)\nq = self.beta.shape[0]\nX = %s((1, q), dtype=self.beta.dtype)\nX[0, 0] = 1\nX[0, 1:] = 1 / q\nH += X @ self.beta\n"
                               % (kcall[0].func.attr, alloc))
                        for s_ in ast.parse(src).body:
                            rv.stmt(s_)
                        refs.append(rv.env["H"])
                except VNUnknown as e:
                    rep.unrec("R1-linear", construct, "intercept part: %s" % e)
                    continue
                if got is None:
                    rep.unrec("R1-linear", construct, "value handed to from_numpy is not computed in the straight-line tail")
                    continue
                if got in refs:
                    rep.ok("R1-linear", construct, "genetic values = kernel(design) + [1, 1/q, ..., 1/q] . beta (intercept row fully written)")
                elif "beta" not in repr(got.key()):
                    rep.violate("R1-linear", construct, "the intercept term Xstar.beta is not added to the genetic values (dropped intercept)", where(f), "+ Xstar @ self.beta", got.show()[:80])
                elif comparable(got, refs[0]):
                    rep.violate("R1-linear", construct, "genetic values normalise to %s: the intercept row is not [1, 1/q, ..., 1/q] over all q fixed effects" % got.show()[:140], where(f),
                                refs[0].show()[:140], got.show()[:140])
                elif "setitem" not in got.show() and ("red(mean, self.beta" in got.show() or "red(sum, self.beta" in got.show()):
                    # no contrast row is written at all: the fixed effects are collapsed by a plain reduction, which weights the intercept like every other effect
                    rep.violate("R1-linear", construct, "the fixed-effect term is a plain reduction of beta (%s): the definition is [1, 1/q, ..., 1/q] . beta - the intercept enters with "
                                "weight 1, not 1/q" % got.show()[:100], where(f), refs[0].show()[:140], got.show()[:140])
                else:
                    rep.unrec("R1-linear", construct, "intercept written with other operators: %s" % got.show()[:100])
                good = None
            if K.name == "DenseAdditiveDominanceLinearGenomicModel" and name in ("gegv", "predict", "var_G"):
                # every type-dispatch branch builds the design handed to the kernel as [A, D]
                guards = [s_ for s_ in body if isinstance(s_, ast.If) and is_guard(s_) and "isinstance(%s" % g in "".join(dump(s_.test).split())]
                disp = [s_ for s_ in body if isinstance(s_, ast.If) and "isinstance(%s" % g in "".join(dump(s_.test).split()) and s_ not in guards]
                if len(disp) != 1 or len(kcall) != 1:
                    rep.unrec("R1-linear", construct, "type dispatch on %s / kernel call not found" % g)
                    continue
                zname = [a_.id for a_ in kcall[0].args if isinstance(a_, ast.Name)]
                branches = []
                node = disp[0]
                while isinstance(node, ast.If):
                    branches.append(("GenotypeMatrix" if "GenotypeMatrix" in dump(node.test) else ("ndarray" if "ndarray" in dump(node.test) else "?"), node.body))
                    if node.orelse and not (len(node.orelse) == 1 and isinstance(node.orelse[0], ast.If)) and not isinstance(node.orelse[-1], ast.Raise):
                        # plain else branch: it serves the one remaining accepted type when a guard in front admits exactly (GenotypeMatrix, ndarray)
                        seen_k = {k_ for k_, _ in branches}
                        gt = "".join(dump(guards[0].test).split()) if len(guards) == 1 else ""
                        rest = {"GenotypeMatrix", "ndarray"} - seen_k
                        two = gt.startswith("notisinstance(%s,(" % g) and "GenotypeMatrix" in gt and "ndarray" in gt and gt.count(",") == 2
                        branches.append((rest.pop() if two and len(rest) == 1 else "?", node.orelse))
                    node = node.orelse[0] if len(node.orelse) == 1 and isinstance(node.orelse[0], ast.If) else None
                # statements after the dispatch that assemble the design from what the branches left
                after = [s_ for s_ in body[body.index(disp[0]) + 1:] if isinstance(s_, ast.Assign) and isinstance(s_.targets[0], ast.Name) and s_.targets[0].id in zname]
                REFD = {"GenotypeMatrix": "numpy.concatenate([{g}.mat_asformat('{{0,1,2}}'), numpy.logical_and({g}.mat_asformat('{{0,1,2}}') != 0, {g}.mat_asformat('{{0,1,2}}') != {g}.ploidy)], axis=1)",
                        "ndarray": "numpy.concatenate([{g}, {g} == 1], axis=1)"}
                SWAP = {"GenotypeMatrix": "numpy.concatenate([numpy.logical_and({g}.mat_asformat('{{0,1,2}}') != 0, {g}.mat_asformat('{{0,1,2}}') != {g}.ploidy), {g}.mat_asformat('{{0,1,2}}')], axis=1)",
                        "ndarray": "numpy.concatenate([{g} == 1, {g}], axis=1)"}
                for kind, bb in branches:
                    if kind not in REFD:
                        rep.unrec("R1-linear", construct, "dispatch branch %s" % kind)
                        good = False
                        continue
                    try:
                        bv = VN(prog, f)
                        for s_ in list(bb) + after:
                            if isinstance(s_, ast.Assign):
                                bv.stmt(s_)
                        zs = [bv.env.get(z_) for z_ in zname if z_ in bv.env and z_ not in f.params()]
                        ref = VN(prog, f).expr(ast.parse(REFD[kind].format(g=g), mode="eval").body)
                        swp = VN(prog, f).expr(ast.parse(SWAP[kind].format(g=g), mode="eval").body)
                    except VNUnknown as e:
                        rep.unrec("R1-linear", construct, "design of the %s branch: %s" % (kind, e))
                        good = False
                        continue
                    if not zs:
                        rep.unrec("R1-linear", construct, "design handed to the kernel is not built in the %s branch" % kind)
                        good = False
                    elif ref in zs:
                        pass
                    elif swp in zs:
                        rep.violate("R1-linear", construct, "design blocks are assembled as [D, A] in the %s branch: the coefficient blocks are [u_a; u_d], so additive effects multiply "
                                    "heterozygosity indicators" % kind, where(f), "[A, D]", "[D, A]")
                        good = False
                    elif any(comparable(z_, ref) for z_ in zs):
                        z_ = [z for z in zs if comparable(z, ref)][0]
                        rep.violate("R1-linear", construct, "the design of the %s branch normalises to %s, not [A, D] with D = (A != 0) & (A != ploidy) (A == 1 for a raw diploid array) "
                                    "along the marker axis" % (kind, z_.show()[:140]), where(f), ref.show()[:140], z_.show()[:140])
                        good = False
                    else:
                        rep.unrec("R1-linear", construct, "design of the %s branch uses other operators: %s" % (kind, zs[0].show()[:100]))
                        good = False
                if good:
                    rep.ok("R1-linear", construct, "design [A, D] with D = heterozygosity indicator in both dispatch branches")


def check_coding_labels(prog, rep):
    for m in prog.modules.values():
        if not m.name.startswith(GM):
            continue
        for c in m.classes.values():
            for f in c.methods.values():
                for n in walk_no_nested(f.node):
                    if isinstance(n, ast.Call) and isinstance(n.func, ast.Attribute) and n.func.attr == "mat_asformat" and n.args and isinstance(n.args[0], ast.Constant):
                        rep.saw(f)
                        if n.args[0].value == "{0,1,2}":
                            rep.ok("R2-coding", "%s#%d" % (f.qualname, len([1 for _ in ()])), "design taken as dosage coding {0,1,2}")
                        else:
                            rep.violate("R2-coding", f.qualname, "the genotype design is requested in coding %s; marker effects are defined on allele dosages {0,1,2}" % n.args[0].value,
                                        where(f, n), "'{0,1,2}'", repr(n.args[0].value))
                # labels
                if f.name in ("predict", "gebv", "gegv"):
                    body = body_nodoc(f.node)
                    if len(body) == 1 and isinstance(body[0], ast.Raise):
                        continue
                    outc = [n for n in walk_no_nested(f.node) if isinstance(n, ast.Call) and isinstance(n.func, ast.Attribute) and n.func.attr == "from_numpy"]
                    if len(outc) != 1:
                        continue
                    kws, _ = kwargs_of(outc[0])
                    good = True
                    g = [p for p in f.params() if p in ("gtobj", "gmat", "pgmat")]
                    if not g:
                        continue
                    g = g[0]
                    assigns = {}
                    for n in walk_no_nested(f.node):
                        if isinstance(n, ast.Assign) and isinstance(n.targets[0], ast.Name):
                            assigns.setdefault(n.targets[0].id, []).append(dump(n.value))
                    for k in ("taxa", "taxa_grp"):
                        v = kws.get(k)
                        if v is None:
                            rep.violate("R3-labels", f.qualname, "the result matrix is built without %s" % k, where(f, outc[0]), "%s=%s.%s" % (k, g, k), "absent")
                            good = False
                            continue
                        srcs = assigns.get(v.id, []) if isinstance(v, ast.Name) else [dump(v)]
                        obj = [s for s in srcs if s != "None"]
                        if not obj and isinstance(v, ast.Name):
                            # bound by tuple unpacking of a helper's result (or not bound here at all): the source is not visible in this function
                            rep.unrec("R3-labels", f.qualname, "%s of the result (%s) is not assigned from an attribute of %s in this function" % (k, v.id, g))
                            good = False
                            continue
                        if obj != ["%s.%s" % (g, k)] and not any(("%s." % g) in o for o in obj):
                            rep.unrec("R3-labels", f.qualname, "%s of the result is %s: not traced to the genotype object" % (k, obj))
                            good = False
                            continue
                        if obj != ["%s.%s" % (g, k)]:
                            rep.violate("R3-labels", f.qualname, "%s of the result is %s, not the genotype object's %s" % (k, obj, k), where(f, outc[0]), "%s.%s" % (g, k), str(obj))
                            good = False
                    if good:
                        rep.ok("R3-labels", f.qualname, "taxa / taxa_grp of the result come from %s" % g)


def check_counts(prog, rep):
    K = prog.get_class("DenseAdditiveLinearGenomicModel", GM + "DenseAdditiveLinearGenomicModel")
    for name, ref in COUNT_REF.items():
        f = K.methods.get(name)
        if f is None:
            rep.unrec("R4-counts", K.qualname, "%s vanished" % name)
            continue
        rep.saw(f)
        try:
            got, _ = _vn_body(prog, f)
            rv = VN(prog, f)
            for st in ast.parse(ref).body:
                rv.stmt(st)
            r = rv.env["out"]
        except VNUnknown as e:
            rep.unrec("R4-counts", f.qualname, "not straight-line: %s" % e)
            continue
        if got == r:
            rep.ok("R4-counts", f.qualname, "%s == %s" % (name, ref.splitlines()[-1] if "\n" not in ref else "where(u %s 0, acount, max - acount), 0 at u == 0" % (">" if name[0] == "f" else "<")))
        elif got is not None and comparable(got, r):
            rep.violate("R4-counts", f.qualname, "%s normalises to %s; its definition is %s" % (name, got.show()[:170], r.show()[:170]), where(f), r.show()[:170], got.show()[:170])
        else:
            # reformulation through the sibling count (e.g. max - facount): the zero-effect reset cannot be established
            txt = " ; ".join(dump(s) for s in body_nodoc(f.node))
            sib = "facount" if name.startswith("d") else "dacount"
            if name in ("facount", "dacount") and "self.%s(" % sib in txt and "== 0.0] = 0" not in txt:
                rep.violate("R4-counts", f.qualname, "%s is computed as the complement of %s without resetting zero-effect markers: at u == 0 it yields ploidy*n instead of 0"
                            % (name, sib), where(f), "out[self.u_a == 0.0] = 0", "absent")
            else:
                rep.unrec("R4-counts", f.qualname, "%s written with other operators: %s" % (name, got.show()[:100] if got is not None else "?"))


def check_forwarding(prog, rep):
    """R5: same-named parameter of caller and callee (both methods of the model class) must be passed on"""
    for cname in MODELS:
        K = prog.get_class(cname, GM + cname)
        if prog.mro(K) is None:
            continue
        for name, f in K.methods.items():
            cparams = [p for p in f.params() if p not in ("self", "cls")]
            for n in walk_no_nested(f.node):
                if not (isinstance(n, ast.Call) and isinstance(n.func, ast.Attribute) and isinstance(n.func.value, ast.Name) and n.func.value.id in ("self", "cls")):
                    continue
                callee = prog.lookup_method(K, n.func.attr)
                if callee is None or callee is f:
                    continue
                tps = [p for p in callee.params() if p not in ("self", "cls")]
                kws, stars = kwargs_of(n)
                passed = set(kws) | set(tps[:len(n.args)])
                shared = [p for p in tps if p in cparams and p not in ("dtype",)]
                if not shared:
                    continue
                rep.saw(f)
                miss = [p for p in shared if p not in passed]
                # a parameter re-derived from the data in the caller (e.g. ploidy = gtobj.ploidy) still has to be handed on
                if miss:
                    rep.violate("R5-forward", f.qualname, "%s() is called without %s, which both methods declare: the callee silently uses its default" % (callee.name, ", ".join(miss)),
                                where(f, n), ", ".join("%s=%s" % (p, p) for p in miss), dump(n)[:60])
                else:
                    wrong = [(p, dump(kws[p])) for p in shared if p in kws and isinstance(kws[p], ast.Name) and kws[p].id != p and kws[p].id in cparams]
                    if wrong:
                        rep.violate("R5-forward", f.qualname, "%s() receives %s" % (callee.name, ", ".join("%s=%s" % w for w in wrong)), where(f, n))
                    else:
                        rep.ok("R5-forward", "%s->%s" % (f.qualname, callee.name), "shared parameters %s forwarded" % ", ".join(shared))


def check_rrblup(prog, rep):
    """name-independent: roles are found from the keys of the result dictionary ('betahat', 'uhat', 'varE', 'varU') and from resolved callees"""
    m = prog.module(GM + "rrBLUPModel0")
    f = m.functions.get("rrBLUP_ML0")
    if f is None:
        rep.unrec("R7-rrblup", m.name, "rrBLUP_ML0 vanished")
        return
    rep.saw(f)
    body = body_nodoc(f.node)
    ps = f.params()
    yp, Zp = ps[0], ps[1]
    good = True
    assigns = [(i, st) for i, st in enumerate(body) if isinstance(st, ast.Assign) and len(st.targets) == 1]

    def last_def(name, before):
        c = [(i, st) for i, st in assigns if isinstance(st.targets[0], ast.Name) and st.targets[0].id == name and i < before]
        return c[-1] if c else (None, None)
    ret = [(i, st) for i, st in enumerate(body) if isinstance(st, ast.Return)]
    if not ret:
        rep.unrec("R7-rrblup", f.qualname, "no return")
        return
    ri, rst = ret[-1]
    rv = rst.value
    if isinstance(rv, ast.Name):
        _, d = last_def(rv.id, ri)
        rv = d.value if d is not None else None
    if not isinstance(rv, ast.Dict):
        rep.unrec("R7-rrblup", f.qualname, "result is not a dictionary literal")
        return
    out = {k.value: v for k, v in zip(rv.keys, rv.values) if isinstance(k, ast.Constant)}
    for key in ("betahat", "uhat", "varE", "varU"):
        if key not in out:
            rep.unrec("R7-rrblup", f.qualname, "result dictionary has no %r" % key)
            return

    def value_of(e, before):
        """follow one name to its defining expression"""
        if isinstance(e, ast.Name):
            i, d = last_def(e.id, before)
            if d is not None:
                return i, d.value
        return before, e
    # centring statement: the response parameter is rebound
    cen = [(i, st) for i, st in assigns if isinstance(st.targets[0], ast.Name) and st.targets[0].id == yp]
    cen_i = cen[0][0] if cen else None
    # intercept
    bi, bv = value_of(out["betahat"], ri)
    inner = None
    if isinstance(bv, ast.Call) and prog.dotted(f.module, bv.func) in ("numpy.array", "numpy.asarray") and bv.args and isinstance(bv.args[0], (ast.List, ast.Tuple)) and len(bv.args[0].elts) == 1:
        inner = bv.args[0].elts[0]
    if inner is None:
        rep.unrec("R7-rrblup", f.qualname, "intercept %s not numpy.array([<mean>])" % dump(bv)[:40])
        good = False
    else:
        mi, mv = value_of(inner, bi)
        mt = "".join(dump(mv).split())
        if mt not in ("%s.mean()" % yp, "numpy.mean(%s)" % yp, "%s.mean(0)" % yp, "numpy.mean(%s,0)" % yp):
            rep.violate("R7-rrblup", f.qualname, "the intercept is %s, not the mean of the training response" % dump(mv)[:50], where(f), "%s.mean()" % yp, dump(mv)[:50])
            good = False
        elif cen_i is not None and not (mi is not None and mi < cen_i):
            rep.violate("R7-rrblup", f.qualname, "the intercept is the mean of the response taken AFTER it was centred (always 0), not the training mean", where(f),
                        "mean before %s is centred" % yp, "mean after centring")
            good = False
    # marker effects: solver(A, b, ...)
    ui, uv = value_of(out["uhat"], ri)
    solver = prog.resolve_name(f.module, uv.func.id) if isinstance(uv, ast.Call) and isinstance(uv.func, ast.Name) else None
    if getattr(solver, "name", None) != "gauss_seidel" or len(uv.args) < 2:
        rep.unrec("R7-rrblup", f.qualname, "marker effects are not gauss_seidel(A, b, ...): %s" % dump(uv)[:50])
        return
    ai, av = value_of(uv.args[0], ui)
    bi2, bv2 = value_of(uv.args[1], ui)
    # A = H1(Z, ridge)
    H1 = prog.resolve_name(f.module, av.func.id) if isinstance(av, ast.Call) and isinstance(av.func, ast.Name) else None
    if H1 is None or not hasattr(H1, "node") or len(av.args) != 2:
        rep.unrec("R7-rrblup", f.qualname, "normal matrix %s is not <helper>(Z, ridge)" % dump(av)[:50])
        return
    rep.saw(H1)
    if dump(av.args[0]) != Zp:
        rep.violate("R7-rrblup", f.qualname, "the normal matrix is built from %s, not from the marker matrix %s" % (dump(av.args[0]), Zp), where(f, av), Zp, dump(av.args[0]))
        good = False
    # H1 body: M = Z.T @ Z ; diagonal view += ridge ; return M    (or M + ridge * eye)
    hp = H1.params()
    hb = body_nodoc(H1.node)
    hret = [s for s in hb if isinstance(s, ast.Return)]
    okh = False
    if hret and isinstance(hret[-1].value, ast.Name) and len(hp) == 2:
        Mn = hret[-1].value.id
        mdef = [s for s in hb if isinstance(s, ast.Assign) and dump(s.targets[0]) == Mn]
        try:
            gram = VN(prog, H1).expr(mdef[0].value) if mdef else None
            refg = VN(prog, H1).expr(ast.parse("%s.T @ %s" % (hp[0], hp[0]), mode="eval").body)
        except VNUnknown:
            gram = None
        views = [s for s in hb if isinstance(s, ast.Assign) and isinstance(s.value, ast.Call) and (
            (prog.dotted(H1.module, s.value.func) == "numpy.einsum" and s.value.args and isinstance(s.value.args[0], ast.Constant) and s.value.args[0].value == "ii->i"
             and len(s.value.args) == 2 and dump(s.value.args[1]) == Mn))]
        adds = [s for s in hb if isinstance(s, ast.AugAssign) and isinstance(s.op, ast.Add) and views and dump(s.target) == dump(views[0].targets[0])]
        if gram is not None and gram == refg and views and len(adds) == 1:
            if dump(adds[0].value) == hp[1]:
                okh = True
            else:
                rep.violate("R7-rrblup", H1.qualname, "the diagonal of Z'Z is increased by %s, not by the ridge parameter %s" % (dump(adds[0].value), hp[1]), where(H1, adds[0]), hp[1],
                            dump(adds[0].value))
                good = False
                okh = None
        elif gram is not None and gram != refg and comparable(gram, refg):
            rep.violate("R7-rrblup", H1.qualname, "the normal matrix normalises to %s, not Z'Z" % gram.show()[:60], where(H1), refg.show(), gram.show()[:60])
            good = False
            okh = None
        elif gram is not None and gram == refg and not adds:
            rep.violate("R7-rrblup", H1.qualname, "the ridge penalty is not added to the diagonal of Z'Z", where(H1), "diag(Z'Z) += ridge", "no diagonal update")
            good = False
            okh = None
    if okh is False:
        rep.unrec("R7-rrblup", H1.qualname, "penalised normal matrix not in the modelled form (Gram product, diagonal view, += ridge)")
        good = False
    # ridge = H2(varE, varU) = varE / varU with the names returned under 'varE' / 'varU'
    ri2, rv2 = value_of(av.args[1], ai)
    H2 = prog.resolve_name(f.module, rv2.func.id) if isinstance(rv2, ast.Call) and isinstance(rv2.func, ast.Name) else None
    if H2 is not None and hasattr(H2, "node") and len(rv2.args) == 2:
        rep.saw(H2)
        try:
            got = VN(prog, H2).run(body_nodoc(H2.node))
            p2 = H2.params()
            r = VN(prog, H2).expr(ast.parse("%s / %s" % (p2[0], p2[1]), mode="eval").body)
            if got != r:
                if got is not None and not isinstance(got, list) and comparable(got, r):
                    rep.violate("R7-rrblup", H2.qualname, "the ridge parameter normalises to %s, not error variance / marker variance" % got.show()[:60], where(H2), r.show(), got.show()[:60])
                else:
                    rep.unrec("R7-rrblup", H2.qualname, "ridge helper uses other operators")
                good = False
        except VNUnknown as e:
            rep.unrec("R7-rrblup", H2.qualname, str(e))
            good = False
        wantargs = [dump(out["varE"]), dump(out["varU"])]
        gotargs = [dump(a) for a in rv2.args]
        if gotargs != wantargs:
            rep.violate("R7-rrblup", f.qualname, "the ridge parameter is computed from (%s), not from (error variance %s, marker variance %s)" % (", ".join(gotargs), wantargs[0], wantargs[1]),
                        where(f, rv2), ", ".join(wantargs), ", ".join(gotargs))
            good = False
    elif isinstance(rv2, ast.BinOp) and isinstance(rv2.op, ast.Div):
        if [dump(rv2.left), dump(rv2.right)] != [dump(out["varE"]), dump(out["varU"])]:
            rep.violate("R7-rrblup", f.qualname, "the ridge parameter is %s, not error variance / marker variance" % dump(rv2), where(f), "%s / %s" % (dump(out["varE"]), dump(out["varU"])), dump(rv2))
            good = False
    else:
        rep.unrec("R7-rrblup", f.qualname, "ridge parameter %s" % dump(rv2)[:40])
        good = False
    # b = H3(Z, y_centred) = Z.T @ y
    H3 = prog.resolve_name(f.module, bv2.func.id) if isinstance(bv2, ast.Call) and isinstance(bv2.func, ast.Name) else None
    if H3 is not None and hasattr(H3, "node") and len(bv2.args) == 2:
        rep.saw(H3)
        try:
            got = VN(prog, H3).run(body_nodoc(H3.node))
            p3 = H3.params()
            r = VN(prog, H3).expr(ast.parse("%s.T @ %s" % (p3[0], p3[1]), mode="eval").body)
            if got != r:
                if got is not None and not isinstance(got, list) and comparable(got, r):
                    rep.violate("R7-rrblup", H3.qualname, "the right-hand side normalises to %s, not Z'y" % got.show()[:60], where(H3), r.show(), got.show()[:60])
                else:
                    rep.unrec("R7-rrblup", H3.qualname, "right-hand side helper uses other operators")
                good = False
        except VNUnknown as e:
            rep.unrec("R7-rrblup", H3.qualname, str(e))
            good = False
        if [dump(a) for a in bv2.args] != [Zp, yp]:
            rep.violate("R7-rrblup", f.qualname, "the right-hand side is built from (%s), not (%s, %s)" % (", ".join(dump(a) for a in bv2.args), Zp, yp), where(f, bv2))
            good = False
        elif cen_i is not None and bi2 is not None and bi2 < cen_i:
            rep.violate("R7-rrblup", f.qualname, "Z'y uses the uncentred response while the intercept already carries its mean", where(f, bv2))
            good = False
    else:
        rep.unrec("R7-rrblup", f.qualname, "right-hand side %s" % dump(bv2)[:40])
        good = False
    # the centring helper
    if cen:
        cv = cen[0][1].value
        H4 = prog.resolve_name(f.module, cv.func.id) if isinstance(cv, ast.Call) and isinstance(cv.func, ast.Name) else None
        if H4 is not None and hasattr(H4, "node"):
            rep.saw(H4)
            try:
                got = VN(prog, H4).run(body_nodoc(H4.node))
                p4 = H4.params()
                r = VN(prog, H4).expr(ast.parse("%s - %s.mean()" % (p4[0], p4[0]), mode="eval").body)
                if got != r:
                    if got is not None and not isinstance(got, list) and comparable(got, r):
                        rep.violate("R7-rrblup", H4.qualname, "centring normalises to %s, not y - mean(y)" % got.show()[:60], where(H4), r.show(), got.show()[:60])
                    else:
                        rep.unrec("R7-rrblup", H4.qualname, "centring helper uses other operators")
                    good = False
            except VNUnknown as e:
                rep.unrec("R7-rrblup", H4.qualname, str(e))
                good = False
    g = m.functions.get("gauss_seidel")
    if g is not None:
        rep.saw(g)
        A, b = g.params()[:2]
        upd = [s for s in ast.walk(g.node) if isinstance(s, ast.Assign) and isinstance(s.targets[0], ast.Subscript) and isinstance(s.value, ast.BinOp) and isinstance(s.value.op, ast.Div)]
        if len(upd) != 1:
            rep.unrec("R7-rrblup", g.qualname, "Gauss-Seidel update not found")
            good = False
        else:
            x = dump(upd[0].targets[0].value)
            i = dump(upd[0].targets[0].slice)
            gvn = VN(prog, g)
            try:
                for s_ in ast.walk(g.node):
                    if isinstance(s_, ast.Assign) and isinstance(s_.targets[0], ast.Name) and s_ is not upd[0] and s_.lineno < upd[0].lineno \
                            and not isinstance(s_.value, ast.Call):
                        gvn.stmt(s_)
            except VNUnknown:
                pass
            ref = parse_expr("(%s[%s] - %s[%s, :%s].dot(%s[:%s]) - %s[%s, %s + 1:].dot(%s[%s + 1:])) / %s[%s, %s]" % (b, i, A, i, i, x, i, A, i, i, x, i, A, i, i))
            got = gvn.expr(upd[0].value)
            if got != ref:
                if got.var_names() - ref.var_names():
                    rep.unrec("R7-rrblup", g.qualname, "update reads local values the rule does not trace (%s)" % ", ".join(sorted(got.var_names() - ref.var_names())))
                elif comparable(got, ref):
                    rep.violate("R7-rrblup", g.qualname, "Gauss-Seidel update normalises to %s; the sweep is (b_i - A[i,:i].x[:i] - A[i,i+1:].x[i+1:]) / A[i,i]" % got.show()[:160], where(g, upd[0]),
                                ref.show()[:160], got.show()[:160])
                else:
                    rep.unrec("R7-rrblup", g.qualname, "update written with other operators")
                good = False
        # termination: sweeps continue while ANY coordinate still moves by more than the tolerance; the previous iterate is a snapshot, not an alias
        wl = [s for s in ast.walk(g.node) if isinstance(s, ast.While)]
        if len(wl) != 1:
            rep.unrec("R7-rrblup", g.qualname, "expected one convergence loop")
            good = False
        else:
            test = wl[0].test
            parts = test.values if isinstance(test, ast.BoolOp) and isinstance(test.op, ast.And) else [test]
            conv = None
            for pt in parts:
                t = "".join(dump(pt).split())
                m1 = [q for q in ("numpy.any(", "numpy.max(", "numpy.amax(", "numpy.linalg.norm(") if t.startswith(q)]
                # the change vector is the local assigned from abs(current - previous); `change > tol` may be written `tol < change`
                chg = {s_.targets[0].id for s_ in ast.walk(g.node) if isinstance(s_, ast.Assign) and isinstance(s_.targets[0], ast.Name) and isinstance(s_.value, ast.Call)
                       and dump(s_.value.func).split(".")[-1] in ("abs", "absolute")}
                inner = [c_ for c_ in ast.walk(pt) if isinstance(c_, ast.Compare) and len(c_.ops) == 1]
                gt_tol = False
                for c_ in inner:
                    o_ = oriented(c_, lambda e: isinstance(e, ast.Name) and e.id in chg)
                    if o_ is not None and isinstance(o_.ops[0], (ast.Gt, ast.GtE)):
                        gt_tol = True
                if t.startswith("numpy.all(") and gt_tol:
                    conv = ("all", pt)
                elif m1 and gt_tol:
                    conv = ("any", pt)
                elif (".max()>" in t or ".any()" in t) and ">" in t:
                    conv = ("any", pt)
                elif t.startswith("notnumpy.all(") and ("<=" in t or "<" in t):
                    conv = ("any", pt)
            if conv is None:
                rep.unrec("R7-rrblup", g.qualname, "convergence test %s" % dump(test)[:60])
                good = False
            elif conv[0] == "all":
                rep.violate("R7-rrblup", g.qualname, "the sweeps continue only while ALL coordinates still move (%s): the solver stops as soon as one coordinate is stationary, "
                            "before the others have converged" % dump(conv[1])[:50], where(g, conv[1]), "numpy.any(change > atol)", dump(conv[1])[:50])
                good = False
            snap = [s for s in wl[0].body if isinstance(s, ast.Assign) and isinstance(s.value, ast.Name) and dump(s.value) == (dump(upd[0].targets[0].value) if len(upd) == 1 else "?")]
            for sst in snap:
                if isinstance(sst.targets[0], ast.Name):
                    rep.violate("R7-rrblup", g.qualname, "`%s` aliases the current iterate instead of copying it: the measured change is always 0 and the solver stops after one sweep"
                                % dump(sst), where(g, sst), "%s[:] = %s" % (dump(sst.targets[0]), dump(sst.value)), dump(sst))
                    good = False
    # fit_numpy: estimates scattered through a polymorphism mask, the complement set to exactly 0 (roles from the constructor keyword u_a and the solver call)
    K = prog.get_class("rrBLUPModel0", GM + "rrBLUPModel0")
    fn = K.methods.get("fit_numpy")
    if fn is not None:
        rep.saw(fn)
        Zf = fn.params()[3] if len(fn.params()) > 3 else "Z"
        fa = {}
        for st in walk_no_nested(fn.node):
            if isinstance(st, ast.Assign) and len(st.targets) == 1 and isinstance(st.targets[0], ast.Name):
                fa.setdefault(st.targets[0].id, []).append(st.value)
        ctor = [c_ for c_ in walk_no_nested(fn.node) if isinstance(c_, ast.Call) and dump(c_.func) == "cls"]
        ck = kwargs_of(ctor[0])[0] if len(ctor) == 1 else {}
        U = ck.get("u_a")
        if not isinstance(U, ast.Name):
            rep.unrec("R7-rrblup", fn.qualname, "constructor keyword u_a is not a local array")
            good = False
        else:
            U = U.id
            stores = [st for st in walk_no_nested(fn.node) if isinstance(st, ast.Assign) and isinstance(st.targets[0], ast.Subscript) and dump(st.targets[0].value) == U]
            alloc = fa.get(U, [None])[0]
            afn = prog.dotted(fn.module, alloc.func) if isinstance(alloc, ast.Call) else None
            # mask: the index of the Z columns handed to the solver
            solved = [c_ for c_ in ast.walk(fn.node) if isinstance(c_, ast.Call) and isinstance(c_.func, ast.Name) and getattr(prog.resolve_name(fn.module, c_.func.id), "name", None) == "rrBLUP_ML0"]
            mask = None
            if len(solved) == 1 and len(solved[0].args) >= 2 and isinstance(solved[0].args[1], ast.Name):
                zs = fa.get(solved[0].args[1].id, [None])[0]
                if isinstance(zs, ast.Subscript) and dump(zs.value) == Zf and isinstance(zs.slice, ast.Tuple) and len(zs.slice.elts) == 2 and isinstance(zs.slice.elts[1], ast.Name):
                    mask = zs.slice.elts[1].id
            if mask is None:
                rep.unrec("R7-rrblup", fn.qualname, "solver is not given Z[:, <mask>]")
                good = False
            else:
                md = fa.get(mask, [None])[0]
                mt = "".join(dump(md).split()) if md is not None else ""
                okmask = [x % (a_, b_) for x in ("~numpy.all(%s==%s,axis=0)", "numpy.any(%s!=%s,axis=0)", "numpy.logical_not(numpy.all(%s==%s,axis=0))")
                          for a_, b_ in ((Zf, Zf + "[0,:]"), (Zf + "[0,:]", Zf))]
                mask_ok = mt in okmask
                if not mask_ok and md is not None:
                    # same value written with a positional axis / another spelling: compare by value number
                    try:
                        mvn = VN(prog, fn).expr(md)
                        mask_ok = any(mvn == VN(prog, fn).expr(ast.parse(x_, mode="eval").body) for x_ in okmask)
                    except VNUnknown:
                        pass
                if not mask_ok:
                    if "numpy.all(" in mt and not mt.startswith(("~", "numpy.logical_not")):
                        rep.violate("R7-rrblup", fn.qualname, "the markers handed to the solver are the MONOMORPHIC ones (%s)" % dump(md)[:60], where(fn), "~numpy.all(Z == Z[0,:], axis=0)", dump(md)[:60])
                    else:
                        rep.unrec("R7-rrblup", fn.qualname, "polymorphism mask %s" % mt[:60])
                    good = False
                def row_sel(st):
                    sl = st.targets[0].slice
                    e0 = sl.elts[0] if isinstance(sl, ast.Tuple) and len(sl.elts) == 2 else (sl if not isinstance(sl, ast.Tuple) else None)
                    if isinstance(e0, ast.Name) and e0.id == mask:
                        return "mask"
                    if isinstance(e0, ast.UnaryOp) and isinstance(e0.op, ast.Invert) and isinstance(e0.operand, ast.Name) and e0.operand.id == mask:
                        return "complement"
                    if isinstance(e0, ast.Call) and prog.dotted(fn.module, e0.func) == "numpy.logical_not" and len(e0.args) == 1 and dump(e0.args[0]) == mask:
                        return "complement"
                    return None
                est = [st for st in stores if row_sel(st) == "mask"]
                zero = [st for st in stores if row_sel(st) == "complement"]
                zero_ok = (len(zero) == 1 and isinstance(zero[0].value, ast.Constant) and zero[0].value.value == 0) or afn == "numpy.zeros"
                if len(est) == 1 and not isinstance(est[0].value, ast.Name):
                    rep.unrec("R7-rrblup", fn.qualname, "estimates scattered from %s (another formulation)" % dump(est[0].value)[:40])
                    good = False
                elif len(est) != 1:
                    rep.violate("R7-rrblup", fn.qualname, "the estimates are not scattered to the rows of the markers that were fitted (%s[%s, :] = <estimates>); stores: %s"
                                % (U, mask, [dump(st)[:40] for st in stores]), where(fn), "%s[%s, :] = uhat" % (U, mask), str([dump(st)[:40] for st in stores]))
                    good = False
                if not zero_ok:
                    rep.violate("R7-rrblup", fn.qualname, "monomorphic markers do not get exactly 0: %s is allocated with %s and the complement rows are %s"
                                % (U, afn, [dump(st)[:40] for st in zero] or "never written"), where(fn), "%s[~%s, :] = 0.0" % (U, mask), str([dump(st)[:40] for st in stores]))
                    good = False
    if good:
        rep.ok("R7-rrblup", f.qualname, "intercept = uncentred mean; ridge = varE/varU on the diagonal of Z'Z; Z'y; Gauss-Seidel sweep; monomorphic markers -> 0")


def check_stack_and_response(prog, rep):
    """R8-stack: `u` is the stacked coefficient vector the kernels multiply the stacked design [Z_misc, Z_a(, Z_d)] with: [u_misc; u_a(; u_d)] in that order along axis 0.
    R9-response: a breeding-value matrix handed to fit / score as response is read on the original scale (`ptobj.unscale()`), never as the standardised store `.mat`."""
    want = {"DenseAdditiveLinearGenomicModel": ["u_misc", "u_a"], "DenseAdditiveDominanceLinearGenomicModel": ["u_misc", "u_a", "u_d"]}
    for cname, order in want.items():
        K = prog.get_class(cname, GM + cname)
        P = K.own_props.get("u")
        f = P.getter if P is not None else None
        if f is None:
            rep.unrec("R8-stack", K.qualname, "u getter vanished")
            continue
        rep.saw(f)
        cc = [c_ for c_ in walk_no_nested(f.node) if isinstance(c_, ast.Call) and (prog.dotted(f.module, c_.func) or "") in ("numpy.concatenate", "numpy.vstack", "numpy.row_stack")]
        if len(cc) != 1 or not cc[0].args or not isinstance(cc[0].args[0], (ast.List, ast.Tuple)):
            rep.unrec("R8-stack", f.qualname, "u is not one concatenation of the coefficient blocks")
            continue
        got = [field_of(e) for e in cc[0].args[0].elts]
        got = [g_.lstrip("_") if g_ else None for g_ in got]
        kws, _ = kwargs_of(cc[0])
        ax = cc[0].args[1] if len(cc[0].args) > 1 else kws.get("axis")
        if got == order and (ax is None or (isinstance(ax, ast.Constant) and ax.value == 0)):
            rep.ok("R8-stack", f.qualname, "u = [%s] along axis 0" % "; ".join(order))
        elif None not in got and sorted(got) == sorted(order):
            rep.violate("R8-stack", f.qualname, "the coefficient blocks are stacked as [%s]; the design the kernels multiply them with is [%s]: covariates meet the effects of the "
                        "other block" % ("; ".join(got), "; ".join(order)), where(f, cc[0]), str(order), str(got))
        else:
            rep.unrec("R8-stack", f.qualname, "stacked blocks %s" % got)
    for m in sorted(prog.modules.values(), key=lambda m_: m_.name):
        if not m.name.startswith(GM):
            continue
        for c in m.classes.values():
            for f in c.methods.values():
                for st in walk_no_nested(f.node):
                    if not (isinstance(st, ast.If) and "isinstance(ptobj,BreedingValueMatrix)" in "".join(dump(st.test).split())):
                        continue
                    rep.saw(f)
                    asg = [x for x in st.body if isinstance(x, ast.Assign)]
                    vals = [dump(x.value) for x in asg]
                    construct = "%s#response" % f.qualname
                    if any(v == "ptobj.unscale()" for v in vals):
                        rep.ok("R9-response", construct, "response read on the original scale")
                    elif any(v in ("ptobj.mat", "ptobj._mat") for v in vals):
                        rep.violate("R9-response", construct, "the response is the STANDARDISED store of the breeding-value matrix (ptobj.mat): the model is fitted / scored on centred, "
                                    "unit-scale values - the intercept no longer reproduces the training mean", where(f, st), "ptobj.unscale()", "ptobj.mat")
                    else:
                        rep.unrec("R9-response", construct, "response taken as %s" % vals)


def run(prog, rep, tier):
    rep.explanation = ("Spec congruence of the numpy kernels, count/flag definitions and the rrBLUP assembly through an algebraic normal form, plus structural rules for the "
                       "intercept row, the dominance design blocks, genotype coding, label hand-off and same-named parameter forwarding; the boundary-exactness taint of C09 "
                       "is applied to the model code.")
    rep.not_decided = ["convergence of Nelder-Mead and Gauss-Seidel, 'never worse than the zero solution' (numerical optimisation)",
                       "invariance to taxon order and marker partition as numerical facts (they follow from R1 for exact arithmetic)"]
    for r, n in (("R1-linear", 18), ("R2-coding", 10), ("R3-labels", 5), ("R4-counts", 12), ("R5-forward", 10), ("R5-exact-at-one", 4), ("R7-rrblup", 1), ("R8-stack", 2), ("R9-response", 4)):
        rep.floor(r, n)
    check_kernels(prog, rep)
    check_coding_labels(prog, rep)
    check_counts(prog, rep)
    check_forwarding(prog, rep)
    c09.check_exactness(prog, rep, tier, sink_filter=c09.NOT_SELECTION)
    check_rrblup(prog, rep)
    check_stack_and_response(prog, rep)
    wire(prog, rep, "C04", 1, 190)
