"""
C02  Realised recombination and segregation match the crossover probabilities  (structural necessary conditions only)

The statement is distributional; no static argument bounds a limit over generator streams.  Decided here are the facts
without which the distribution is wrong for EVERY stream (rule text and implementation shared with C01 / C11):

  C02-R1-uniforms   one independent U[0,1) number per (gamete, marker) from the supplied generator, row i for gamete i
  C02-R2-alignment  full row compared with the full, unshifted xoprob; segment copied before the toggle
  C02-R3-toggle     exactly one phase toggle per crossover index
  R3-crossover      strict `<` (a probability-0 interval never recombines)
  R4-assignment     xoprob := mapfn(sequential distance of interpolated positions); +inf at every chromosome start; mapfn(+inf) = 1/2
                    "with crossover probability one half at every chromosome start ... each of the two parental copies is transmitted with probability one half"
  C02-R5-generator  every mat_mate / mat_dh call of the seven protocols passes pgmat.vrnt_xoprob and self.rng
  C02-R6-carry      the progeny matrix of every protocol carries the parents' vrnt_xoprob and map coordinates under their own names (later generations)
"""
import ast

from rules import c01, c11
from sa.model import AnalysisError
from sa.astutil import dump, where, walk_no_nested


def check_boundary_sets(prog, rep):
    """C02-R3-toggle (set form): a kernel that turns the crossover index list into segment boundaries must keep one boundary per crossover.  A SET operation
    (numpy.union1d / unique / set) over the crossover indices together with the sentinel 0 merges a crossover at marker 0 with the sentinel: the phase toggle of
    that crossover is lost, and marker 0 is where every first chromosome start (probability 1/2) lies - the first copy is then always transmitted."""
    for modname, name in ((c01.UTIL, "mat_meiosis"), (c01.CORE, "dense_meiosis")):
        f = prog.func(modname, name)
        xo = set()
        for n in walk_no_nested(f.node):
            if isinstance(n, ast.Assign) and len(n.targets) == 1 and isinstance(n.targets[0], ast.Name) and isinstance(n.value, ast.Call) \
                    and prog.dotted(f.module, n.value.func) in ("numpy.flatnonzero", "numpy.nonzero", "numpy.where", "numpy.argwhere"):
                xo.add(n.targets[0].id)
        for c in walk_no_nested(f.node):
            if not isinstance(c, ast.Call):
                continue
            d = prog.dotted(f.module, c.func) or (c.func.id if isinstance(c.func, ast.Name) else "")
            if d in ("numpy.union1d", "numpy.unique", "set", "frozenset", "numpy.setxor1d") and any(isinstance(x, ast.Name) and x.id in xo for a in c.args for x in ast.walk(a)):
                has_zero = any(isinstance(x, ast.Constant) and x.value == 0 and not isinstance(x.value, bool) for a in c.args for x in ast.walk(a))
                if has_zero or d in ("set", "frozenset", "numpy.unique"):
                    rep.violate("C02-R3-toggle", f.qualname, "segment boundaries are the SET %s: a crossover at marker 0 coincides with the sentinel 0 and its phase toggle is lost "
                                "(every gamete starts on the first parental copy although the first chromosome start has crossover probability 1/2)" % dump(c)[:60], where(f, c),
                                "one boundary and one toggle per crossover index", dump(c)[:60])



def run(prog, rep, tier):
    rep.explanation = ("Template verification of the meiosis kernel for the structural facts the output distribution depends on for every "
                       "generator stream, plus the crossover-probability assignment chain (interpolated positions -> sequential distance with +inf at "
                       "chromosome starts -> map function with limit 1/2).  Convergence rates and independence of the bit generator are NOT decided.")
    rep.not_decided = ["every distributional limit (convergence of realised recombination fractions, independence across intervals as a statistical fact)",
                       "Haldane composition for non-adjacent markers as a numerical fact"]
    rep.only_rules = {"C02-R1-uniforms", "C02-R2-alignment", "C02-R3-toggle", "R3-crossover", "R2-sequential", "R6-xoprob", "R1-formulas",
                      "C02-R5-generator", "C02-R6-carry"}
    for r, n in (("C02-R1-uniforms", 2), ("C02-R2-alignment", 2), ("C02-R3-toggle", 2), ("R3-crossover", 2), ("R2-sequential", 2),
                 ("R6-xoprob", 1), ("R1-formulas", 14), ("C02-R5-generator", 7), ("C02-R6-carry", 7)):
        rep.floor(r, n)
    c01.run_meiosis_rules(prog, rep)
    check_boundary_sets(prog, rep)
    c11.check_mapfns(prog, rep)
    for mod, cname in c11.GMAPS:
        c11.check_gdist1g(prog, rep, prog.get_class(cname, mod))
    c11.check_interp_xoprob(prog, rep)
    # R5: generator and probabilities at every meiosis call of the protocols (part of the protocol evaluation)
    for c in c01.PROTOCOLS:
        c01.check_meiosis_calls(prog, rep, c)
