"""
C13  Relationship matrices match their definitions and algebraic laws

  R1-estimators  each from_gmat normalises (algebraic normal form) to its published formula: molecular 1 + XX'/m with X in {-1,0,1}
                 (haploid (2/m)(XX' + YY'), Y = 1-X); VanRaden ZZ'/(ploidy * p.(1-p)), Z = X - ploidy*p; Yang (Z/sqrt(ploidy p(1-p)))(...)'/m;
                 generalised weighted (Z*w)Z'; the default reference frequencies are the matrix's own afreq(); a scalar argument is broadcast
                 from ITSELF  "equal their published formulas evaluated independently"
  R3-kinship     in every format-taking method the kinship value is exactly 0.5 x the coancestry value (or the inverse of the halved matrix)
                 "the kinship view is exactly half the coancestry view"
  R4-labels      taxa, taxa_grp and the four group fields come from the same-named attributes of the source  "carries the taxon labels of its source"
  R5-summaries   min_inbreeding == 1/sum(inv(G)), max_inbreeding == max diag(G)  "agree with direct linear-algebra evaluation"
  R6-accumulator (C09) no Gram product is carried out in int8
"""
import ast

from sa.ctorflow import wire


from sa.astutil import dump, where, kwargs_of, walk_no_nested, field_of, is_guard
from sa.model import body_nodoc
from sa.vn import VN, Poly, VNUnknown, comparable
from sa.dtypes import DtypeScan

CM = "pybrops.popgen.cmat."
REFS = {
    # name -> (list of (branch condition text or None, reference expr))
    "DenseVanRadenCoancestryMatrix": "(1.0 / (float(gmat.ploidy) * p_anc.dot(1.0 - p_anc))) * (gmat.tacount() - p_anc[None, :] * float(gmat.ploidy)).dot((gmat.tacount() - p_anc[None, :] * float(gmat.ploidy)).T)",
    "DenseYangCoancestryMatrix": "(1.0 / gmat.nvrnt) * ((gmat.tacount() - p_anc[None, :] * float(gmat.ploidy)) * (1.0 / numpy.sqrt(float(gmat.ploidy) * p_anc * (1.0 - p_anc)))).dot(((gmat.tacount() - p_anc[None, :] * float(gmat.ploidy)) * (1.0 / numpy.sqrt(float(gmat.ploidy) * p_anc * (1.0 - p_anc)))).T)",
    "DenseGeneralizedWeightedCoancestryMatrix": "((gmat.tacount() - float(gmat.ploidy) * afreq[None, :]) * mkrwt[None, :]).dot((gmat.tacount() - float(gmat.ploidy) * afreq[None, :]).T)",
}
MOLECULAR = {1: "2.0 * (1.0 / gmat.nvrnt) * (X @ X.T + (1 - X) @ (1 - X).T)", 2: "1.0 + (1.0 / gmat.nvrnt) * ((X - 1) @ (X - 1).T)"}


def _tail(f):
    """statements after the argument-normalisation ifs (top-level non-If, non-check statements) up to the construction"""
    out = []
    for st in body_nodoc(f.node):
        if isinstance(st, ast.Expr):
            continue
        out.append(st)
    return out


def check_estimators(prog, rep):
    for cname, ref in REFS.items():
        c = prog.get_class(cname, CM + cname)
        f = prog.own_method(c, "from_gmat")
        rep.saw(f)
        construct = f.qualname
        # argument normalisation: every `elif isinstance(V, Real): V = numpy.full(shape, FILL)` / repeat must broadcast V itself;
        # `if V is None: V = gmat.afreq()` for frequencies
        args = [p for p in f.params()[2:]]
        good = True
        for st in body_nodoc(f.node):
            if not isinstance(st, ast.If):
                continue
            node = st
            while node is not None:
                t = dump(node.test)
                for s in node.body:
                    if isinstance(s, ast.Assign) and isinstance(s.targets[0], ast.Name) and s.targets[0].id in args:
                        V = s.targets[0].id
                        v = s.value
                        if t == "%s is None" % V:
                            if V in ("p_anc", "afreq"):
                                if dump(v) != "gmat.afreq()":
                                    rep.violate("R1-estimators", construct, "default reference frequencies are %s, not the matrix's own gmat.afreq()" % dump(v)[:50], where(f, s),
                                                "gmat.afreq()", dump(v)[:50])
                                    good = False
                            elif V == "mkrwt":
                                fill = v.args[1] if isinstance(v, ast.Call) and len(v.args) > 1 else None
                                if fill is None or not (isinstance(fill, ast.Constant) and fill.value == 1):
                                    rep.violate("R1-estimators", construct, "default marker weights are %s, not 1" % dump(v)[:50], where(f, s), "numpy.full((nvrnt,), 1.0)", dump(v)[:50])
                                    good = False
                        elif "isinstance(%s," % V in t and isinstance(v, ast.Call):
                            d = dump(v.func)
                            fill = None
                            if d == "numpy.full" and len(v.args) >= 2:
                                fill = v.args[1]
                            elif d == "numpy.repeat" and len(v.args) >= 2:
                                fill = v.args[0]
                            if fill is not None and dump(fill) != V:
                                if isinstance(fill, ast.Name) and fill.id in args:
                                    rep.violate("R1-estimators", construct, "scalar argument %s is broadcast from %s instead of from itself" % (V, fill.id), where(f, s),
                                                "numpy.full(..., %s)" % V, dump(v)[:60])
                                else:
                                    rep.violate("R1-estimators", construct, "scalar argument %s is replaced by %s" % (V, dump(fill)[:30]), where(f, s), V, dump(fill)[:30])
                                good = False
                node = node.orelse[0] if len(node.orelse) == 1 and isinstance(node.orelse[0], ast.If) else None
        # formula
        vn = VN(prog, f)
        G = None
        try:
            for st in body_nodoc(f.node):
                if isinstance(st, (ast.If, ast.Expr)):
                    continue
                if isinstance(st, ast.Assign) and isinstance(st.value, ast.Call) and dump(st.value.func) == "cls":
                    kws, _ = kwargs_of(st.value)
                    G = vn.expr(kws["mat"])
                    break
                if isinstance(st, ast.Assign) and (isinstance(st.value, ast.IfExp) or "copy()" in dump(st.value)):
                    continue
                vn.stmt(st)
        except VNUnknown as e:
            rep.unrec("R1-estimators", construct, "formula not straight-line: %s" % e)
            continue
        if G is None:
            rep.unrec("R1-estimators", construct, "construction cls(mat=...) not found")
            continue
        r = VN(prog, f).expr(ast.parse(ref, mode="eval").body)
        if G == r:
            if good:
                rep.ok("R1-estimators", construct, "normalises to the published estimator", sample={"estimator": cname, "normal_form": G.show()[:240]})
        elif comparable(G, r):
            rep.violate("R1-estimators", construct, "estimator normalises to %s; the published formula is %s" % (G.show()[:200], r.show()[:200]), where(f), r.show()[:200], G.show()[:200])
        else:
            rep.unrec("R1-estimators", construct, "estimator written with operators the reference does not use")
    # molecular: two ploidy branches
    c = prog.get_class("DenseMolecularCoancestryMatrix", CM + "DenseMolecularCoancestryMatrix")
    f = prog.own_method(c, "from_gmat")
    rep.saw(f)
    construct = f.qualname
    vn0 = VN(prog, f)
    done = set()
    # roles: the ploidy local, the dosage local, the result handed to cls(mat=...)  (never by the names they happen to have)
    gp = f.params()[1] if len(f.params()) > 1 else "gmat"
    fasg = {}
    for n_ in walk_no_nested(f.node):
        if isinstance(n_, ast.Assign) and len(n_.targets) == 1 and isinstance(n_.targets[0], ast.Name):
            fasg.setdefault(n_.targets[0].id, []).append(n_.value)
    PL = {k for k, vs in fasg.items() if any("".join(dump(v).split()) == "%s.ploidy" % gp for v in vs)} | {"%s.ploidy" % gp}
    XN = [k for k, vs in fasg.items() if any("".join(dump(v).split()).startswith("%s.tacount(" % gp) for v in vs)]
    ctor_ = [c_ for c_ in walk_no_nested(f.node) if isinstance(c_, ast.Call) and dump(c_.func) == "cls"]
    MN = None
    if len(ctor_) == 1:
        mk = kwargs_of(ctor_[0])[0].get("mat")
        MN = mk.id if isinstance(mk, ast.Name) else None
    if MN is None or len(XN) != 1:
        rep.unrec("R1-estimators", construct, "roles not found (dosage local %s, result local %s)" % (XN, MN))
        return
    XN = XN[0]
    try:
        for st in body_nodoc(f.node):
            if isinstance(st, ast.Expr):
                continue
            if isinstance(st, ast.If):
                node = st
                while node is not None:
                    t = node.test
                    pl = None
                    if isinstance(t, ast.Compare) and dump(t.left) in PL and isinstance(t.comparators[0], ast.Constant):
                        pl = t.comparators[0].value
                    if pl in MOLECULAR:
                        sub = VN(prog, f, env=dict(vn0.env))
                        for s in node.body:
                            sub.stmt(s)
                        got = sub.env.get(MN)
                        Xsym = vn0.env.get(XN)
                        if Xsym is None:
                            rep.unrec("R1-estimators", construct, "the coded genotypes %s are not defined before the ploidy branches (another formulation)" % XN)
                            done.add(pl)
                            node = node.orelse[0] if len(node.orelse) == 1 and isinstance(node.orelse[0], ast.If) else None
                            continue
                        r = VN(prog, f, env={"X": Xsym}).expr(ast.parse(MOLECULAR[pl], mode="eval").body)
                        if got == r:
                            rep.ok("R1-estimators", construct + "#ploidy%d" % pl, "molecular coancestry (ploidy %d) == %s" % (pl, MOLECULAR[pl]))
                        elif got is not None and comparable(got, r):
                            rep.violate("R1-estimators", construct, "molecular coancestry for ploidy %d normalises to %s; the definition is %s" % (pl, got.show()[:160], r.show()[:160]),
                                        where(f, node), MOLECULAR[pl], got.show()[:160])
                        else:
                            rep.unrec("R1-estimators", construct, "ploidy-%d branch not modelled" % pl)
                        done.add(pl)
                    nxt = node.orelse[0] if len(node.orelse) == 1 and isinstance(node.orelse[0], ast.If) else None
                    if nxt is None and node.orelse:
                        # a plain `else` is the remaining ploidy when a guard above admits only the modelled ploidies
                        left = sorted(set(MOLECULAR) - done)
                        guarded = any(is_guard(g) and isinstance(g.test, ast.Compare) and len(g.test.ops) == 1 and isinstance(g.test.ops[0], ast.NotIn) and dump(g.test.left) in PL
                                      and isinstance(g.test.comparators[0], (ast.List, ast.Tuple, ast.Set))
                                      and sorted(getattr(x, "value", None) for x in g.test.comparators[0].elts) == sorted(MOLECULAR) for g in body_nodoc(f.node))
                        if len(left) == 1 and guarded:
                            pl = left[0]
                            sub = VN(prog, f, env=dict(vn0.env))
                            for s_ in node.orelse:
                                sub.stmt(s_)
                            got = sub.env.get(MN)
                            r = VN(prog, f, env={"X": vn0.env.get(XN)}).expr(ast.parse(MOLECULAR[pl], mode="eval").body)
                            if got == r:
                                rep.ok("R1-estimators", construct + "#ploidy%d" % pl, "molecular coancestry (ploidy %d, else branch) == %s" % (pl, MOLECULAR[pl]))
                            elif got is not None and comparable(got, r):
                                rep.violate("R1-estimators", construct, "molecular coancestry for ploidy %d normalises to %s; the definition is %s" % (pl, got.show()[:160], r.show()[:160]),
                                            where(f, node), MOLECULAR[pl], got.show()[:160])
                            else:
                                rep.unrec("R1-estimators", construct, "ploidy-%d branch not modelled" % pl)
                            done.add(pl)
                    node = nxt
                continue
            if isinstance(st, ast.Assign) and (isinstance(st.value, ast.IfExp) or dump(st.value.func if isinstance(st.value, ast.Call) else st.value) == "cls"):
                continue
            if isinstance(st, ast.Assign) and isinstance(st.targets[0], ast.Name):
                vn0.stmt(st)
    except VNUnknown as e:
        rep.unrec("R1-estimators", construct, "not straight-line: %s" % e)
    if done != {1, 2}:
        rep.unrec("R1-estimators", construct, "ploidy branches found: %s" % sorted(done))
    # dosage source: X = gmat.tacount(<accumulator-safe dtype>)
    for cname in list(REFS) + ["DenseMolecularCoancestryMatrix"]:
        c = prog.get_class(cname, CM + cname)
        f = prog.own_method(c, "from_gmat")
        sc = DtypeScan(prog, f, None).run()
        for node, msg in sc.findings:
            rep.violate("R6-accumulator", f.qualname, msg, where(f, node), "dosages in a wide dtype before the Gram product", dump(node)[:60])
        if not sc.findings:
            rep.ok("R6-accumulator", f.qualname, "Gram product operands are not int8")


def _specialise(prog, f, fmt):
    """evaluate a format-taking method with `format` fixed to the literal fmt: returns Poly of the result"""
    vn = VN(prog, f)

    def run(stmts):
        for st in stmts:
            if isinstance(st, ast.Expr):
                continue
            if isinstance(st, ast.Assign) and dump(st.targets[0]) == "format":
                continue
            if isinstance(st, ast.If):
                t = st.test
                if isinstance(t, ast.Compare) and dump(t.left) == "format" and isinstance(t.comparators[0], ast.Constant) and isinstance(t.ops[0], ast.Eq):
                    r = run(st.body) if t.comparators[0].value == fmt else run(st.orelse)
                    if r is not None:
                        return r
                    continue
                raise VNUnknown("condition %s" % dump(t)[:40])
            if isinstance(st, ast.Return):
                return vn.expr(fold(st.value))
            if isinstance(st, ast.Raise):
                return None
            if isinstance(st, ast.Assign):
                st = ast.copy_location(ast.Assign(targets=st.targets, value=fold(st.value)), st)
            vn.stmt(st)
        return None

    def fold(e):
        """`A if format == "<literal>" else B` (the model's reading of `if format == ...: return A` + `return B`) with the format fixed"""
        import copy

        class F(ast.NodeTransformer):
            def visit_IfExp(self, n):
                self.generic_visit(n)
                t = n.test
                if isinstance(t, ast.Compare) and len(t.ops) == 1 and isinstance(t.ops[0], (ast.Eq, ast.NotEq)) and dump(t.left) == "format" and isinstance(t.comparators[0], ast.Constant):
                    same = (t.comparators[0].value == fmt)
                    if isinstance(t.ops[0], ast.NotEq):
                        same = not same
                    return n.body if same else n.orelse
                return n
        return F().visit(copy.deepcopy(e))

    return run(body_nodoc(f.node))


def check_kinship(prog, rep):
    c = prog.get_class("DenseCoancestryMatrix", CM + "DenseCoancestryMatrix")
    n = 0
    for name, f in sorted(c.methods.items()):
        if "format" not in f.params() or name.startswith(("from_", "to_", "__")):
            continue
        rep.saw(f)
        construct = f.qualname
        try:
            co = _specialise(prog, f, "coancestry")
            ki = _specialise(prog, f, "kinship")
        except VNUnknown as e:
            rep.info("R3-kinship", construct, "not modelled: %s" % e)
            continue
        if co is None or ki is None:
            rep.info("R3-kinship", construct, "no value for one of the formats")
            continue
        if "('attr', 'mat')" not in repr(co.key()):
            continue        # a helper that only takes the format name (validation), not a view of the matrix
        n += 1
        half = co.scale("1/2")
        # a value that is the INVERSE of the matrix is homogeneous of degree -1: K = G/2  =>  inv(K) = 2 inv(G)
        is_inverse = any(isinstance(a, tuple) and a[0] == "np.linalg.inv" for a in co.atoms()) and len(co.terms) == 1 and not any(
            isinstance(a, tuple) and a[0] in ("red", "inv") for a in co.atoms())
        if is_inverse:
            try:
                alt = VN(prog, f).expr(ast.parse("numpy.linalg.inv(0.5 * self._mat)", mode="eval").body)
            except VNUnknown:
                alt = None
            if ki == co.scale(2) or ki == alt:
                rep.ok("R3-kinship", construct, "kinship inverse == inverse of 0.5 * coancestry (= 2 * coancestry inverse)")
            elif comparable(ki, co):
                rep.violate("R3-kinship", construct, "the kinship inverse normalises to %s; with K = G/2 the inverse is inv(0.5*G) = 2*inv(G), not %s"
                            % (ki.show()[:80], "half of inv(G)" if ki == half else "that"), where(f), "numpy.linalg.inv(0.5 * self._mat)", ki.show()[:80])
            else:
                rep.unrec("R3-kinship", construct, "kinship inverse uses other operators")
            continue
        if ki == half:
            rep.ok("R3-kinship", construct, "kinship value == 0.5 * coancestry value")
            continue
        # inverse of the halved matrix
        try:
            alt = VN(prog, f).expr(ast.parse("numpy.linalg.inv(0.5 * self._mat)", mode="eval").body)
        except VNUnknown:
            alt = None
        if name == "inverse" and ki == alt:
            rep.ok("R3-kinship", construct, "kinship inverse == inverse of 0.5 * coancestry")
        elif comparable(ki, half):
            rep.violate("R3-kinship", construct, "kinship value normalises to %s, which is not half the coancestry value %s" % (ki.show()[:100], co.show()[:100]), where(f),
                        half.show()[:100], ki.show()[:100])
        else:
            rep.unrec("R3-kinship", construct, "kinship branch uses other operators than the coancestry branch")
    # the two accessors
    for nm, factor in (("coancestry", 1), ("kinship", "1/2")):
        f = c.methods.get(nm)
        if f is None:
            continue
        rep.saw(f)
        body = body_nodoc(f.node)
        try:
            v = VN(prog, f).expr(body[-1].value)
            ref = VN(prog, f).expr(ast.parse("self._mat[args]", mode="eval").body).scale(factor)
            if v == ref:
                rep.ok("R3-kinship", f.qualname, "%s accessor == %s * stored matrix" % (nm, factor))
            elif comparable(v, ref):
                rep.violate("R3-kinship", f.qualname, "%s accessor returns %s" % (nm, v.show()[:80]), where(f), ref.show()[:80], v.show()[:80])
            else:
                rep.unrec("R3-kinship", f.qualname, "accessor not modelled")
        except (VNUnknown, AttributeError, IndexError):
            rep.unrec("R3-kinship", f.qualname, "accessor not modelled")
    # R5 summaries
    for nm, ref in (("min_inbreeding", "1.0 / numpy.linalg.inv(self.mat).sum()"), ("max_inbreeding", "self.mat.diagonal().max()")):
        f = c.methods.get(nm)
        if f is None:
            rep.unrec("R5-summaries", c.qualname, "%s vanished" % nm)
            continue
        try:
            got = _specialise(prog, f, "coancestry")
            r = VN(prog, f).expr(ast.parse(ref, mode="eval").body)
            if got == r:
                rep.ok("R5-summaries", f.qualname, "%s == %s" % (nm, ref))
            elif got is not None and comparable(got, r):
                rep.violate("R5-summaries", f.qualname, "%s normalises to %s; its definition is %s" % (nm, got.show()[:100], r.show()[:100]), where(f), ref, got.show()[:100])
            else:
                rep.unrec("R5-summaries", f.qualname, "summary not modelled")
        except VNUnknown as e:
            rep.unrec("R5-summaries", f.qualname, str(e))
    rep.extra["format_methods"] = n


def check_labels(prog, rep):
    for cname in list(REFS) + ["DenseMolecularCoancestryMatrix"]:
        c = prog.get_class(cname, CM + cname)
        f = prog.own_method(c, "from_gmat")
        construct = f.qualname
        defs = {}
        for n in walk_no_nested(f.node):
            if isinstance(n, ast.Assign) and len(n.targets) == 1 and isinstance(n.targets[0], ast.Name):
                defs[n.targets[0].id] = n.value

        def src_attr(e, depth=0):
            """gmat.<attr> [.copy()] possibly guarded by `if gmat.<attr> is not None else None`, or a local bound to one"""
            if depth > 3:
                return None
            if isinstance(e, ast.Name) and e.id in defs:
                return src_attr(defs[e.id], depth + 1)
            if isinstance(e, ast.IfExp):
                # `X if gmat.a is not None else None` in either orientation: the branch that is not the constant None
                for br in (e.body, e.orelse):
                    if not (isinstance(br, ast.Constant) and br.value is None):
                        return src_attr(br, depth + 1)
                return None
            if isinstance(e, ast.Call) and isinstance(e.func, ast.Attribute) and e.func.attr == "copy":
                return src_attr(e.func.value, depth + 1)
            if isinstance(e, ast.Call) and isinstance(e.func, ast.Name) and len(e.args) == 1 and not e.keywords:
                return src_attr(e.args[0], depth + 1)        # a unary wrapper (copy-if-not-None helper, numpy.array, ...) of one source attribute
            if isinstance(e, ast.Attribute) and isinstance(e.value, ast.Name) and e.value.id == "gmat":
                return e.attr
            return None

        ctor = [n for n in walk_no_nested(f.node) if isinstance(n, ast.Call) and dump(n.func) == "cls"]
        if len(ctor) != 1:
            rep.unrec("R4-labels", construct, "construction not found")
            continue
        kws, _ = kwargs_of(ctor[0])
        good = True
        for k in ("taxa", "taxa_grp"):
            v = kws.get(k)
            a = src_attr(v) if v is not None else None
            if v is None:
                rep.violate("R4-labels", construct, "result carries no %s" % k, where(f, ctor[0]), "%s=gmat.%s" % (k, k), "absent")
                good = False
            elif a is None:
                rep.unrec("R4-labels", construct, "%s of the result (%s) is not traced to an attribute of the source" % (k, dump(v)[:30]))
                good = False
            elif a != k:
                rep.violate("R4-labels", construct, "%s of the result is taken from gmat.%s" % (k, a), where(f, ctor[0]), "gmat." + k, dump(v)[:40])
                good = False
        for n in walk_no_nested(f.node):
            if isinstance(n, ast.Assign) and isinstance(n.targets[0], ast.Attribute) and dump(n.targets[0].value) == "out":
                m = n.targets[0].attr
                a = src_attr(n.value)
                if a is None:
                    rep.unrec("R4-labels", construct, "%s of the result (%s) is not traced to an attribute of the source" % (m, dump(n.value)[:30]))
                    good = False
                elif a != m:
                    rep.violate("R4-labels", construct, "%s of the result is taken from %s" % (m, "gmat.%s" % a), where(f, n), "gmat." + m, dump(n.value)[:40])
                    good = False
        if good:
            rep.ok("R4-labels", construct, "taxa, taxa_grp and group metadata from the same-named attributes of gmat")


def run(prog, rep, tier):
    rep.explanation = ("Spec congruence of the four estimators with their published formulas through an algebraic normal form (argument normalisation checked "
                       "separately), format-specialised evaluation of every format-taking method (kinship == 0.5 x coancestry), keyword/attribute agreement "
                       "of labels, and the int8-accumulator rule on the Gram products.")
    rep.not_decided = ["positive semidefiniteness numerically", "equivariance under permutation / sub-selection as a runtime relation"]
    for r, n in (("R1-estimators", 5), ("R3-kinship", 8), ("R4-labels", 4), ("R5-summaries", 2), ("R6-accumulator", 4)):
        rep.floor(r, n)
    check_estimators(prog, rep)
    check_kinship(prog, rep)
    check_labels(prog, rep)
    wire(prog, rep, "C13", 5, 105, 3)
