"""C16 R1 (HDF5 writer/reader tables), R4 (pandas/CSV options), R5 (VCF import) -- see rules/c16.py"""
import ast

from sa.astutil import field_of, kwargs_of, dump, where, walk_no_nested, strip_us, is_none
from sa.model import AnalysisError, body_nodoc, ClassInfo, FuncInfo, super_call_info

NAMED_ROOTS = ("DenseGenotypeMatrix", "DenseBreedingValueMatrix", "DenseCoancestryMatrix", "DenseGeneticVarianceMatrix",
               "DenseGenicVarianceMatrix", "DenseProgenyGeneticCovarianceMatrix", "DenseProgenyGenicCovarianceMatrix",
               "StandardGeneticMap", "ExtendedGeneticMap", "DenseLinearGenomicModel", "DenseAdditiveLinearGenomicModel",
               "G_E_Phenotyping", "DenseTaxaMatrix", "DenseVariantMatrix", "DenseTaxaVariantMatrix", "DenseSquareTaxaMatrix",
               "DenseSquareTaxaTraitMatrix", "DenseTaxaTraitMatrix", "DenseTraitMatrix", "DenseMatrix")
UTF8_READERS = {"h5py_File_read_ndarray_utf8", "h5py_File_read_utf8"}


class Unrec(Exception):
    pass


def _str_key(e, grp):
    """`groupname + 'k'` -> 'k' ; 'k' -> 'k'"""
    if isinstance(e, ast.Constant) and isinstance(e.value, str):
        return e.value
    if isinstance(e, ast.BinOp) and isinstance(e.op, ast.Add) and isinstance(e.left, ast.Name) and e.left.id == grp \
            and isinstance(e.right, ast.Constant) and isinstance(e.right.value, str):
        return e.right.value
    return None


def writer_table(prog, K, f, depth=0):
    """keys written by to_hdf5 as seen from concrete class K: key -> ('attr', name) | ('expr', text)"""
    if depth > 6:
        raise Unrec("delegation too deep")
    table = {}
    dicts = {}
    found = False
    for n in walk_no_nested(f.node):
        if isinstance(n, ast.Assign) and len(n.targets) == 1 and isinstance(n.targets[0], ast.Name) and isinstance(n.value, ast.Dict):
            dicts[n.targets[0].id] = n.value
    for n in walk_no_nested(f.node):
        if not isinstance(n, ast.Call):
            continue
        sc = super_call_info(n)
        if sc is not None and sc[2] == "to_hdf5":
            cname = sc[0]
            c = prog.resolve_name(f.module, cname) if cname else f.cls
            callee = prog.lookup_method(K, "to_hdf5", after=c)
            if callee is None:
                raise Unrec("super().to_hdf5 not resolved")
            table.update(writer_table(prog, K, callee, depth + 1))
            found = True
        elif isinstance(n.func, ast.Name) and n.func.id == "h5py_File_write_dict":
            d = n.args[2] if len(n.args) > 2 else kwargs_of(n)[0].get("in_dict")
            if isinstance(d, ast.Name) and d.id in dicts:
                d = dicts[d.id]
            if not isinstance(d, ast.Dict):
                raise Unrec("dictionary handed to h5py_File_write_dict is not a literal")
            for k, v in zip(d.keys, d.values):
                if not (isinstance(k, ast.Constant) and isinstance(k.value, str)):
                    raise Unrec("non-literal key in written dictionary")
                a = field_of(v)
                table[k.value] = ("attr", a) if a is not None else ("expr", dump(v)[:60])
            found = True
        elif isinstance(n.func, ast.Attribute) and n.func.attr == "create_dataset":
            kws, _ = kwargs_of(n)
            name = n.args[0] if n.args else kws.get("name")
            data = kws.get("data") if "data" in kws else (n.args[1] if len(n.args) > 1 else None)
            key = _str_key(name, "groupname") if name is not None else None
            if key is None:
                raise Unrec("create_dataset with a computed name: %s" % dump(n)[:60])
            a = field_of(data) if data is not None else None
            table[key] = ("attr", a) if a is not None else ("expr", dump(data)[:60] if data is not None else "?")
            found = True
    if not found:
        raise Unrec("no write found in %s" % f.qualname)
    return table


def reader_table(prog, K, f, depth=0):
    """
    from_hdf5 as seen from K: returns (reads, sinks)
      reads: key -> (reader function name, key actually read, presence-test key or None)
      sinks: key -> ('kw', name) | ('attr', name)
    """
    if depth > 6:
        raise Unrec("delegation too deep")
    reads, sinks = {}, {}
    found = False
    for n in walk_no_nested(f.node):
        if isinstance(n, ast.Call):
            sc = super_call_info(n)
            if sc is not None and sc[2] == "from_hdf5":
                cname = sc[0]
                c = prog.resolve_name(f.module, cname) if cname else f.cls
                callee = prog.lookup_method(K, "from_hdf5", after=c)
                if callee is None:
                    raise Unrec("super().from_hdf5 not resolved")
                r, s = reader_table(prog, K, callee, depth + 1)
                reads.update(r)
                sinks.update(s)
                found = True
    # presence tests: `if groupname + 'k' in h5file:` guarding reads
    parents = {}
    for n in ast.walk(f.node):
        for ch in ast.iter_child_nodes(n):
            parents[ch] = n

    def presence_key(node):
        cur = node
        while cur in parents:
            par = parents[cur]
            if isinstance(par, ast.If) and cur in par.body:
                t = par.test
                if isinstance(t, ast.Compare) and len(t.ops) == 1 and isinstance(t.ops[0], ast.In):
                    k = _str_key(t.left, "groupname")
                    if k is not None:
                        return k
            cur = par
        return None

    datavars = set()
    for n in walk_no_nested(f.node):
        if isinstance(n, ast.Assign) and len(n.targets) == 1:
            t, v = n.targets[0], n.value
            # data['k'] = reader(h5file, groupname + 'k')
            if isinstance(t, ast.Subscript) and isinstance(t.value, ast.Name) and isinstance(t.slice, ast.Constant) \
                    and isinstance(t.slice.value, str):
                rk = _read_of(v)
                if rk is not None:
                    datavars.add(t.value.id)
                    reads[t.slice.value] = (rk[0], rk[1], presence_key(n))
                    found = True
                elif isinstance(v, ast.Constant) and v.value is None:
                    pass
                else:
                    reads.setdefault(t.slice.value, ("expr:" + dump(v)[:40], t.slice.value, presence_key(n)))
            # name = reader(...)   (local variable form)
            elif isinstance(t, ast.Name):
                rk = _read_of(v)
                if rk is not None:
                    reads[t.id] = (rk[0], rk[1], presence_key(n))
                    found = True
    # sinks: constructor keywords and post stores fed from data['k'] / local k
    def src_key(e):
        if isinstance(e, ast.Subscript) and isinstance(e.value, ast.Name) and e.value.id in datavars and isinstance(e.slice, ast.Constant):
            return e.slice.value
        if isinstance(e, ast.Name) and e.id in reads:
            return e.id
        return None

    for n in walk_no_nested(f.node):
        if isinstance(n, ast.Call) and ((isinstance(n.func, ast.Name) and n.func.id == "cls") or
                                        (isinstance(n.func, ast.Attribute) and n.func.attr == "__init__")):
            kws, stars = kwargs_of(n)
            for k, v in kws.items():
                sk = src_key(v)
                if sk is not None:
                    sinks[sk] = ("kw", k)
            for s in stars:
                if isinstance(s, ast.Name) and s.id in datavars:
                    for k in reads:
                        sinks.setdefault(k, ("kw", k))
        elif isinstance(n, ast.Assign) and len(n.targets) == 1 and isinstance(n.targets[0], ast.Attribute) \
                and isinstance(n.targets[0].value, ast.Name) and n.targets[0].value.id not in ("self",):
            sk = src_key(n.value)
            if sk is not None:
                sinks[sk] = ("attr", strip_us(n.targets[0].attr))
    if not found:
        raise Unrec("no read found in %s" % f.qualname)
    return reads, sinks


def _read_of(v):
    """reader call -> (reader name, key) ; raw h5file[groupname + 'k'][()] -> ('raw', key)"""
    if isinstance(v, ast.Call) and isinstance(v.func, ast.Name) and v.func.id.startswith("h5py_File_read") and len(v.args) >= 2:
        k = _str_key(v.args[1], "groupname")
        if k is not None:
            return (v.func.id, k)
    # numpy.array([s.decode("utf-8") for s in h5file[groupname + 'k'][()]], dtype=object) or h5file[...][()]
    for n in ast.walk(v):
        if isinstance(n, ast.Subscript) and isinstance(n.value, ast.Subscript) and isinstance(n.value.value, ast.Name) \
                and n.value.value.id == "h5file":
            k = _str_key(n.value.slice, "groupname")
            if k is not None:
                decoded = any(isinstance(m, ast.Attribute) and m.attr == "decode" for m in ast.walk(v))
                return ("raw_utf8" if decoded else "raw", k)
    return None


def _wants_object_dtype(prog, K, attr):
    p = prog.lookup_prop(K, attr)
    if p is None or p.setter is None:
        return None
    names = {n.func.id for n in walk_no_nested(p.setter.node) if isinstance(n, ast.Call) and isinstance(n.func, ast.Name)}
    if "check_ndarray_dtype_is_object" in names or "check_is_str" in names:
        return True
    if names & {"check_ndarray_dtype_is_integer", "check_ndarray_dtype_is_int8", "check_ndarray_dtype_is_floating",
                "check_ndarray_dtype_is_bool", "check_ndarray_dtype_is_numeric", "check_ndarray_dtype_is_real",
                "check_is_int", "check_is_Integral", "check_ndarray_dtype_is_float64"}:
        return False
    return None


def _slot_backed(prog, K, attr):
    p = prog.lookup_prop(K, attr)
    if p is None or p.getter is None:
        return False
    body = body_nodoc(p.getter.node)
    if len(body) == 1 and isinstance(body[0], ast.Return) and body[0].value is not None:
        return field_of(body[0].value) == attr
    return False


def check_hdf5(prog, rep, tier):
    n = 0
    for K in prog.all_classes():
        if prog.mro(K) is None:
            continue
        w = prog.lookup_method(K, "to_hdf5")
        r = prog.lookup_method(K, "from_hdf5")
        if w is None or r is None:
            continue
        if _is_abstract(w) or _is_abstract(r):
            continue
        if K.name.startswith(("Dense",)) is False and not any(prog.is_subclass(K, root) for root in NAMED_ROOTS):
            continue
        named = any(prog.is_subclass(K, root) for root in NAMED_ROOTS)
        construct = "%s.to_hdf5/from_hdf5" % K.qualname
        rep.saw(w)
        rep.saw(r)
        try:
            W = writer_table(prog, K, w)
            R, S = reader_table(prog, K, r)
        except Unrec as e:
            if named and tier == "quick" and K.name in QUICK_HDF5:
                rep.unrec("R1-tables", construct, str(e))
            else:
                rep.info("R1-tables", construct, "not modelled: %s" % e)
            continue
        n += 1
        good = True
        loc = where(w)
        for k, (kind, a) in sorted(W.items()):
            if kind == "attr" and a != k:
                rep.violate("R1-tables", construct, "key '%s' is written from self.%s" % (k, a), loc, "self." + k, "self." + str(a))
                good = False
            elif kind == "expr":
                rep.info("R1-tables", construct, "key '%s' written from an expression: %s" % (k, a))
        for k in sorted(set(W) - set(R)):
            rep.violate("R1-tables", construct, "key '%s' is written but never read back" % k, where(r), "read of groupname + '%s'" % k, "absent")
            good = False
        for k in sorted(set(R) - set(W)):
            rep.violate("R1-tables", construct, "key '%s' is read but never written" % k, loc, "'%s' in the written dictionary" % k, "absent")
            good = False
        for k, (fn, rk, pk) in sorted(R.items()):
            if rk != k:
                rep.violate("R1-tables", construct, "field '%s' is read from dataset '%s'" % (k, rk), where(r), "groupname + '%s'" % k, rk)
                good = False
            if pk is not None and pk != rk:
                rep.violate("R1-tables", construct, "presence of '%s' is tested but '%s' is read" % (pk, rk), where(r), pk, rk)
                good = False
            want_obj = _wants_object_dtype(prog, K, k)
            is_utf8 = fn in UTF8_READERS or fn == "raw_utf8"
            if want_obj is True and not is_utf8 and not fn.startswith("expr"):
                rep.violate("R1-tables", construct, "string field '%s' is read with %s (bytes instead of str: its setter demands object dtype)" % (k, fn),
                            where(r), "h5py_File_read_ndarray_utf8", fn)
                good = False
            elif want_obj is False and is_utf8:
                rep.violate("R1-tables", construct, "numeric field '%s' is read with the utf-8 string reader %s" % (k, fn), where(r),
                            "h5py_File_read_ndarray", fn)
                good = False
            sk = S.get(k)
            if sk is None:
                rep.violate("R1-tables", construct, "field '%s' is read but reaches neither the constructor nor an attribute" % k, where(r),
                            "%s=data['%s']" % (k, k), "dropped")
                good = False
            elif sk[1] != k:
                rep.violate("R1-tables", construct, "field '%s' read from the file is stored as %s" % (k, sk[1]), where(r), k, sk[1])
                good = False
        missing = [p for p in prog.init_params(K) if p not in W and _slot_backed(prog, K, p)
                   and p not in r.params()                         # supplied again by the caller of from_hdf5 (e.g. gpmod)
                   and (K.name, p) not in NOT_PERSISTED and ("*", p) not in NOT_PERSISTED]
        if missing:
            if named and not K.name.startswith("DenseScaled"):
                rep.violate("R1-tables", construct, "constructor parameter(s) %s are not persisted" % ", ".join(missing), loc,
                            "'%s': self.%s" % (missing[0], missing[0]), "absent")
                good = False
            else:
                rep.info("R1-tables", construct, "constructor parameter(s) %s are not persisted" % ", ".join(missing))
        if good:
            rep.ok("R1-tables", construct, "%d keys written = %d keys read; same-named attributes, readers match declared types, all reach "
                   "the same-named constructor keyword/attribute" % (len(W), len(R)),
                   sample={"class": K.name, "keys": sorted(W)} if n <= 3 else None)
    rep.extra["hdf5_classes"] = n


QUICK_HDF5 = set()
# constructor parameters that are legitimately not written (one line of reason each)
NOT_PERSISTED = {
    ("*", "rng"): "a random generator is process state, not object data; a loaded protocol gets the default (global) generator",
    ("rrBLUPModel0", "method"): "the setter accepts the single value 'ML', which is also the constructor default",
}


def _is_abstract(f):
    body = body_nodoc(f.node)
    return len(body) == 1 and isinstance(body[0], ast.Raise)


def run(prog, rep, tier):
    rep.floor("R1-tables", 25)
    rep.floor("R4-options", 100)
    rep.floor("R4-forward", 20)
    check_hdf5(prog, rep, tier)


# ---------------------------------------------------------------------------------------------- R4
IO_METHODS = ("to_pandas", "from_pandas", "to_csv", "from_csv", "to_hdf5", "from_hdf5", "to_pandas_dict", "from_pandas_dict",
              "to_csv_dict", "from_csv_dict")
WRAPPERS = (("to_csv", "to_pandas"), ("from_csv", "from_pandas"), ("to_csv_dict", "to_pandas_dict"), ("from_csv_dict", "from_pandas_dict"))


def check_options(prog, rep, tier):
    """(a) wrappers forward every shared option by name; (b) every option of an IO method is live (read at least once)"""
    n_fw = n_live = 0
    for c in prog.all_classes():
        if prog.mro(c) is None:
            continue
        for nm in IO_METHODS:
            f = c.methods.get(nm)
            if f is None or _is_abstract(f):
                continue
            rep.saw(f)
            params = [p for p in f.params() if p not in ("self", "cls")]
            loaded = {n.id for n in walk_no_nested(f.node) if isinstance(n, ast.Name) and isinstance(n.ctx, ast.Load)}
            dead = [p for p in params if p not in loaded]
            n_live += 1
            if dead:
                rep.violate("R4-options", f.qualname, "option(s) %s are accepted but never used" % ", ".join(dead), where(f),
                            "every option influences the result", "ignored")
            else:
                rep.ok("R4-options", f.qualname, "all %d options are read" % len(params))
        for wnm, tnm in WRAPPERS:
            f = c.methods.get(wnm)
            if f is None or _is_abstract(f):
                continue
            target = prog.lookup_method(c, tnm)
            if target is None:
                continue
            calls = [n for n in walk_no_nested(f.node) if isinstance(n, ast.Call) and isinstance(n.func, ast.Attribute)
                     and n.func.attr == tnm and isinstance(n.func.value, ast.Name) and n.func.value.id in ("self", "cls")]
            if len(calls) != 1:
                rep.info("R4-forward", f.qualname, "does not call %s exactly once (%d calls)" % (tnm, len(calls)))
                continue
            n_fw += 1
            call = calls[0]
            kws, stars = kwargs_of(call)
            tps = [p for p in target.params() if p not in ("self", "cls")]
            for p, a in zip(tps, call.args):
                kws.setdefault(p, a)
            fps = [p for p in f.params() if p not in ("self", "cls")]
            good = True
            for k, v in kws.items():
                if isinstance(v, ast.Name) and v.id in fps and v.id != k and k in fps:
                    rep.violate("R4-forward", f.qualname, "%s receives %s=%s" % (tnm, k, v.id), where(f, call), "%s=%s" % (k, k), dump(v))
                    good = False
            for p in fps:
                if p in tps and p not in kws:
                    rep.violate("R4-forward", f.qualname, "option %s is not forwarded to %s" % (p, tnm), where(f, call), "%s=%s" % (p, p), "absent")
                    good = False
            if good:
                rep.ok("R4-forward", f.qualname, "every shared option forwarded to %s under its own name" % tnm)
    rep.extra["io_methods_checked"] = n_live
    rep.extra["csv_wrappers_checked"] = n_fw


_orig_run = run


def run(prog, rep, tier):
    _orig_run(prog, rep, tier)
    check_options(prog, rep, tier)


# ---------------------------------------------------------------------------------------------- R5
def check_vcf(prog, rep, tier):
    """
    from_vcf: per record the list columns receive CHROM / POS / ID of THAT record (lockstep, one append each);
    allele calls are genotypes[:, 0:2] (the third cyvcf2 column is the phasing flag), stacked over records and
    transposed (2,1,0) into (phase, taxa, variant); sample names come from vcf.samples; constructor keywords by name.
    """
    want_src = {"vrnt_chrgrp": "CHROM", "vrnt_phypos": "POS", "vrnt_name": "ID"}
    for mod, cname in (("pybrops.popgen.gmat.DensePhasedGenotypeMatrix", "DensePhasedGenotypeMatrix"),
                       ("pybrops.popgen.gmat.DenseGenotypeMatrix", "DenseGenotypeMatrix")):
        c = prog.get_class(cname, mod)
        f = prog.own_method(c, "from_vcf")
        rep.saw(f)
        construct = f.qualname
        loops = [s for s in body_nodoc(f.node) if isinstance(s, ast.For)]
        if len(loops) != 1 or not isinstance(loops[0].target, ast.Name):
            rep.unrec("R5-vcf", construct, "expected one loop over the VCF records")
            continue
        loop = loops[0]
        rec = loop.target.id
        good = True
        appended = {}
        geno_vars = set()
        for st in loop.body:
            if isinstance(st, ast.Assign) and len(st.targets) == 1 and isinstance(st.targets[0], ast.Name):
                if any(isinstance(n, ast.Attribute) and n.attr == "genotypes" and isinstance(n.value, ast.Name) and n.value.id == rec
                       for n in ast.walk(st.value)):
                    geno_vars.add(st.targets[0].id)
                continue
            if isinstance(st, ast.Expr) and isinstance(st.value, ast.Call) and isinstance(st.value.func, ast.Attribute) \
                    and st.value.func.attr == "append" and isinstance(st.value.func.value, ast.Name) and len(st.value.args) == 1:
                lst = st.value.func.value.id
                if lst in appended:
                    rep.violate("R5-vcf", construct, "list %s receives two entries per record" % lst, where(f, st))
                    good = False
                appended[lst] = st.value.args[0]
                continue
            rep.unrec("R5-vcf", construct, "statement in the record loop not modelled: %s" % dump(st)[:60])
            good = False
        # roles come from the constructor keywords: keyword k -> local -> (conversions) -> the list filled in the record loop
        fdefs = {}
        for n in walk_no_nested(f.node):
            if isinstance(n, ast.Assign) and len(n.targets) == 1 and isinstance(n.targets[0], ast.Name):
                fdefs.setdefault(n.targets[0].id, []).append(n.value)
        ctor0 = [n for n in walk_no_nested(f.node) if isinstance(n, ast.Call) and isinstance(n.func, ast.Name) and n.func.id == "cls"]
        kws0 = kwargs_of(ctor0[0])[0] if len(ctor0) == 1 else {}

        def list_of(e, depth=0, seen=()):
            if e is None or depth > 6:
                return None
            names = [x.id for x in ast.walk(e) if isinstance(x, ast.Name)]
            hit = [x for x in names if x in appended]
            if hit:
                return hit[0]
            for x in names:
                if x in fdefs and x not in seen:
                    for d in fdefs[x]:
                        if isinstance(d, ast.List) and not d.elts:
                            continue
                        r_ = list_of(d, depth + 1, seen + (x,))
                        if r_:
                            return r_
            return None
        role_list = {k: list_of(kws0.get(k)) for k in list(want_src) + ["mat"]}
        for key, fld in want_src.items():
            lst = role_list.get(key) or key
            a = appended.get(lst)
            if a is None:
                rep.violate("R5-vcf", construct, "%s is not collected per record" % lst, where(f, loop))
                good = False
                continue
            attrs = {n.attr for n in ast.walk(a) if isinstance(n, ast.Attribute) and isinstance(n.value, ast.Name) and n.value.id == rec}
            if attrs != {fld}:
                rep.violate("R5-vcf", construct, "%s is filled from record field(s) %s" % (lst, ", ".join(sorted(attrs)) or "<none>"),
                            where(f, a), "variant." + fld, dump(a)[:40])
                good = False
        # allele calls
        a = appended.get(role_list.get("mat") or "mat")
        okslice = False
        if a is not None:
            for n in ast.walk(a):
                is_geno = (isinstance(n, ast.Subscript) and isinstance(n.value, ast.Name) and n.value.id in geno_vars) or \
                    (isinstance(n, ast.Subscript) and any(isinstance(m_, ast.Attribute) and m_.attr == "genotypes" and isinstance(m_.value, ast.Name) and m_.value.id == rec
                                                         for m_ in ast.walk(n.value)))
                if is_geno and isinstance(n.slice, ast.Tuple) \
                        and len(n.slice.elts) == 2:
                    s0, s1 = n.slice.elts
                    full = isinstance(s0, ast.Slice) and s0.lower is None and s0.upper is None and s0.step is None
                    two = isinstance(s1, ast.Slice) and s1.step is None and (s1.lower is None or (isinstance(s1.lower, ast.Constant) and s1.lower.value == 0)) \
                        and isinstance(s1.upper, ast.Constant) and s1.upper.value == 2
                    if full and two:
                        okslice = True
                    else:
                        rep.violate("R5-vcf", construct, "allele calls are taken as genotypes[%s] (cyvcf2 rows are [allele0, allele1, phased-flag])" % dump(n.slice),
                                    where(f, n), "genotypes[:, 0:2]", dump(n.slice))
                        good = False
                        okslice = None
        if okslice is False:
            rep.unrec("R5-vcf", construct, "allele-call extraction not modelled")
            good = False
        # transpose
        tr = [n for n in walk_no_nested(f.node) if isinstance(n, ast.Call) and isinstance(n.func, ast.Attribute) and n.func.attr == "transpose"]
        if len(tr) == 1:
            try:
                args = tuple(ast.literal_eval(x) for x in tr[0].args)
                if len(args) == 1 and isinstance(args[0], tuple):
                    args = args[0]
            except Exception:
                args = None
            if args == (2, 1, 0):
                pass
            elif args is not None:
                rep.violate("R5-vcf", construct, "stacked calls (variant, taxa, phase) are transposed with %s" % (args,), where(f, tr[0]),
                            "(2, 1, 0) -> (phase, taxa, variant)", str(args))
                good = False
            else:
                rep.unrec("R5-vcf", construct, "transpose arguments not literal")
                good = False
        else:
            rep.unrec("R5-vcf", construct, "expected exactly one transpose of the stacked calls")
            good = False
        # taxa from vcf.samples, constructor keywords by name
        ctor = [n for n in walk_no_nested(f.node) if isinstance(n, ast.Call) and isinstance(n.func, ast.Name) and n.func.id == "cls"]
        if len(ctor) == 1:
            kws, _ = kwargs_of(ctor[0])
            for k in ("mat", "taxa", "vrnt_chrgrp", "vrnt_phypos", "vrnt_name"):
                if k not in kws:
                    rep.violate("R5-vcf", construct, "imported %s is not handed to the constructor" % k, where(f, ctor[0]))
                    good = False
        else:
            rep.unrec("R5-vcf", construct, "constructor call not found")
            good = False
        def reaches_samples(e, depth=0, seen=()):
            if e is None or depth > 6:
                return False
            if any(isinstance(m, ast.Attribute) and m.attr == "samples" for m in ast.walk(e)):
                return True
            return any(reaches_samples(d, depth + 1, seen + (x.id,)) for x in ast.walk(e) if isinstance(x, ast.Name) and x.id in fdefs and x.id not in seen for d in fdefs[x.id])
        if not reaches_samples(kws0.get("taxa")):
            rep.violate("R5-vcf", construct, "taxa names are not taken from the VCF sample list", where(f), "vcf.samples", "other")
            good = False
        if good:
            rep.ok("R5-vcf", construct, "per record: CHROM/POS/ID appended in lockstep; calls = genotypes[:, 0:2]; transpose (2,1,0); taxa = vcf.samples; keywords by name")


_orig_run2 = run


def check_columns(prog, rep, tier):
    """R4-columns: the column named by option <field>_col carries field <field> in to_pandas and feeds field <field> in from_pandas"""
    nw = nr = 0
    for f in prog.all_functions():
        if f.name not in ("to_pandas", "from_pandas") or _is_abstract(f):
            continue
        params = set(f.params())
        attrs = set(prog.all_props(f.cls)) | set(prog.init_params(f.cls)) if f.cls is not None and prog.mro(f.cls) is not None else set()
        opts = {p_: p_[:-4] for p_ in params if p_.endswith("_col") and p_[:-4] in attrs}
        if not opts:
            continue
        defs = {}
        for n in walk_no_nested(f.node):
            if isinstance(n, ast.Assign) and len(n.targets) == 1 and isinstance(n.targets[0], ast.Name):
                defs.setdefault(n.targets[0].id, []).append(n.value)
        if f.name == "to_pandas":
            for n in walk_no_nested(f.node):
                pairs = []
                if isinstance(n, ast.Assign) and isinstance(n.targets[0], ast.Subscript) and isinstance(n.targets[0].slice, ast.Name) and n.targets[0].slice.id in opts:
                    pairs.append((n.targets[0].slice.id, n.value, n))
                elif isinstance(n, ast.Dict):
                    for k, v in zip(n.keys, n.values):
                        if isinstance(k, ast.Name) and k.id in opts:
                            pairs.append((k.id, v, n))
                def fields_of(e, depth=0, seen=()):
                    out = set()
                    if depth > 6:
                        return {"?"}
                    for x in ast.walk(e):
                        fl = field_of(x) if isinstance(x, ast.Attribute) else None
                        if fl is not None and fl in attrs:
                            out.add(fl)
                        elif isinstance(x, ast.Name) and x.id in defs and x.id not in seen:
                            for d in defs[x.id]:
                                out |= fields_of(d, depth + 1, seen + (x.id,))
                    return out
                for opt, v, node in pairs:
                    fs = fields_of(v)
                    if len(fs) != 1 or "?" in fs:
                        continue
                    fld = sorted(fs)[0]
                    nw += 1
                    rep.saw(f)
                    construct = "%s[%s]" % (f.qualname, opt)
                    if fld == opts[opt]:
                        rep.ok("R4-columns", construct, "column %s carries self.%s" % (opt, fld))
                    else:
                        rep.violate("R4-columns", construct, "the column named by %s is filled with self.%s, not self.%s: a table written with the default options does not read "
                                    "back the same object" % (opt, fld, opts[opt]), where(f, node), "self." + opts[opt], "self." + fld)
        else:
            # locals read from a column selected by an option
            origin = {}

            def opts_of(e, depth=0, seen=()):
                """set of column options an expression depends on (through every definition of every local it reads)"""
                out = set()
                if depth > 6:
                    return {"?"}
                for x in ast.walk(e):
                    if isinstance(x, ast.Name):
                        if x.id in opts:
                            out.add(x.id)
                        elif x.id in defs and x.id not in ("df",) and x.id not in seen:
                            for d in defs[x.id]:
                                out |= opts_of(d, depth + 1, seen + (x.id,))
                return out
            for v, ds in defs.items():
                reads = [d for d in ds if not (isinstance(d, ast.Constant) and d.value is None)]
                if not reads or not any((".iloc[" in dump(d) or "df[" in dump(d)) for d in reads):
                    continue
                os_ = set()
                for d in reads:
                    os_ |= opts_of(d)
                if len(os_) == 1 and "?" not in os_:
                    origin[v] = sorted(os_)[0]
            ctor = [c for c in walk_no_nested(f.node) if isinstance(c, ast.Call) and (dump(c.func) in ("cls",) or dump(c.func).startswith("cls."))]
            for c in ctor:
                kws, _ = kwargs_of(c)
                for k, v in kws.items():
                    if isinstance(v, ast.Name) and v.id in origin:
                        nr += 1
                        rep.saw(f)
                        opt = origin[v.id]
                        construct = "%s[%s]" % (f.qualname, opt)
                        if opts[opt] == k:
                            rep.ok("R4-columns", construct, "column %s feeds %s" % (opt, k))
                        else:
                            rep.violate("R4-columns", construct, "the column named by %s is handed to the constructor as %s, not as %s" % (opt, k, opts[opt]), where(f, c),
                                        "%s=<column %s>" % (opts[opt], opt), "%s=%s" % (k, v.id))
    rep.extra["column_pairs"] = {"written": nw, "read": nr}
    rep.floor("R4-columns", 16)


def check_padding(prog, rep, tier):
    """R4-padding: generated default labels `<stem><i>.zfill(W) for i in range(N)` take their width W from the same count N they enumerate
    (readers rebuild the matrix in sorted-label order, so labels must sort in index order)"""
    n = 0
    for f in prog.all_functions():
        src_has = False
        for node in walk_no_nested(f.node):
            if isinstance(node, (ast.ListComp, ast.GeneratorExp)) and len(node.generators) == 1:
                gen = node.generators[0]
                if not (isinstance(gen.iter, ast.Call) and dump(gen.iter.func) == "range" and len(gen.iter.args) == 1):
                    continue
                z = [c for c in ast.walk(node.elt) if isinstance(c, ast.Call) and isinstance(c.func, ast.Attribute) and c.func.attr == "zfill" and len(c.args) == 1]
                if len(z) != 1 or not isinstance(z[0].args[0], ast.Name):
                    continue
                W = z[0].args[0].id
                N = "".join(dump(gen.iter.args[0]).split())
                defs = [s_.value for s_ in walk_no_nested(f.node) if isinstance(s_, ast.Assign) and len(s_.targets) == 1 and dump(s_.targets[0]) == W]
                if len(defs) != 1:
                    continue
                d = "".join(dump(defs[0]).split())
                import re as _re
                m = _re.fullmatch(r"math\.ceil\(math\.log10\((.+)\)\)\+1", d)
                if not m:
                    continue
                n += 1
                rep.saw(f)
                construct = "%s[%s]" % (f.qualname, W)
                if m.group(1) == N:
                    rep.ok("R4-padding", construct, "labels over range(%s) padded to the digits of %s" % (N, N))
                else:
                    rep.violate("R4-padding", construct, "labels enumerate range(%s) but are zero-padded to the digits of %s: once %s needs more digits the generated names no longer sort "
                                "in index order, and the table is read back with rows permuted" % (N, m.group(1), N), where(f, defs[0]), "math.ceil(math.log10(%s))+1" % N, dump(defs[0]))
    rep.floor("R4-padding", 16)
    rep.extra["padded_label_sites"] = n


def run(prog, rep, tier):
    _orig_run2(prog, rep, tier)
    rep.floor("R5-vcf", 2)
    check_vcf(prog, rep, tier)
    check_columns(prog, rep, tier)
    check_padding(prog, rep, tier)
