"""
C19  Pareto-front identification and front ranking are exact

  R1-dominates  the dominance predicate touches its arguments only through comparisons, so it is decided on the finite set of order types:
                25 order types of (cv1, cv2, 0) x 8 sets of element-wise relations between obj1 and obj2; in every cell the result must be
                (both feasible -> all(<=) and any(<)), otherwise cv1 < cv2          "orders feasible points by Pareto dominance and infeasible
                ones by constraint violation"
  R1-callsites  every call pairs objective vector and violation of the SAME solution, in (dominator, dominated) order; the flag updated is the
                dominated solution's; objective / violation come from the "F" / ("G" + "H") entries of one evaluation dictionary; the
                parallel lists of a non-dominated archive are edited in lockstep
  R2-filter     weights applied once before the loop; keep-mask = any(F > F[pivot], axis=objectives) with the pivot forced True; index array
                and point array filtered by the same mask; next pivot = (kept rows before the pivot) + 1; loop runs while pivot < remaining
                points; mask form = zeros(original npt) with the index form set True      "its mask and index forms agree"
  R2-callers    a caller applies the returned mask to arrays built from the same population sequence
  R3-guard      a division by a per-objective range (max over points) has its zero entries substituted by a non-zero constant first
                "remain finite when an objective is constant"
  R4-geometry   distance = || M - ((M.v)/(v.v)) v ||_2 per row, M = (P*sign - min_rows)/range, sign = the documented sign parameter,
                v = the documented preference vector  "equal their geometric definitions, are invariant to translation of the front"
  R4-default    the default ndset transformation of SelectionProtocol is supplied exactly the keyword parameters it declares, each of length nobj

NOT decided: that the pivot arithmetic yields the non-dominated set for every order of dominated / duplicate points beyond the structural
necessary conditions of R2 (an algorithmic fact about the loop invariant; no sound static argument in reach).
"""
import ast
import itertools

from sa.astutil import dump, where, kwargs_of, walk_no_nested
from sa.model import body_nodoc, FuncInfo, AnalysisError
from sa.vn import VN, Poly, VNUnknown, comparable

PARETO = ("pybrops.core.util.pareto", "is_pareto_efficient")
DOMINATES = ("pybrops.opt.algo.pymoo_addon", "dominates")
# (module, function) -> (points, sign parameter, preference-vector parameter): roles as documented in each docstring
TRANS = {
    ("pybrops.core.util.trans", "trans_ndpt_pseudo_dist"): ("ndptmat", "objfn_minmax", "objfn_pseudoweight"),
    ("pybrops.breed.prot.sel.prob.trans", "trans_ndpt_to_vec_dist"): ("mat", "obj_wt", "vec_wt"),
    ("pybrops.breed.prot.sel.transfn", "trans_ndpt_to_vec_dist"): ("mat", "objfn_wt", "wt"),
}
GEOMETRY = """
M = {mat} * {sign}
M = M - M.min(0)
M = (1.0 / M.max(0)) * M
s = M.dot({line}) * (1.0 / {line}.dot({line}))
out = numpy.linalg.norm(M - numpy.outer(s, {line}), axis=1)
"""


# ------------------------------------------------------------------------------------------------ R1 dominance predicate
class AbsUnknown(Exception):
    pass


RELS = ("lt", "eq", "gt")


class OrderEval:
    """abstract evaluation of a comparison-only function on one order type"""

    def __init__(self, prog, f, env):
        self.prog, self.f, self.env = prog, f, dict(env)
        self.arith = False      # arithmetic on the scalars: the order types no longer cover all inputs (a mismatch is still a concrete counterexample)

    def run(self, stmts):
        for st in stmts:
            r = self.stmt(st)
            if r is not None:
                return r
        return None

    def stmt(self, st):
        if isinstance(st, ast.Return):
            if st.value is None:
                raise AbsUnknown("bare return")
            return self.expr(st.value)
        if isinstance(st, ast.If):
            t = self.truth(self.expr(st.test))
            return self.run(st.body if t else st.orelse)
        if isinstance(st, ast.Assign) and len(st.targets) == 1 and isinstance(st.targets[0], ast.Name):
            self.env[st.targets[0].id] = self.expr(st.value)
            return None
        if isinstance(st, ast.Expr) and isinstance(st.value, ast.Constant):
            return None
        if isinstance(st, ast.Pass):
            return None
        raise AbsUnknown("statement %s" % type(st).__name__)

    def truth(self, v):
        if v[0] == "bool":
            return v[1]
        raise AbsUnknown("truth value of %s" % (v[0],))

    def expr(self, e):
        if isinstance(e, ast.Constant):
            if isinstance(e.value, bool):
                return ("bool", e.value)
            if isinstance(e.value, (int, float)):
                if e.value != 0:
                    raise AbsUnknown("comparison constant %r is not 0: order types do not cover it" % (e.value,))
                return ("num", 0)
            raise AbsUnknown("constant %r" % (e.value,))
        if isinstance(e, ast.Name):
            if e.id in self.env:
                return self.env[e.id]
            raise AbsUnknown("free name %s" % e.id)
        if isinstance(e, ast.IfExp):
            return self.expr(e.body if self.truth(self.expr(e.test)) else e.orelse)
        if isinstance(e, ast.UnaryOp) and isinstance(e.op, ast.Not):
            return ("bool", not self.truth(self.expr(e.operand)))
        if isinstance(e, ast.UnaryOp) and isinstance(e.op, ast.Invert):
            v = self.expr(e.operand)
            if v[0] == "elem":
                return ("elem", frozenset(RELS) - v[1])
            if v[0] == "bool":
                return ("bool", not v[1])
            raise AbsUnknown("~ of %s" % v[0])
        if isinstance(e, ast.BoolOp):
            isand = isinstance(e.op, ast.And)
            last = None
            for x in e.values:
                last = self.expr(x)
                t = self.truth(last)
                if isand and not t:
                    return last
                if not isand and t:
                    return last
            return last
        if isinstance(e, ast.BinOp) and isinstance(e.op, (ast.BitAnd, ast.BitOr)):
            l, r = self.expr(e.left), self.expr(e.right)
            if l[0] == r[0] == "elem":
                return ("elem", (l[1] & r[1]) if isinstance(e.op, ast.BitAnd) else (l[1] | r[1]))
            if l[0] == r[0] == "bool":
                return ("bool", (l[1] and r[1]) if isinstance(e.op, ast.BitAnd) else (l[1] or r[1]))
            raise AbsUnknown("bit operator on %s/%s" % (l[0], r[0]))
        if isinstance(e, ast.Compare) and len(e.ops) == 1:
            return self.compare(self.expr(e.left), e.ops[0], self.expr(e.comparators[0]))
        if isinstance(e, ast.BinOp) and isinstance(e.op, (ast.Add, ast.Sub, ast.Mult)):
            l, r = self.expr(e.left), self.expr(e.right)
            if l[0] == r[0] == "num":
                self.arith = True
                return ("num", l[1] + r[1] if isinstance(e.op, ast.Add) else (l[1] - r[1] if isinstance(e.op, ast.Sub) else l[1] * r[1]))
            raise AbsUnknown("arithmetic on %s/%s" % (l[0], r[0]))
        if isinstance(e, ast.Call) and isinstance(e.func, ast.Name) and e.func.id in ("max", "min") and len(e.args) == 2:
            l, r = self.expr(e.args[0]), self.expr(e.args[1])
            if l[0] == r[0] == "num":
                return ("num", max(l[1], r[1]) if e.func.id == "max" else min(l[1], r[1]))
        if isinstance(e, ast.Call):
            d = self.prog.dotted(self.f.module, e.func)
            name = None
            arg = None
            if d in ("numpy.all", "numpy.any", "numpy.alltrue", "numpy.sometrue") and len(e.args) == 1:
                name, arg = d.split(".")[1], e.args[0]
            elif isinstance(e.func, ast.Name) and e.func.id in ("all", "any") and len(e.args) == 1:
                name, arg = e.func.id, e.args[0]
            elif isinstance(e.func, ast.Attribute) and e.func.attr in ("all", "any") and not e.args:
                name, arg = e.func.attr, e.func.value
            elif isinstance(e.func, ast.Name) and e.func.id == "bool" and len(e.args) == 1:
                return ("bool", self.truth(self.expr(e.args[0])))
            if name is None:
                # a helper of the same module: evaluate its body on the abstract arguments
                h = self.prog.resolve_name(self.f.module, e.func.id) if isinstance(e.func, ast.Name) else None
                if h is not None and hasattr(h, "node") and isinstance(h.node, ast.FunctionDef) and getattr(self, "depth", 0) < 2 \
                        and not any(isinstance(a, ast.Starred) for a in e.args) and not any(k.arg is None for k in e.keywords):
                    hp = h.params()
                    if len(e.args) + len(e.keywords) == len(hp) and all(k.arg in hp for k in e.keywords):
                        henv = {"@rels": self.env["@rels"]}
                        for pn, a in zip(hp, e.args):
                            henv[pn] = self.expr(a)
                        for k in e.keywords:
                            henv[k.arg] = self.expr(k.value)
                        sub = OrderEval(self.prog, h, henv)
                        sub.depth = getattr(self, "depth", 0) + 1
                        got = sub.run(body_nodoc(h.node))
                        self.arith = self.arith or sub.arith
                        if got is None:
                            raise AbsUnknown("helper %s falls off the end" % e.func.id)
                        return got
                raise AbsUnknown("call %s" % dump(e)[:40])
            v = self.expr(arg)
            if v[0] != "elem":
                raise AbsUnknown("%s() of a non element-wise value" % name)
            R = self.env["@rels"]
            if name in ("all", "alltrue"):
                return ("bool", all(r in v[1] for r in R))
            return ("bool", any(r in v[1] for r in R))
        raise AbsUnknown("expression %s" % dump(e)[:50])

    def compare(self, l, op, r):
        opn = type(op).__name__
        if l[0] == "num" and r[0] == "num":
            a, b = l[1], r[1]
            return ("bool", {"Lt": a < b, "LtE": a <= b, "Gt": a > b, "GtE": a >= b, "Eq": a == b, "NotEq": a != b}[opn])
        if l[0] == "vec" and r[0] == "vec" and l[1] != r[1]:
            sets = {"Lt": {"lt"}, "LtE": {"lt", "eq"}, "Gt": {"gt"}, "GtE": {"gt", "eq"}, "Eq": {"eq"}, "NotEq": {"lt", "gt"}}
            if opn not in sets:
                raise AbsUnknown("vector comparison %s" % opn)
            s = sets[opn]
            if l[1] == 2:     # obj2 OP obj1: mirror
                s = {{"lt": "gt", "gt": "lt", "eq": "eq"}[x] for x in s}
            return ("elem", frozenset(s))
        raise AbsUnknown("comparison between %s and %s" % (l[0], r[0]))


def check_dominates(prog, rep):
    f = prog.func(*DOMINATES)
    rep.saw(f)
    construct = f.qualname
    ps = f.params()
    if len(ps) != 4:
        rep.unrec("R1-dominates", construct, "signature is not (obj1, cv1, obj2, cv2): %s" % ps)
        return
    o1, c1, o2, c2 = ps
    cells = 0
    arith = False
    subsets = [frozenset(s) for k in (1, 2, 3, 0) for s in itertools.combinations(RELS, k)]
    for cv1 in (-2, -1, 0, 1, 2):
        for cv2 in (-2, -1, 0, 1, 2):
            for R in subsets:
                env = {o1: ("vec", 1), o2: ("vec", 2), c1: ("num", cv1), c2: ("num", cv2), "@rels": R}
                try:
                    oe = OrderEval(prog, f, env)
                    got = oe.run(body_nodoc(f.node))
                    if got is None:
                        raise AbsUnknown("a path falls off the end")
                    got = oe.truth(got)
                    arith = arith or oe.arith
                except AbsUnknown as ex:
                    rep.unrec("R1-dominates", construct, "not a comparison-only predicate: %s" % ex)
                    return
                if cv1 <= 0 and cv2 <= 0:
                    want = R <= {"lt", "eq"} and "lt" in R
                else:
                    want = cv1 < cv2
                cells += 1
                if got != want:
                    rel = "{" + ",".join(sorted(R)) + "}"
                    kind = "both feasible" if (cv1 <= 0 and cv2 <= 0) else "a constraint is violated"
                    rep.violate("R1-dominates", construct,
                                "order type cv1=%d cv2=%d, element-wise relations obj1?obj2 = %s (%s): returns %s, the dominance definition gives %s"
                                % (cv1, cv2, rel, kind, got, want), where(f), str(want), str(got))
                    return
    if arith:
        rep.unrec("R1-dominates", construct, "the predicate does arithmetic on the constraint violations: order types do not cover all inputs (no counterexample among %d sampled cells)" % cells)
        return
    rep.ok("R1-dominates", construct, "all %d order types (25 orderings of cv1, cv2, 0 x 8 relation sets) agree with feasibility-first Pareto dominance" % cells)


class Pairing:
    """
    which (objective vector, constraint violation) expressions belong to ONE solution, found by def-use inside the host function (no naming scheme):
      - an objective variable is read from D['F'], a violation variable is a sum of variables read from D['G'] / D['H'] of the SAME evaluation dictionary D;
      - a joint hand-over in one block (o2 = o1 ; c2 = c1 with (o1, c1) paired) pairs (o2, c2);
      - two lists that receive a paired (o, c) in one block are parallel: Lo[k] is paired with Lc[k] for the same index text.
    """

    def __init__(self, f):
        self.f = f
        self.assigns = [n for n in walk_no_nested(f.node) if isinstance(n, ast.Assign) and len(n.targets) == 1 and isinstance(n.targets[0], ast.Name)]
        self.src = {}        # name -> set of (dict, key) it is read from
        for a in self.assigns:
            r = _dict_read(a.value)
            if r:
                self.src.setdefault(a.targets[0].id, set()).add(r)
        self.obj = {n: {d for d, k in rs if k == "F"} for n, rs in self.src.items() if any(k == "F" for d, k in rs)}
        self.cvparts = {}    # cv name -> set of (dict, key) of its summands
        for a in self.assigns:
            nm = a.targets[0].id
            if nm in self.src or isinstance(a.value, ast.Name):
                continue
            parts = set()
            for x in ast.walk(a.value):
                if isinstance(x, ast.Name) and x.id in self.src and x.id not in self.obj:
                    parts |= self.src[x.id]
                elif isinstance(x, (ast.IfExp, ast.Subscript)):
                    r = _dict_read(x)
                    if r and r[1] in ("G", "H"):
                        parts.add(r)
            if parts and all(k in ("G", "H") for d, k in parts):
                self.cvparts.setdefault(nm, set()).update(parts)
        self.pairs = set()
        for o, ds in self.obj.items():
            for c, ps in self.cvparts.items():
                if ds == {d for d, k in ps} and len(ds) == 1:
                    self.pairs.add((o, c))
        # hand-overs
        changed = True
        while changed:
            changed = False
            for blk in _blocks(f.node):
                cp = [(s.targets[0].id, s.value.id) for s in blk if isinstance(s, ast.Assign) and len(s.targets) == 1 and isinstance(s.targets[0], ast.Name)
                      and isinstance(s.value, ast.Name)]
                for (t1, v1) in cp:
                    for (t2, v2) in cp:
                        if (v1, v2) in self.pairs and (t1, t2) not in self.pairs:
                            self.pairs.add((t1, t2))
                            changed = True
        # parallel lists
        self.lists = set()
        for blk in _blocks(f.node):
            adds = []
            for s in blk:
                if isinstance(s, ast.Expr) and isinstance(s.value, ast.Call) and isinstance(s.value.func, ast.Attribute) and s.value.func.attr in ("append", "insert") \
                        and isinstance(s.value.func.value, ast.Name) and s.value.args and isinstance(s.value.args[-1], ast.Name):
                    adds.append((s.value.func.value.id, s.value.args[-1].id))
            for (l1, v1) in adds:
                for (l2, v2) in adds:
                    if (v1, v2) in self.pairs:
                        self.lists.add((l1, l2))

    def paired(self, a, b):
        if isinstance(a, ast.Name) and isinstance(b, ast.Name):
            return (a.id, b.id) in self.pairs
        if isinstance(a, ast.Subscript) and isinstance(b, ast.Subscript) and isinstance(a.value, ast.Name) and isinstance(b.value, ast.Name):
            return (a.value.id, b.value.id) in self.lists and dump(a.slice) == dump(b.slice)
        return False

    def kind(self, e):
        """'obj' | 'cv' | None for an argument expression"""
        base = e.value if isinstance(e, ast.Subscript) else e
        if not isinstance(base, ast.Name):
            return None
        if any(base.id == o for o, c in self.pairs) or any(base.id == lo for lo, lc in self.lists):
            return "obj"
        if any(base.id == c for o, c in self.pairs) or any(base.id == lc for lo, lc in self.lists):
            return "cv"
        return None


def check_dominates_calls(prog, rep):
    target = prog.func(*DOMINATES)
    n = 0
    hosts = []
    for f in prog.all_functions():
        calls = [c for c in walk_no_nested(f.node) if isinstance(c, ast.Call) and isinstance(c.func, ast.Name) and c.func.id == target.name
                 and prog.resolve_name(f.module, c.func.id) is target]
        if not calls:
            continue
        hosts.append(f)
        rep.saw(f)
        pr = Pairing(f)
        for c in calls:
            n += 1
            construct = "%s: %s" % (f.qualname, dump(c)[:90])
            if len(c.args) != 4 or c.keywords:
                rep.unrec("R1-callsites", construct, "call is not four positional arguments")
                continue
            kinds = [pr.kind(a) for a in c.args]
            if any(k is None for k in kinds):
                rep.unrec("R1-callsites", construct, "an argument is neither an objective vector read from an evaluation's 'F' nor a violation summed from its 'G' / 'H'")
                continue
            if kinds != ["obj", "cv", "obj", "cv"]:
                rep.violate("R1-callsites", construct, "arguments are (%s), the predicate takes (obj1, cv1, obj2, cv2)" % ", ".join(kinds), where(f, c))
                continue
            if not pr.paired(c.args[0], c.args[1]) or not pr.paired(c.args[2], c.args[3]):
                rep.violate("R1-callsites", construct, "objective vector and constraint violation of different solutions are paired: %s"
                            % ", ".join(dump(a) for a in c.args), where(f, c))
                continue
            if dump(c.args[0]) == dump(c.args[2]):
                rep.violate("R1-callsites", construct, "a solution is compared with itself", where(f, c))
                continue
            rep.ok("R1-callsites", construct, "pairs (%s, %s) against (%s, %s): each objective with the violation of the same evaluation" % tuple(dump(a) for a in c.args))
        # flags updated by a dominance test: `flag[x] &= not dominates(A.., B..)` must update B's flag
        for st in walk_no_nested(f.node):
            if isinstance(st, ast.AugAssign) and isinstance(st.target, ast.Subscript):
                inner = [c for c in ast.walk(st.value) if isinstance(c, ast.Call) and isinstance(c.func, ast.Name) and c.func.id == target.name]
                if len(inner) != 1 or len(inner[0].args) != 4:
                    continue
                construct = "%s: %s" % (f.qualname, dump(st)[:100])
                neg = isinstance(st.value, ast.UnaryOp) and isinstance(st.value.op, ast.Not) and st.value.operand is inner[0]
                if not (isinstance(st.op, ast.BitAnd) and neg):
                    rep.unrec("R1-callsites", construct, "flag update is not `flag[x] &= not dominates(...)`")
                    continue
                dominated = inner[0].args[2]
                didx = dump(dominated.slice) if isinstance(dominated, ast.Subscript) else None
                if didx is None:
                    rep.unrec("R1-callsites", construct, "dominated solution is not indexed")
                    continue
                if dump(st.target.slice) != didx:
                    rep.violate("R1-callsites", construct, "the flag of solution [%s] is cleared when solution [%s] is the dominated one" % (dump(st.target.slice), didx),
                                where(f, st))
                else:
                    rep.ok("R1-callsites", construct, "clears the flag of the dominated solution [%s]" % didx)
        _check_eval_unpack(prog, rep, f, pr)
        _check_archive_lockstep(prog, rep, f, pr)
    rep.floor("R1-callsites", 5)


def _dict_read(e):
    """`D["K"][0] if "K" in D else ...` or `D["K"][0]` -> (D, K)"""
    if isinstance(e, ast.IfExp):
        e = e.body
    if isinstance(e, ast.Subscript) and isinstance(e.value, ast.Subscript):
        e = e.value
    if isinstance(e, ast.Subscript) and isinstance(e.value, ast.Name) and isinstance(e.slice, ast.Constant) and isinstance(e.slice.value, str):
        return e.value.id, e.slice.value
    return None


def _check_eval_unpack(prog, rep, f, pr):
    """every violation variable sums BOTH the inequality ('G') and the equality ('H') part of its evaluation; hand-overs copy objective and violation together"""
    for c, parts in sorted(pr.cvparts.items()):
        construct = "%s: %s" % (f.qualname, c)
        ds = {d for d, k in parts}
        keys = {k for d, k in parts}
        if len(ds) != 1:
            rep.violate("R1-callsites", construct, "the constraint violation %s sums parts of different evaluations: %s" % (c, sorted(ds)), where(f))
        elif keys != {"G", "H"}:
            rep.violate("R1-callsites", construct, "the constraint violation %s sums entries %s of the evaluation, not inequality 'G' and equality 'H'" % (c, sorted(keys)), where(f),
                        "'G' + 'H'", str(sorted(keys)))
        elif not any(cc == c for o, cc in pr.pairs):
            rep.unrec("R1-callsites", construct, "no objective vector is read from the same evaluation as %s" % c)
        else:
            rep.ok("R1-callsites", construct, "violation = 'G' + 'H' of evaluation %s, whose 'F' gives the paired objective vector" % sorted(ds)[0])
    # hand-over: a violation variable copied from another one must come with its objective in the same block
    allcv = {c for o, c in pr.pairs}
    allobj = {o for o, c in pr.pairs}
    for blk in _blocks(f.node):
        cp = [(s, s.targets[0].id, s.value.id) for s in blk if isinstance(s, ast.Assign) and len(s.targets) == 1 and isinstance(s.targets[0], ast.Name)
              and isinstance(s.value, ast.Name)]
        for s, t, v in cp:
            if v in allcv:
                partner = [1 for s2, t2, v2 in cp if (v2, v) in pr.pairs and (t2, t) in pr.pairs]
                construct = "%s: %s" % (f.qualname, dump(s)[:60])
                if partner:
                    rep.ok("R1-callsites", construct, "hand-over copies objective and violation of one solution together")
                else:
                    rep.violate("R1-callsites", construct, "%s takes the violation %s without the objective vector of the same solution in the same block" % (t, v), where(f, s))
            elif v in allobj:
                partner = [1 for s2, t2, v2 in cp if (v, v2) in pr.pairs]
                if not partner:
                    rep.violate("R1-callsites", "%s: %s" % (f.qualname, dump(s)[:60]), "%s takes the objective vector %s without the violation of the same solution in the same block" % (t, v),
                                where(f, s))


def _blocks(node):
    for n in ast.walk(node):
        for fld in ("body", "orelse", "finalbody"):
            b = getattr(n, fld, None)
            if isinstance(b, list) and b and isinstance(b[0], ast.stmt):
                yield b


def _check_archive_lockstep(prog, rep, f, pr):
    """the parallel lists of an archive (decision, objective, violation) are edited together"""
    empties = [st.targets[0].id for st in walk_no_nested(f.node)
               if isinstance(st, ast.Assign) and len(st.targets) == 1 and isinstance(st.targets[0], ast.Name) and isinstance(st.value, ast.List) and not st.value.elts]
    fams = []
    for lo, lc in sorted(pr.lists):
        # the third list of the family: appended in every block in which lo and lc are
        third = None
        for blk in _blocks(f.node):
            apps = [s.value.func.value.id for s in blk if isinstance(s, ast.Expr) and isinstance(s.value, ast.Call) and isinstance(s.value.func, ast.Attribute)
                    and s.value.func.attr in ("append", "insert") and isinstance(s.value.func.value, ast.Name)]
            if lo in apps and lc in apps:
                others = [a for a in apps if a not in (lo, lc) and a in empties]
                if others:
                    third = others[0]
        fam = [x for x in (third, lo, lc) if x]
        if fam not in fams:
            fams.append(fam)
    for fam in fams:
        for blk in _blocks(f.node):
            ops = {}
            for st in blk:
                op = None
                if isinstance(st, ast.Delete) and len(st.targets) == 1 and isinstance(st.targets[0], ast.Subscript) and isinstance(st.targets[0].value, ast.Name):
                    op = ("del[%s]" % dump(st.targets[0].slice), st.targets[0].value.id)
                elif isinstance(st, ast.Expr) and isinstance(st.value, ast.Call) and isinstance(st.value.func, ast.Attribute) \
                        and isinstance(st.value.func.value, ast.Name) and st.value.func.attr in ("append", "insert", "pop", "clear", "extend"):
                    pos = dump(st.value.args[0]) if st.value.func.attr in ("insert", "pop") and st.value.args else ""
                    op = ("%s(%s)" % (st.value.func.attr, pos), st.value.func.value.id)
                elif isinstance(st, ast.Assign) and len(st.targets) == 1 and isinstance(st.targets[0], ast.Name) and isinstance(st.value, ast.ListComp) \
                        and st.targets[0].id in fam:
                    lc_ = st.value
                    cond = " and ".join(dump(c) for g in lc_.generators for c in g.ifs)
                    op = ("filter(%s)" % cond, st.targets[0].id)
                if op and op[1] in fam:
                    ops.setdefault(op[0], []).append((op[1], st))
            for kind, lst in sorted(ops.items()):
                names = [x[0] for x in lst]
                construct = "%s: archive %s %s" % (f.qualname, "/".join(fam), kind)
                if sorted(names) == sorted(fam):
                    rep.ok("R1-callsites", construct, "all of %s edited together" % ", ".join(fam))
                else:
                    missing = sorted(set(fam) - set(names))
                    extra = [x for x in names if names.count(x) > 1]
                    rep.violate("R1-callsites", construct, "parallel lists fall out of step: %s applied to %s but not to %s%s"
                                % (kind, sorted(set(names)), missing, (" (twice: %s)" % sorted(set(extra))) if extra else ""), where(f, lst[0][1]))


# ------------------------------------------------------------------------------------------------ R2 the filter
def _atom(name):
    return Poly.atom(("var", name))


def check_filter(prog, rep):
    f = prog.func(*PARETO)
    rep.saw(f)
    construct = f.qualname
    R = "R2-filter"
    body = body_nodoc(f.node)
    loops = [i for i, st in enumerate(body) if isinstance(st, ast.While)]
    ps = f.params()
    if len(loops) != 1 or len(ps) < 3 or body[loops[0]].orelse:
        rep.unrec(R, construct, "not the single-while-loop filter over (points, weights, return_mask)")
        return
    pts, wt, flag = ps[0], ps[1], ps[2]
    li = loops[0]
    loop = body[li]
    pre, post = body[:li], body[li + 1:]
    vn = VN(prog, f, strip_broadcast=True)
    try:
        for st in pre:
            vn.stmt(st)
    except VNUnknown as ex:
        rep.unrec(R, construct, "prologue: %s" % ex)
        return
    env0 = dict(vn.env)
    assigned = set()
    for st in walk_no_nested(loop):
        if isinstance(st, (ast.Assign, ast.AugAssign)):
            for t in (st.targets if isinstance(st, ast.Assign) else [st.target]):
                if isinstance(t, ast.Name):
                    assigned.add(t.id)
    # roles by structure
    def ref(text, env=None):
        return VN(prog, f, env or {}, strip_broadcast=True).expr(ast.parse(text, mode="eval").body)
    weighted = {ref("%s * %s" % (pts, wt)), ref("%s * %s.flatten()" % (pts, wt)), ref("%s * %s.ravel()" % (pts, wt)), ref("%s * %s.reshape(-1)" % (pts, wt))}
    npt_ok = set()
    for base in [_atom(pts)] + sorted(weighted, key=lambda p: repr(p.key())):
        e = {"X": base}
        npt_ok |= {ref("X.shape[0]", e), ref("len(X)", e)}
    Fv = [v for v in assigned if v in env0 and (env0[v] in weighted or env0[v] == _atom(pts))]
    if pts in assigned and pts not in env0:
        Fv.append(pts)
    Ev = [v for v in assigned if v in env0 and any(env0[v] == ref("numpy.arange(N)", {"N": n}) for n in npt_ok)]
    Pv = [v for v in assigned if v in env0 and env0[v].const_value() is not None]
    if len(set(Fv)) != 1 or len(Ev) != 1 or len(Pv) != 1:
        rep.unrec(R, construct, "cannot identify point matrix / index array / pivot among loop variables %s (matrix %s, arange %s, counter %s)"
                  % (sorted(assigned), Fv, Ev, Pv))
        return
    Fn, En, Pn = Fv[0], Ev[0], Pv[0]
    F0 = env0.get(Fn, _atom(pts))
    ok = True
    if F0 not in weighted:
        rep.violate(R, construct, "the objective weights are not applied to the points before filtering (matrix is %s)" % F0.show()[:60], where(f),
                    "%s * %s" % (pts, wt), F0.show()[:60])
        ok = False
    if env0[Pn].const_value() != 0:
        rep.violate(R, construct, "the first pivot is %s, not row 0" % env0[Pn].show(), where(f))
        ok = False
    # loop body on abstract loop variables
    lenv = dict(env0)
    lenv.update({Fn: _atom("F"), En: _atom("E"), Pn: _atom("P")})
    lvn = VN(prog, f, lenv, strip_broadcast=True)
    try:
        test = lvn.expr(loop.test)
        for st in loop.body:
            lvn.stmt(st)
    except VNUnknown as ex:
        rep.unrec(R, construct, "loop body: %s" % ex)
        return
    renv = {Fn: _atom("F"), En: _atom("E"), Pn: _atom("P")}
    rvn = VN(prog, f, {"F": _atom("F"), "E": _atom("E"), "P": _atom("P")}, strip_broadcast=True)
    for st in ast.parse("m = numpy.any(F > F[P], axis=1)\nm[P] = True\nE = E[m]\nF = F[m]\nP = numpy.sum(m[:P]) + 1\n").body:
        rvn.stmt(st)
    tests_ok = {ref(t, {"F": _atom("F"), "E": _atom("E"), "P": _atom("P")}) for t in
                ("P < len(F)", "P < F.shape[0]", "P < len(E)", "P < E.shape[0]", "P < E.size")}
    def cmp(label, got, want, what):
        nonlocal ok
        if got == want:
            return
        ok = False
        plain = got is not None and all(isinstance(a, tuple) and a and a[0] == "var" for a in got.atoms())
        if comparable(got, want) or plain:
            # `plain`: a polynomial of the loop variables alone cannot equal a value that depends on the keep-mask
            rep.violate(R, construct, "%s: %s" % (label, what), where(f, loop), want.show()[:120], got.show()[:120])
        else:
            rep.unrec(R, construct, "%s is computed with other operators: %s" % (label, got.show()[:100]))
    gotF, gotE, gotP = lvn.env.get(Fn), lvn.env.get(En), lvn.env.get(Pn)
    cmp("remaining points", gotF, rvn.env["F"], "points are not filtered by the keep-mask any(F > F[pivot], axis=1) with the pivot kept")
    cmp("efficient-index array", gotE, rvn.env["E"], "indices are not filtered by the same keep-mask as the points")
    cmp("next pivot", gotP, rvn.env["P"], "next pivot is not (number of kept rows before the pivot) + 1")
    if test not in tests_ok:
        ok = False
        stale = {ref("P < N", {"P": _atom("P"), "N": n}) for n in npt_ok}
        if test in stale:
            rep.violate(R, construct, "loop runs while pivot < the ORIGINAL number of points: after rows are removed the pivot indexes past the remaining points",
                        where(f, loop), "pivot < len(remaining points)", test.show()[:80])
            test = None
    if test is not None and test not in tests_ok:
        if comparable(test, sorted(tests_ok, key=lambda p: repr(p.key()))[0]) or any(comparable(test, t) for t in tests_ok):
            rep.violate(R, construct, "loop condition is %s, not pivot < number of remaining points" % test.show()[:80], where(f, loop))
        else:
            rep.unrec(R, construct, "loop condition %s" % test.show()[:80])
    # epilogue: both forms
    for fl in (True, False):
        penv = dict(env0)
        penv.update({Fn: _atom("F"), En: _atom("E"), Pn: _atom("P")})
        pvn = VN(prog, f, penv, strip_broadcast=True, flags={flag: fl})
        try:
            out = pvn.run(post)
        except VNUnknown as ex:
            rep.unrec(R, construct, "epilogue (%s=%s): %s" % (flag, fl, ex))
            ok = False
            continue
        if out is None or isinstance(out, list):
            rep.unrec(R, construct, "epilogue (%s=%s) returns nothing / a tuple" % (flag, fl))
            ok = False
            continue
        if not fl:
            cmp("index form", out, _atom("E"), "the index form is not the filtered index array")
        else:
            wants = [VN(prog, f, {"N": n, "E": _atom("E")}, strip_broadcast=True) for n in sorted(npt_ok, key=lambda p: repr(p.key()))]
            forms = set()
            for w in wants:
                for st in ast.parse("z = numpy.zeros(N, dtype=bool)\nz[E] = True\n").body:
                    w.stmt(st)
                forms.add(w.env["z"])
            if out not in forms:
                ok = False
                any_ref = sorted(forms, key=lambda p: repr(p.key()))[0]
                if comparable(out, any_ref):
                    rep.violate(R, construct, "mask form is %s: not zeros(original number of points) with exactly the index form set True" % out.show()[:100],
                                where(f), any_ref.show()[:100], out.show()[:100])
                else:
                    rep.unrec(R, construct, "mask form %s" % out.show()[:100])
    if ok:
        rep.ok(R, construct, "weights once; keep = any(F > F[pivot], axis=1) | pivot; indices and points filtered by the same mask; pivot' = kept-before + 1; "
                            "mask form = zeros(npt)[index form] = True")
    rep.floor(R, 1)


def _seq_source(f, name):
    """the population sequence an array variable is built from: numpy.array(POP) / numpy.array([.. for x in POP])"""
    out = set()
    for st in walk_no_nested(f.node):
        if isinstance(st, ast.Assign) and len(st.targets) == 1 and isinstance(st.targets[0], ast.Name) and st.targets[0].id == name:
            v = st.value
            if isinstance(v, ast.Call) and v.args:
                a = v.args[0]
                if isinstance(a, ast.Name):
                    out.add(a.id)
                elif isinstance(a, (ast.ListComp, ast.GeneratorExp)) and len(a.generators) == 1 and isinstance(a.generators[0].iter, ast.Name) \
                        and not a.generators[0].ifs:
                    out.add(a.generators[0].iter.id)
                else:
                    out.add("?")
            else:
                out.add("?")
    return out


def check_filter_callers(prog, rep):
    target = prog.func(*PARETO)
    R = "R2-callers"
    n = 0
    for f in prog.all_functions():
        for st in walk_no_nested(f.node):
            if not (isinstance(st, ast.Assign) and isinstance(st.value, ast.Call)):
                continue
            c = st.value
            if not (isinstance(c.func, ast.Name) and prog.resolve_name(f.module, c.func.id) is target):
                continue
            n += 1
            rep.saw(f)
            construct = "%s: %s(...)" % (f.qualname, target.name)
            kws, _ = kwargs_of(c)
            wt = c.args[1] if len(c.args) > 1 else kws.get("wt")
            if wt is None or isinstance(wt, ast.Constant):
                rep.violate(R, construct, "no objective weight vector is passed", where(f, c))
                continue
            rm = c.args[2] if len(c.args) > 2 else kws.get("return_mask")
            if not (isinstance(st.targets[0], ast.Name) and c.args and isinstance(c.args[0], ast.Name)):
                rep.unrec(R, construct, "result / points not simple names")
                continue
            res, pts = st.targets[0].id, c.args[0].id
            # the filter multiplies the points by `wt` itself: the points handed over are the raw objective values (weights applied once)
            pdefs = [x.value for x in walk_no_nested(f.node) if isinstance(x, ast.Assign) and any(isinstance(t, ast.Name) and t.id == pts for t in x.targets)]
            pre = [y for d in pdefs for y in ast.walk(d) if (isinstance(y, ast.Attribute) and y.attr == "wvalues")
                   or (isinstance(y, ast.BinOp) and isinstance(y.op, ast.Mult) and dump(wt) in (dump(y.left), dump(y.right)))]
            if pre:
                rep.violate(R, construct, "the points handed to the filter are already weighted (%s) and the weight vector %s is passed as well: the weights are applied twice, a "
                            "minimised objective is treated as maximised" % (dump(pre[0])[:40], dump(wt)), where(f, c), "raw objective values", dump(pre[0])[:40])
                continue
            used = [s.value.id for s in walk_no_nested(f.node) if isinstance(s, ast.Subscript) and isinstance(s.slice, ast.Name) and s.slice.id == res
                    and isinstance(s.value, ast.Name)]
            if not used:
                rep.unrec(R, construct, "the returned %s is not used as an index" % ("mask" if rm is None or dump(rm) == "True" else "index array"))
                continue
            srcs = {u: _seq_source(f, u) for u in set(used) | {pts}}
            flat = set().union(*srcs.values())
            if "?" in flat or any(not s for s in srcs.values()):
                rep.unrec(R, construct, "cannot trace the arrays indexed by the result to a population: %s" % srcs)
            elif len(flat) != 1:
                rep.violate(R, construct, "the filter result computed on %s indexes arrays built from different sequences: %s" % (pts, {k: sorted(v) for k, v in srcs.items()}),
                            where(f, c))
            else:
                rep.ok(R, construct, "weights %s; result indexes %s, all built in order from %s" % (dump(wt), sorted(set(used)), sorted(flat)[0]))
    rep.floor(R, 1)


# ------------------------------------------------------------------------------------------------ R3 / R4 distance transformations
ZERO = Poly.const(0).key()


def _single_atom(p):
    if len(p.terms) == 1:
        (m, c), = p.terms.items()
        if c == 1 and len(m) == 1 and m[0][1] == 1:
            return m[0][0]
    return None


def _zero_test_keys(cur_key):
    return {Poly.atom(("cmp", "Eq", a, b)).key() for a, b in ((cur_key, ZERO), (ZERO, cur_key))}


def _as_range(p):
    """canonical atom red(max, X - min(X)) for the two ways a per-objective range is written: max(X - min X) and max(X) - min(X)"""
    a = _single_atom(p)
    if a is not None and a[0] == "red" and a[1] in ("max", "ptp", "nanmax"):
        return a
    if len(p.terms) == 2:
        items = sorted(p.terms.items(), key=lambda kv: kv[1])
        (m_neg, c_neg), (m_pos, c_pos) = items
        if c_neg == -1 and c_pos == 1 and len(m_neg) == 1 and len(m_pos) == 1 and m_neg[0][1] == 1 and m_pos[0][1] == 1:
            an, ap = m_neg[0][0], m_pos[0][0]
            if isinstance(an, tuple) and isinstance(ap, tuple) and an[0] == ap[0] == "red" and an[1] == "min" and ap[1] == "max" and an[2:] == ap[2:]:
                X = Poly({m: _frac(c) for m, c in ap[2]})
                shifted = X - Poly.atom(an)
                return ("red", "max", shifted.key()) + tuple(ap[3:])
    return None


def classify_den(r, params):
    """-> (kind, payload) kind in const | range-unguarded | range-guarded | norm2 | other"""
    if r.const_value() is not None:
        return ("const", None) if r.const_value() != 0 else ("other", "literal zero")
    a = _single_atom(r)
    rg = _as_range(r)
    if rg is not None:
        return ("range-unguarded", rg)
    if a is None:
        return ("other", r.show()[:60])
    if a[0] == "setitem":
        cur, idx, val = a[1], a[2], a[3]
        ca = _as_range(Poly({m: _frac(c) for m, c in cur}))
        if ca is not None:
            v = Poly({m: _frac(c) for m, c in val}).const_value()
            if idx in _zero_test_keys(cur) and v is not None and v != 0:
                return ("range-guarded", ca)
            if idx in _zero_test_keys(cur) and v is not None and v == 0:
                return ("range-unguarded", ca)      # zero replaced by zero: nothing guarded
            if "np.isclose" in repr(idx) or "np.allclose" in repr(idx):
                return ("range-tolerance", ca)
            return ("other", "range with a substitution that is not `x[x == 0] = <non-zero constant>`")
    if a[0] == "np.where" and len(a) == 4:
        cond, x, y = a[1], a[2], a[3]
        ya = _single_atom(Poly({m: _frac(c) for m, c in y}))
        xv = Poly({m: _frac(c) for m, c in x}).const_value()
        if ya is not None and ya[0] == "red" and cond in _zero_test_keys(y) and xv is not None and xv != 0:
            return ("range-guarded", ya)
    if a[0] == "dot" and a[1] == a[2]:
        va = _single_atom(Poly({m: _frac(c) for m, c in a[1]}))
        if va is not None and va[0] == "var" and va[1] in params:
            return ("norm2", va[1])
    return ("other", r.show()[:60])


def _frac(c):
    from fractions import Fraction
    return Fraction(*c)


class GeoVN(VN):
    """VN that records divisions and abstracts 1/range(X) to one atom whatever the guard idiom"""

    def __init__(self, prog, func, params, env=None):
        super().__init__(prog, func, env, strip_broadcast=True)
        self.params = params
        self.divs = []

    def binop(self, op, l, r, node):
        if op is ast.Div:
            kind, payload = classify_den(r, self.params)
            self.divs.append((node, r, kind, payload))
            if kind in ("range-unguarded", "range-guarded", "range-tolerance"):
                return l * Poly.atom(("invrange", payload))
        return super().binop(op, l, r, node)

    def bind(self, t, v, st):
        # scale[range == 0] = c on scale = 1/range: the column it multiplies is identically zero there -> no effect
        if isinstance(t, ast.Subscript) and isinstance(t.value, ast.Name) and t.value.id in self.env and v.const_value() is not None:
            cur = self.env[t.value.id]
            inv = None
            for m in cur.terms:
                here = [a for a, e in m if isinstance(a, tuple) and a[0] == "invrange" and e == 1]
                if len(here) != 1 or (inv is not None and here[0] != inv):
                    inv = None
                    break
                inv = here[0]
            if inv is not None and cur.terms and self._is_zero_test_of_guarded(self.index_key(t.slice), inv[1]):
                return
        super().bind(t, v, st)

    def _is_zero_test_of_guarded(self, idx, rng_atom):
        # mask computed on the range BEFORE substitution (mask = maximum == 0.0; maximum[mask] = 1.0; ...; scale[mask] = 0.0)
        return idx in _zero_test_keys(Poly.atom(rng_atom).key())

    def call(self, e):
        d = self.dotted(e.func)
        if d == "numpy.outer" and len(e.args) == 2 and not e.keywords:
            return self.expr(e.args[0]) * self.expr(e.args[1])
        if d == "numpy.linalg.norm":
            kws, _ = kwargs_of(e)
            o = kws.get("ord") or (e.args[1] if len(e.args) > 1 else None)
            if o is not None and isinstance(o, ast.Constant) and o.value == 2 and (kws.get("axis") is not None or len(e.args) > 2):
                e2 = ast.Call(func=e.func, args=e.args[:1], keywords=[k for k in e.keywords if k.arg != "ord"])
                if len(e.args) > 2:
                    e2.keywords.append(ast.keyword(arg="axis", value=e.args[2]))
                return super().call(e2)
        return super().call(e)


def _run_geo(prog, f, params, stmts, env=None):
    vn = GeoVN(prog, f, params, env)
    pre = []
    for st in stmts:
        if isinstance(st, ast.Assert):
            pre.append(dump(st.test))
            continue
        r = vn.stmt(st)
        if r is not None:
            return vn, r, pre
    return vn, vn.env.get("out"), pre


def check_transformations(prog, rep):
    for (mod, name), (mat, sign, line) in sorted(TRANS.items()):
        f = prog.func(mod, name)
        rep.saw(f)
        construct = f.qualname
        ps = f.params()
        if not {mat, sign, line} <= set(ps):
            rep.unrec("R4-geometry", construct, "parameters %s no longer include the documented (%s, %s, %s)" % (ps, mat, sign, line))
            continue
        try:
            vn, got, pre = _run_geo(prog, f, set(ps), body_nodoc(f.node))
        except VNUnknown as ex:
            rep.unrec("R4-geometry", construct, "body not straight-line: %s" % ex)
            continue
        if got is None or isinstance(got, list):
            rep.unrec("R4-geometry", construct, "no single returned expression")
            continue
        # R3: every division
        for node, r, kind, payload in vn.divs:
            c3 = "%s: %s" % (construct, dump(node)[:70])
            if kind == "const":
                rep.ok("R3-guard", c3, "constant denominator")
            elif kind == "range-guarded":
                rep.ok("R3-guard", c3, "per-objective range with zeros replaced by a non-zero constant before the division")
            elif kind == "norm2":
                rep.ok("R3-guard", c3, "squared norm of the preference vector %s (non-zero by the property's precondition%s)"
                       % (payload, "; asserted" if any(payload in p for p in pre) else ""))
            elif kind == "range-tolerance":
                rep.violate("R3-guard", c3, "the zero-range guard is a tolerance test (numpy.isclose): an objective whose range is small but not zero is treated as constant and left "
                            "unscaled, so the distances change under translation and positive rescaling of that objective", where(f, node),
                            "range[range == 0.0] = 1.0", "range[numpy.isclose(...)] = 1.0")
            elif kind == "range-unguarded":
                rep.violate("R3-guard", c3, "division by the per-objective range without a zero substitution: a constant objective gives 0/0 = NaN for every point",
                            where(f, node), "range[range == 0] = 1 before dividing", "1 / %s" % r.show()[:60])
            else:
                rep.unrec("R3-guard", c3, "denominator %s" % payload)
        # R4: whole-term comparison with the geometric definition
        rstm = ast.parse(GEOMETRY.format(mat=mat, sign=sign, line=line)).body
        rvn, want, _ = _run_geo(prog, f, set(ps), rstm)
        if got == want:
            rep.ok("R4-geometry", construct, "|| M - ((M.%s)/(%s.%s)) %s ||_2 per point with M = min-max scaled (%s * %s)" % (line, line, line, line, mat, sign))
        elif comparable(got, want):
            swapped = ast.parse(GEOMETRY.format(mat=mat, sign=line, line=sign)).body
            _, sw, _ = _run_geo(prog, f, set(ps), swapped)
            if got == sw:
                det = "the roles of %s and %s are exchanged: the preference vector is applied as objective signs and the points are projected onto the sign vector" % (sign, line)
            else:
                det = "the returned distance is not the orthogonal distance of the sign-adjusted, translated, range-scaled points to the line through %s" % line
            rep.violate("R4-geometry", construct, det, where(f), want.show()[:200], got.show()[:200])
        else:
            rep.unrec("R4-geometry", construct, "distance computed with operators outside the reference formulation: %s" % got.show()[:120])
    rep.floor("R4-geometry", 3)
    rep.floor("R3-guard", 6)


def check_default(prog, rep):
    K = prog.get_class("SelectionProtocol", "pybrops.breed.prot.sel.SelectionProtocol")
    R = "R4-default"
    p_fn = prog.lookup_prop(K, "ndset_trans")
    p_kw = prog.lookup_prop(K, "ndset_trans_kwargs")
    if p_fn is None or p_kw is None or p_fn.setter is None or p_kw.setter is None:
        rep.unrec(R, K.qualname, "ndset_trans / ndset_trans_kwargs setters vanished")
        return
    rep.saw(p_fn.setter)
    rep.saw(p_kw.setter)
    construct = K.qualname + ".ndset_trans_kwargs"

    def default_of(setter):
        for st in walk_no_nested(setter.node):
            if isinstance(st, ast.If) and isinstance(st.test, ast.Compare) and isinstance(st.test.ops[0], ast.Is) \
                    and isinstance(st.test.comparators[0], ast.Constant) and st.test.comparators[0].value is None:
                par = setter.params()[1] if len(setter.params()) > 1 else "value"
                loc = {s.targets[0].id: s.value for s in st.body if isinstance(s, ast.Assign) and isinstance(s.targets[0], ast.Name) and s.targets[0].id != par}
                for s in st.body:
                    if isinstance(s, ast.Assign) and isinstance(s.targets[0], ast.Name) and s.targets[0].id == par:
                        v = s.value
                        if isinstance(v, ast.Dict):
                            names = [x.id for x in v.values if isinstance(x, ast.Name) and x.id in loc]
                            shared.extend(sorted({x for x in names if names.count(x) > 1}))
                            v = ast.Dict(keys=v.keys, values=[loc[x.id] if isinstance(x, ast.Name) and x.id in loc else x for x in v.values])
                        return v
        return None
    shared = []
    dfn = default_of(p_fn.setter)
    dkw = default_of(p_kw.setter)
    if shared:
        rep.violate(R, construct, "the default keyword arguments hold ONE array object (%s) under several names: the objective signs and the preference vector are then the same "
                    "storage, and setting one in place changes the other" % shared[0], where(p_kw.setter), "a separate numpy.repeat(1.0, self.nobj) per entry", shared[0])
        return
    if not isinstance(dfn, ast.Name) or not isinstance(dkw, ast.Dict):
        rep.unrec(R, construct, "defaults are not `value = <function>` / `value = {...}` under `if value is None`")
        return
    target = prog.resolve_name(p_fn.setter.module, dfn.id)
    if not isinstance(target, FuncInfo):
        rep.unrec(R, construct, "default transformation %s does not resolve to a library function" % dfn.id)
        return
    key = (target.module.name, target.name)
    if key not in TRANS:
        rep.unrec(R, construct, "default transformation %s.%s is not one of the analysed distance transformations" % key)
        return
    want = set(TRANS[key][1:])
    keys = {k.value for k in dkw.keys if isinstance(k, ast.Constant)}
    if keys != want:
        rep.violate(R, construct, "default keyword arguments %s do not match the parameters %s of the default transformation %s" % (sorted(keys), sorted(want), target.name),
                    where(p_kw.setter), str(sorted(want)), str(sorted(keys)))
        return
    bad = [dump(v) for v in dkw.values if "".join(dump(v).split()) not in ("numpy.repeat(1.0,self.nobj)", "numpy.ones(self.nobj)", "numpy.repeat(1.0,self._nobj)")]
    if bad:
        own = [b for b in bad if "".join(b.split()) in ("self.obj_wt", "self._obj_wt", "-self.obj_wt")]
        if own:
            # the front handed to the transformation is the solver's, already in minimising form: the protocol's own signs would be applied a second time
            rep.violate(R, construct, "the default transformation is given the protocol's own objective weights (%s): the front it scores is already in minimising form, so with "
                        "mixed-sign weights the default distance is no longer the distance to the preference vector" % own[0], where(p_kw.setter), "numpy.repeat(1.0, self.nobj)", own[0])
        else:
            rep.unrec(R, construct, "default vectors %s are not ones of length nobj" % bad)
        return
    rep.ok(R, construct, "default %s receives %s, each a ones vector of length nobj" % (target.name, sorted(keys)))
    rep.floor(R, 1)


def run(prog, rep, tier):
    rep.explanation = ('Exhaustive evaluation of the comparison-only dominance predicate on the finite set of order types of its inputs; def-use pairing of objective / violation arguments at its call sites; value-numbered loop body of the Pareto filter against its structural reference; guarded-division rule and whole-term comparison of the three distance transformations with the geometric definition.')
    rep.not_decided = ['that the pivot arithmetic of the filter returns the non-dominated set for every order of dominated / duplicate points (loop invariant of the algorithm; only structural necessary conditions are checked)', 'order- and rescaling-invariance of the efficient set as runtime facts']
    check_dominates(prog, rep)
    check_dominates_calls(prog, rep)
    check_filter(prog, rep)
    check_filter_callers(prog, rep)
    check_transformations(prog, rep)
    check_default(prog, rep)
    rep.floor("R1-dominates", 1)
