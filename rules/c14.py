"""
C14  Phenotyping and breeding-value estimation preserve truth and alignment

  R1-records   G_E_Phenotyping.phenotype: loops are zip(range(nenv), nrep) x range(replicates of that environment); on EVERY path through one
               replicate iteration each parallel list receives exactly one block (the optional group list under the same guard it was created
               with); every block has one row per taxon (the taxa vector, repeat(label, ntaxa), the value block); each list is concatenated once
               and lands in the column of its own name ('taxa', 'taxa_grp', 'env', 'rep'); environment / replicate labels are the loop
               counters + 1          "exactly one record per taxon, environment and replicate, each carrying that taxon's labels"
  R2-value     value block = true + env_effect[None,:] + rep_effect[None,:] + err_effect; true = self.gpmod.gegv(pgmat).unscale(); the environment
               effect is drawn once per environment, the replicate effect once per replicate, the error once per replicate with one row per taxon;
               every draw is self.rng.multivariate_normal(zeros(len(var_X)), diag(self.var_X)[, ntaxa]) with its OWN variance vector
               "with all noise variances zero every record equals the taxon's true genotypic value"
  R2-fresh     anything derived from a variance vector and kept on the object is reset by every setter of that vector (no stale covariance
               between trials)
  R3-herit     set_h2: var_err = (1 - h2)/h2 * gpmod.var_A(pgmat); set_H2: the same with var_G
               "genetic over genetic-plus-error variance equals the target"
  R4-mean      estimate: aggregation = group by the taxa (and group) column, 'mean' of every trait column
  R4-align     with a genotype matrix: result row i (genotype order) <- aggregate row looked up by the NAME of taxon i in a table built from the
               aggregate's own taxa column; missing names keep the NaN fill; labels / group metadata of the result are the genotype object's;
               without one: matrix, taxa, groups all come from the same aggregated frame
               "aligned to the taxon order of the genotype matrix supplied, with unphenotyped taxa reported as missing"
  R5-true      TruePhenotyping: labels and unscaled values both come from one gegv(pgmat) result; TrueBreedingValue: gebv(gtobj)
NOT decided: convergence of realised variances (distributional), pandas group-by / concat semantics (trusted), invariance to row order (follows from
group-by + name lookup, not established numerically).
"""
import ast

from sa.ctorflow import wire

from sa.astutil import dump, where, kwargs_of, walk_no_nested
from sa.model import body_nodoc
from sa.order import enumerate_paths, Event
from sa.vn import VN, Poly, VNUnknown, comparable

GE = ("G_E_Phenotyping", "pybrops.breed.prot.pt.G_E_Phenotyping")
TP = ("TruePhenotyping", "pybrops.breed.prot.pt.TruePhenotyping")
MP = ("MeanPhenotypicBreedingValue", "pybrops.breed.prot.bv.MeanPhenotypicBreedingValue")
TB = ("TrueBreedingValue", "pybrops.breed.prot.bv.TrueBreedingValue")
VARS = ("var_env", "var_rep", "var_err")


def _strip(s):
    return "".join(s.split())


def _assigns(node):
    out = {}
    for st in walk_no_nested(node):
        if isinstance(st, ast.Assign) and len(st.targets) == 1 and isinstance(st.targets[0], ast.Name):
            out.setdefault(st.targets[0].id, []).append(st)
    return out


def _resolve(e, asg, depth=0):
    """follow single-assignment local names"""
    while isinstance(e, ast.Name) and e.id in asg and len(asg[e.id]) == 1 and depth < 8:
        e = asg[e.id][0].value
        depth += 1
    return e


# ------------------------------------------------------------------------------------------------ R1 / R2
def check_phenotype(prog, rep):
    K = prog.get_class(*GE)
    f = prog.own_method(K, "phenotype")
    rep.saw(f)
    construct = f.qualname
    body = body_nodoc(f.node)
    asg = _assigns(f.node)
    R = "R1-records"
    outer = [s for s in body if isinstance(s, ast.For)]
    if len(outer) != 1:
        rep.unrec(R, construct, "expected one environment loop")
        return
    outer = outer[0]
    inner = [s for s in outer.body if isinstance(s, ast.For)]
    if len(inner) != 1:
        rep.unrec(R, construct, "expected one replicate loop inside the environment loop")
        return
    inner = inner[0]
    good = True
    # loop headers
    oi = _strip(dump(outer.iter))
    if not (isinstance(outer.target, ast.Tuple) and len(outer.target.elts) == 2 and oi in ("zip(range(self.nenv),self.nrep)", "zip(range(self._nenv),self._nrep)", "enumerate(self.nrep)")):
        # classified: the pair loop is there but pairs environments with something else than their replicate counts; anything else is another formulation
        if oi.startswith("zip(range(self.nenv),") or oi.startswith("zip(range(self._nenv),"):
            rep.violate(R, construct, "environment loop is `for %s in %s`, not over (environment, its replicate count) = zip(range(self.nenv), self.nrep)" % (dump(outer.target), dump(outer.iter)),
                        where(f, outer), "zip(range(self.nenv), self.nrep)", dump(outer.iter))
        elif oi in ("range(self.nenv)", "range(self._nenv)") and not any("nrep" in dump(n) for n in ast.walk(outer)):
            rep.violate(R, construct, "environments are looped over without their replicate counts (self.nrep is never consulted)", where(f, outer), "zip(range(self.nenv), self.nrep)", dump(outer.iter))
        else:
            rep.unrec(R, construct, "environment loop `for %s in %s` is another formulation of (environment, replicate count)" % (dump(outer.target), dump(outer.iter)[:50]))
        return
    env, env_nrep = [dump(e) for e in outer.target.elts]
    if not (isinstance(inner.target, ast.Name) and _strip(dump(inner.iter)) == "range(%s)" % env_nrep):
        rep.violate(R, construct, "replicate loop is `for %s in %s`, not range(%s) (the replicate count of this environment)" % (dump(inner.target), dump(inner.iter), env_nrep),
                    where(f, inner), "range(%s)" % env_nrep, dump(inner.iter))
        good = False
    repv = dump(inner.target)
    # lists: created as [] (or conditional None/[]) before the loops and concatenated after
    lists = {}
    for name, sts in asg.items():
        for s in sts:
            if s in body and body.index(s) < body.index(outer):
                v = s.value
                if isinstance(v, ast.List) and not v.elts:
                    lists[name] = None
                elif isinstance(v, ast.IfExp) and isinstance(v.orelse, ast.List) and not v.orelse.elts and isinstance(v.body, ast.Constant) and v.body.value is None:
                    lists[name] = _strip(dump(v.test))
    if len(lists) < 4:
        rep.unrec(R, construct, "parallel record lists not found (%s)" % sorted(lists))
        return
    # appends: only in the replicate loop
    stray = [s for s in ast.walk(outer) if isinstance(s, ast.Call) and isinstance(s.func, ast.Attribute) and s.func.attr in ("append", "extend", "insert")
             and isinstance(s.func.value, ast.Name) and s.func.value.id in lists]
    in_inner = set()
    for s in ast.walk(inner):
        in_inner.add(id(s))
    for s in stray:
        if id(s) not in in_inner:
            rep.violate(R, construct, "%s is extended outside the replicate loop: its blocks fall out of step with the other columns" % s.func.value.id, where(f, s))
            good = False

    def classify(st):
        ev = []
        for n in ast.walk(st):
            if isinstance(n, ast.Call) and isinstance(n.func, ast.Attribute) and n.func.attr in ("append", "extend", "insert") and isinstance(n.func.value, ast.Name) \
                    and n.func.value.id in lists:
                ev.append(Event(n.func.value.id, n))
        return ev

    def conds(test):
        return []
    try:
        paths = enumerate_paths(inner.body, classify, cond_events=conds)
    except Exception as ex:
        rep.unrec(R, construct, "replicate loop body: %s" % ex)
        return
    guards = {}
    for st in inner.body:
        if isinstance(st, ast.If):
            for n in ast.walk(st):
                if isinstance(n, ast.Call) and isinstance(n.func, ast.Attribute) and n.func.attr == "append" and isinstance(n.func.value, ast.Name) and n.func.value.id in lists:
                    guards[n.func.value.id] = _strip(dump(st.test))
    uncond = [l for l in lists if lists[l] is None]
    for l in uncond:
        if l in guards:
            rep.violate(R, construct, "%s receives its block only when %s, while the other columns always do" % (l, guards[l]), where(f, inner))
            good = False
    # every unconditional list exactly once on every path
    npaths = 0
    for p in paths:
        npaths += 1
        names = [e.name for e in p]
        for l in uncond:
            if names.count(l) != 1 and l not in guards:
                rep.violate(R, construct, "on a path through one replicate iteration %s receives %d blocks (every column needs exactly one)" % (l, names.count(l)), where(f, inner),
                            "1 append", "%d appends" % names.count(l))
                good = False
    for l, cond in lists.items():
        if cond is None:
            continue
        # optional list: created when not (X is None); appended under `L is not None`
        g = guards.get(l)
        apps = [s for s in stray if s.func.value.id == l]
        if len(apps) != 1 or g not in ("%sisnotNone" % l,):
            rep.violate(R, construct, "optional column list %s (created unless %s) is appended %d time(s) under guard %s; expected once under `%s is not None`"
                        % (l, cond, len(apps), g, l), where(f, inner))
            good = False
    # block heights: what is appended
    ntaxa_names = {k for k, v in asg.items() if len(v) == 1 and _strip(dump(v[0].value)).endswith(".ntaxa")} | {"ntaxa"}
    gv = [k for k, v in asg.items() if len(v) == 1 and _strip(dump(v[0].value)) in ("self.gpmod.gegv(pgmat)", "self._gpmod.gegv(pgmat)")]
    if len(gv) != 1:
        rep.unrec("R2-value", construct, "true genotypic values are not obtained by one self.gpmod.gegv(pgmat)")
        return
    gv = gv[0]
    roles = {}
    for s in stray:
        l = s.func.value.id
        a = s.args[0] if s.args else None
        a_res = _resolve(a, {k: v for k, v in asg.items() if all(x in body for x in v)})
        txt = _strip(dump(a_res)) if a_res is not None else ""
        if isinstance(a_res, ast.Call) and prog.dotted(f.module, a_res.func) == "numpy.full" and len(a_res.args) == 2 and not a_res.keywords \
                and not isinstance(a_res.args[0], (ast.Tuple, ast.List)):
            # numpy.full(n, k) with a scalar count is numpy.repeat(k, n)
            a_res = ast.Call(func=ast.parse("numpy.repeat", mode="eval").body, args=[a_res.args[1], a_res.args[0]], keywords=[])
        if isinstance(a_res, ast.Call) and prog.dotted(f.module, a_res.func) == "numpy.repeat" and len(a_res.args) == 2:
            what, cnt = _strip(dump(a_res.args[0])), _strip(dump(a_res.args[1]))
            if cnt not in ntaxa_names and cnt != "%s.ntaxa" % gv:
                rep.violate(R, construct, "label block for %s has %s rows, not one per taxon" % (l, cnt), where(f, s), "ntaxa", cnt)
                good = False
            if what == "%s+1" % env:
                roles[l] = "env"
            elif what == "%s+1" % repv:
                roles[l] = "rep"
            elif what in (env, repv):
                rep.violate(R, construct, "%s labels are the zero-based loop counter %s (labels are 1-based: counter + 1)" % (l, what), where(f, s), what + "+1", what)
                good = False
                roles[l] = "env" if what == env else "rep"
            else:
                rep.violate(R, construct, "label block for %s repeats %s, which is neither the environment nor the replicate counter" % (l, what), where(f, s))
                good = False
        elif isinstance(a, ast.Name) and a.id in asg and "taxa_grp" in _strip(dump(asg[a.id][0].value)) and "%s.taxa_grp" % gv in _strip(dump(asg[a.id][0].value)):
            roles[l] = "taxa_grp"
        elif isinstance(a, ast.Name) and a.id in asg and "%s.taxa" % gv in _strip(dump(asg[a.id][0].value)):
            roles[l] = "taxa"
        elif txt in ("%s.taxa" % gv,):
            roles[l] = "taxa"
        elif txt in ("%s.taxa_grp" % gv,):
            roles[l] = "taxa_grp"
        else:
            roles[l] = "value:" + (a.id if isinstance(a, ast.Name) else txt[:30])
    # concatenation -> data frame columns
    post = body[body.index(outer) + 1:]
    pasg = {}
    for s in post:
        if isinstance(s, ast.Assign) and isinstance(s.targets[0], ast.Name):
            pasg[s.targets[0].id] = s.value

    def concat_src(e):
        e0 = e
        if isinstance(e, ast.Name) and e.id in pasg:
            e = pasg[e.id]
        if isinstance(e, ast.IfExp):
            e = e.orelse
        if isinstance(e, ast.Call) and prog.dotted(f.module, e.func) == "numpy.concatenate" and e.args and isinstance(e.args[0], ast.Name):
            kws, _ = kwargs_of(e)
            ax = kws.get("axis") or (e.args[1] if len(e.args) > 1 else None)
            return e.args[0].id, (dump(ax) if ax is not None else None)
        return None, None
    frames = [v for v in pasg.values() if isinstance(v, ast.Call) and prog.dotted(f.module, v.func) == "pandas.DataFrame"]
    label_frame = [v for v in frames if v.args and isinstance(v.args[0], ast.Dict)]
    if len(label_frame) != 1:
        rep.unrec(R, construct, "label data frame literal not found")
        return
    d = label_frame[0].args[0]
    for k, v in zip(d.keys, d.values):
        col = k.value if isinstance(k, ast.Constant) else None
        src, ax = concat_src(v)
        if src is None or src not in lists:
            rep.unrec(R, construct, "column %r is not the concatenation of a record list" % col)
            good = False
            continue
        if roles.get(src) != col:
            rep.violate(R, construct, "column %r is filled from the list holding %s blocks" % (col, roles.get(src)), where(f, v), col, str(roles.get(src)))
            good = False
    need = {"taxa", "env", "rep", "taxa_grp"}
    have = {k.value for k in d.keys if isinstance(k, ast.Constant)}
    if not need <= have:
        rep.violate(R, construct, "label frame lacks column(s) %s" % sorted(need - have), where(f, d))
        good = False
    # value frame
    vframe = [v for v in frames if v is not label_frame[0]]
    vlist = [l for l, r in roles.items() if r.startswith("value:")]
    if len(vframe) != 1 or len(vlist) != 1:
        rep.unrec(R, construct, "value frame / value list not unique")
        return
    kws, _ = kwargs_of(vframe[0])
    data = kws.get("data") or (vframe[0].args[0] if vframe[0].args else None)
    src, ax = concat_src(data)
    if src != vlist[0]:
        rep.violate(R, construct, "the value frame is built from %s, not from the value blocks %s" % (src, vlist[0]), where(f, vframe[0]))
        good = False
    elif ax not in ("0", None):
        rep.violate(R, construct, "value blocks are concatenated along axis %s: records must be stacked row-wise (axis 0) like the label columns" % ax, where(f, vframe[0]), "axis=0", ax)
        good = False
    # final concat labels | values column-wise
    rets = [s for s in body if isinstance(s, ast.Return)]
    fin = _resolve(rets[0].value, {k: [ast.Assign(targets=[ast.Name(id=k)], value=v)] for k, v in pasg.items()}) if rets else None
    if not (isinstance(fin, ast.Call) and prog.dotted(f.module, fin.func) == "pandas.concat"):
        rep.unrec(R, construct, "result is not pandas.concat([labels, values], axis=1)")
        good = False
    else:
        kws, _ = kwargs_of(fin)
        if dump(kws.get("axis")) != "1":
            rep.violate(R, construct, "labels and values are concatenated along axis %s, not side by side (axis=1)" % (dump(kws.get("axis")) if kws.get("axis") is not None else "0"), where(f, fin))
            good = False
    if good:
        rep.ok(R, construct, "zip(range(nenv), nrep) x range(env_nrep); %d paths, one block per list per replicate (%s); ntaxa rows each; columns by role %s"
               % (npaths, ", ".join(sorted(lists)), {l: r.split(":")[0] for l, r in sorted(roles.items())}))
    rep.floor(R, 1)
    _check_value(prog, rep, f, K, outer, inner, env, repv, vlist[0], stray, gv, asg, ntaxa_names)


def _check_value(prog, rep, f, K, outer, inner, env, repv, vlist, stray, gv, asg, ntaxa_names):
    R = "R2-value"
    construct = f.qualname
    body = body_nodoc(f.node)
    good = True
    app = [s for s in stray if s.func.value.id == vlist][0]
    # draws
    draws = {}
    for blk, level in ((outer.body, "env"), (inner.body, "rep")):
        for s in blk:
            if isinstance(s, ast.Assign) and isinstance(s.targets[0], ast.Name) and isinstance(s.value, ast.Call) and isinstance(s.value.func, ast.Attribute) \
                    and s.value.func.attr in ("multivariate_normal", "normal", "standard_normal"):
                draws[s.targets[0].id] = (s.value, level)
    pre_draws = [s for s in body if isinstance(s, ast.Assign) and isinstance(s.value, ast.Call) and isinstance(s.value.func, ast.Attribute)
                 and s.value.func.attr in ("multivariate_normal", "normal", "standard_normal")]
    if pre_draws:
        rep.violate(R, construct, "an effect is drawn once outside the loops (%s): every environment / replicate shares it" % dump(pre_draws[0].targets[0]), where(f, pre_draws[0]))
        good = False
    # value term
    vexpr = app.args[0]
    vdef = None
    if isinstance(vexpr, ast.Name):
        ds = [s for s in inner.body if isinstance(s, ast.Assign) and dump(s.targets[0]) == vexpr.id]
        if len(ds) == 1:
            vdef = ds[0].value
    else:
        vdef = vexpr
    if vdef is None:
        rep.unrec(R, construct, "value block not defined once in the replicate loop")
        return
    true_names = [k for k, v in asg.items() if len(v) == 1 and _strip(dump(v[0].value)) == "%s.unscale()" % gv]
    if len(true_names) != 1:
        if any(_strip(dump(v[0].value)) in ("%s.mat" % gv, "%s._mat" % gv) for v in asg.values() if len(v) == 1):
            rep.violate(R, construct, "records are built from the stored (standardised) matrix of the genotypic values, not from unscale(): they are not the true values",
                        where(f), "%s.unscale()" % gv, "%s.mat" % gv)
        else:
            rep.unrec(R, construct, "true values are not %s.unscale()" % gv)
        return
    true = true_names[0]
    by_level = {"env": [k for k, (c, lv) in draws.items() if lv == "env"], "rep": [k for k, (c, lv) in draws.items() if lv == "rep"]}
    try:
        got = VN(prog, f, strip_broadcast=True).expr(vdef)
    except VNUnknown as ex:
        rep.unrec(R, construct, "value: %s" % ex)
        return
    atoms = {a[1] for a in got.atoms() if isinstance(a, tuple) and a[0] == "var"}
    used = [d for d in draws if d in atoms]
    ref = Poly.atom(("var", true))
    for d in used:
        ref = ref + Poly.atom(("var", d))
    if got != ref:
        if comparable(got, ref):
            rep.violate(R, construct, "record value normalises to %s, not true value + environment effect + replicate effect + error (each once, unit coefficient)" % got.show()[:120],
                        where(f, app), ref.show()[:120], got.show()[:120])
        else:
            rep.unrec(R, construct, "record value %s" % got.show()[:100])
        good = False
    # classify the used draws: exactly one env-level, and among rep-level one broadcast (no size) and one sized ntaxa
    def spec(call):
        kws, _ = kwargs_of(call)
        mean = call.args[0] if call.args else kws.get("mean")
        cov = call.args[1] if len(call.args) > 1 else kws.get("cov")
        size = call.args[2] if len(call.args) > 2 else kws.get("size")
        return mean, cov, size
    kinds = {}
    for d in used:
        call, level = draws[d]
        gen = _strip(dump(call.func.value))
        if gen not in ("self.rng", "self._rng"):
            rep.violate(R, construct, "effect %s is drawn from %s, not from the protocol's generator self.rng" % (d, gen), where(f, call), "self.rng", gen)
            good = False
        mean, cov, size = spec(call)
        if call.func.attr == "normal":
            kws_n, _ = kwargs_of(call)
            mean = call.args[0] if call.args else kws_n.get("loc")
            cov = call.args[1] if len(call.args) > 1 else kws_n.get("scale")
            size = call.args[2] if len(call.args) > 2 else kws_n.get("size")
            sc = _resolve(cov, asg) if cov is not None else None
            sct = _strip(dump(sc)) if sc is not None else ""
            direct = [v for v in VARS if sct in ("self.%s" % v, "self._%s" % v)]
            rooted = [v for v in VARS if sct in ("numpy.sqrt(self.%s)" % v, "numpy.sqrt(self._%s)" % v, "self.%s**0.5" % v)]
            if direct:
                rep.violate(R, construct, "effect %s is drawn with normal(mean, self.%s): the scale of normal() is a standard deviation, so the realised variance is the "
                            "square of the requested one" % (d, direct[0]), where(f, call), "scale = numpy.sqrt(self.%s)" % direct[0], dump(cov)[:40])
                good = False
                kinds[d] = (level, direct[0], (_strip(dump(size)).strip("()").split(",")[0] if size is not None else None))
                continue
            if not rooted:
                rep.unrec(R, construct, "scale of %s: %s" % (d, sct[:50]))
                good = False
                continue
            m = _resolve(mean, asg) if mean is not None else None
            mt = _strip(dump(m)) if m is not None else "0.0"
            if not (mt in ("0", "0.0") or mt.startswith(("numpy.zeros(", "numpy.full(len(self.")) and ",0.0" in mt + ",0.0"):
                rep.unrec(R, construct, "mean of %s: %s" % (d, mt[:50]))
                good = False
            kinds[d] = (level, rooted[0], (_strip(dump(size)).strip("()").split(",")[0] if size is not None else None))
            continue
        if mean is None or cov is None:
            rep.unrec(R, construct, "draw %s without (mean, cov)" % d)
            good = False
            continue
        m = _resolve(mean, asg)
        c = _resolve(cov, asg)
        mtxt, ctxt = _strip(dump(m)), _strip(dump(c))
        # a zero vector with one entry per trait, however it is spelled: zeros(n), full(n, 0.0), repeat(0.0, n) with n = len(self.var_x) or self.var_x.shape[0]
        var_m = []
        nonzero_fill = False
        if isinstance(m, ast.Call):
            dm = prog.dotted(f.module, m.func)
            kwm = {k.arg: k.value for k in m.keywords}
            n_, fill = None, None
            if dm == "numpy.zeros" and (m.args or "shape" in kwm):
                n_, fill = (m.args[0] if m.args else kwm["shape"]), 0.0
            elif dm == "numpy.full" and len(m.args) + len([k for k in ("shape", "fill_value") if k in kwm]) >= 2:
                n_ = m.args[0] if m.args else kwm["shape"]
                fv = m.args[1] if len(m.args) > 1 else kwm["fill_value"]
                fill = fv.value if isinstance(fv, ast.Constant) and isinstance(fv.value, (int, float)) else "?"
            elif dm == "numpy.repeat" and len(m.args) == 2:
                n_ = m.args[1]
                fill = m.args[0].value if isinstance(m.args[0], ast.Constant) and isinstance(m.args[0].value, (int, float)) else "?"
            elif dm == "numpy.ones":
                fill = 1.0
            if fill not in (None, "?") and fill != 0:
                nonzero_fill = True
            elif fill == 0 and n_ is not None:
                ntxt = _strip(dump(n_))
                var_m = [v for v in VARS if ntxt in ("len(self.%s)" % v, "self.%s.shape[0]" % v, "self.%s.size" % v, "len(self._%s)" % v, "self._%s.shape[0]" % v)]
        var_c = [v for v in VARS if ctxt in ("numpy.diag(self.%s)" % v, "numpy.diag(self._%s)" % v)]
        if not var_c:
            attr = isinstance(c, ast.Attribute) and isinstance(c.value, ast.Name) and c.value.id == "self"
            if attr:
                # cached covariance: must be one of the diag(var) stores, freshness is R2-fresh
                stores = [s for s in ast.walk(K.node) if isinstance(s, ast.Assign) and any(_strip(dump(t)) == ctxt for t in s.targets)]
                var_c = [v for v in VARS for s in stores if _strip(dump(s.value)) in ("numpy.diag(self.%s)" % v, "numpy.diag(self._%s)" % v)]
                var_c = sorted(set(var_c))
            if not var_c:
                if any(("self.%s" % v) in ctxt or ("self._%s" % v) in ctxt for v in VARS):
                    rep.violate(R, construct, "covariance of %s is %s, not diag(variance vector): the vector holds variances (not standard deviations / precisions)" % (d, dump(c)[:50]),
                                where(f, call), "numpy.diag(self.var_*)", dump(c)[:50])
                else:
                    rep.unrec(R, construct, "covariance of %s: %s" % (d, dump(c)[:50]))
                good = False
                continue
        if not var_m:
            if nonzero_fill:
                rep.violate(R, construct, "mean of %s is %s, not a zero vector: records are biased away from the true value" % (d, dump(m)[:50]), where(f, call), "zeros", dump(m)[:50])
            else:
                rep.unrec(R, construct, "mean of %s: %s" % (d, dump(m)[:50]))
            good = False
        elif var_m[0] != var_c[0]:
            rep.info(R, construct, "mean length from %s, covariance from %s" % (var_m[0], var_c[0]))
        sz = _strip(dump(size)) if size is not None else None
        kinds[d] = (level, var_c[0], sz)
    want = {("env", "var_env", None), ("rep", "var_rep", None)}
    gotk = set(kinds.values())
    errs = [k for k in gotk if k[1] == "var_err"]
    for d, (level, var, sz) in sorted(kinds.items()):
        if var == "var_env" and (level != "env" or sz is not None):
            rep.violate(R, construct, "the environment effect %s is drawn %s" % (d, "per replicate, not once per environment" if level != "env" else "with size %s" % sz), where(f, draws[d][0]))
            good = False
        if var == "var_rep" and (level != "rep" or sz is not None):
            rep.violate(R, construct, "the replicate effect %s is drawn %s" % (d, "once per environment, not per replicate" if level != "rep" else "with size %s" % sz), where(f, draws[d][0]))
            good = False
        if var == "var_err":
            if level != "rep":
                rep.violate(R, construct, "the error %s is drawn once per environment: replicates share their errors" % d, where(f, draws[d][0]))
                good = False
            if sz is None or (sz not in ntaxa_names and sz != "%s.ntaxa" % gv):
                rep.violate(R, construct, "the error %s is drawn with size %s: it must be independent per taxon (one row per taxon)" % (d, sz), where(f, draws[d][0]), "ntaxa", str(sz))
                good = False
    vs = sorted(v for _, v, _ in kinds.values())
    if vs != sorted(VARS) and good:
        rep.violate(R, construct, "the effects added to the true value use the variance vectors %s, expected one each of var_env, var_rep, var_err" % vs, where(f, app),
                    "var_env, var_rep, var_err", ", ".join(vs))
        good = False
    if good:
        rep.ok(R, construct, "value = %s.unscale() + env(1/env, var_env) + rep(1/rep, var_rep) + err(ntaxa/rep, var_err); zero means; diag covariances; self.rng" % gv)
    rep.floor(R, 1)


def check_fresh(prog, rep):
    """R2-fresh: object state derived from a variance vector is reset by every store to that vector"""
    K = prog.get_class(*GE)
    R = "R2-fresh"
    n = 0
    derived = {}   # attribute -> set(var)
    for fn in _class_funcs(K):
        for s in ast.walk(fn.node):
            if isinstance(s, ast.Assign):
                for t in s.targets:
                    if isinstance(t, ast.Attribute) and isinstance(t.value, ast.Name) and t.value.id == "self":
                        a = t.attr
                        if a.lstrip("_") in VARS:
                            continue
                        txt = _strip(dump(s.value))
                        for v in VARS:
                            if "self.%s" % v in txt or "self._%s" % v in txt:
                                derived.setdefault(a, set()).add(v)
    writers = {v: [] for v in VARS}
    for fn in _class_funcs(K):
        for s in ast.walk(fn.node):
            if isinstance(s, ast.Assign):
                for t in s.targets:
                    if isinstance(t, ast.Attribute) and isinstance(t.value, ast.Name) and t.value.id == "self" and t.attr.lstrip("_") in VARS and t.attr.startswith("_"):
                        writers[t.attr.lstrip("_")].append(fn)
    for v in VARS:
        if not writers[v]:
            rep.unrec(R, K.qualname, "no writer of _%s found" % v)
            return
    for a, vs in sorted(derived.items()):
        for v in sorted(vs):
            for w in writers[v]:
                n += 1
                resets = [s for s in ast.walk(w.node) if isinstance(s, ast.Assign) and any(isinstance(t, ast.Attribute) and t.attr == a and dump(t.value) == "self" for t in s.targets)]
                construct = "%s (derived self.%s)" % (w.qualname, a)
                if resets:
                    rep.ok(R, construct, "store to _%s also resets self.%s" % (v, a))
                else:
                    rep.violate(R, construct, "self.%s is computed from %s and kept on the object, but this writer of _%s does not reset it: the next trial uses the stale value"
                                % (a, v, v), where(w), "self.%s = None" % a, "no reset")
    if not derived:
        rep.ok(R, K.qualname, "no object state is derived from var_env / var_rep / var_err: every trial reads the current vectors")
    rep.floor(R, 1)


def _class_funcs(K):
    out = list(K.methods.values())
    for p in K.own_props.values():
        for g in (p.getter, p.setter):
            if g is not None and g not in out:
                out.append(g)
    return out


# ------------------------------------------------------------------------------------------------ R3
def check_heritability(prog, rep):
    K = prog.get_class(*GE)
    R = "R3-herit"
    for name, var in (("set_h2", "var_A"), ("set_H2", "var_G")):
        f = prog.own_method(K, name)
        rep.saw(f)
        construct = f.qualname
        h = f.params()[1]
        pg = f.params()[2]
        vn = VN(prog, f)
        try:
            for st in body_nodoc(f.node):
                if isinstance(st, ast.Expr):
                    continue
                vn.stmt(st)
        except VNUnknown as ex:
            rep.unrec(R, construct, str(ex))
            continue
        got = vn.env.get("self.var_err")
        if got is None:
            rep.violate(R, construct, "the error variance is not stored (self.var_err is never assigned)", where(f))
            continue
        ref = VN(prog, f).expr(ast.parse("(1.0 - {h}) / {h} * self.gpmod.{v}({pg})".format(h=h, v=var, pg=pg), mode="eval").body)
        if got == ref:
            rep.ok(R, construct, "var_err = (1 - %s)/%s * gpmod.%s(%s)" % (h, h, var, pg))
        elif comparable(got, ref) or {s for s in _meths(got)} <= {"var_A", "var_G", "var_a", "var_g"}:
            other = "var_G" if var == "var_A" else "var_A"
            alt = VN(prog, f).expr(ast.parse("(1.0 - {h}) / {h} * self.gpmod.{v}({pg})".format(h=h, v=other, pg=pg), mode="eval").body)
            if got == alt:
                det = "the error variance is scaled from %s, but %s heritability is defined on %s" % (other, "narrow-sense" if var == "var_A" else "broad-sense", var)
            else:
                det = "var_err normalises to %s; target heritability needs (1 - h)/h * %s" % (got.show()[:100], var)
            rep.violate(R, construct, det, where(f), ref.show()[:100], got.show()[:100])
        else:
            rep.unrec(R, construct, "var_err = %s" % got.show()[:100])
    rep.floor(R, 2)


def _meths(p):
    out = set()

    def walk(k):
        if isinstance(k, tuple):
            if k and k[0] == "meth" and len(k) > 1 and isinstance(k[1], str):
                out.add(k[1])
            for x in k:
                walk(x)
    walk(p.key())
    return out


# ------------------------------------------------------------------------------------------------ R4
def check_estimate(prog, rep):
    K = prog.get_class(*MP)
    f = prog.own_method(K, "estimate")
    rep.saw(f)
    construct = f.qualname
    body = body_nodoc(f.node)
    asg = _assigns(f.node)
    ps = f.params()
    pt, gt = ps[1], ps[2]
    # ---- R4-mean
    R = "R4-mean"
    aggs = [(k, s) for k, v in asg.items() for s in v if isinstance(s.value, ast.Call) and isinstance(s.value.func, ast.Attribute) and s.value.func.attr in ("agg", "aggregate", "mean")
            and "groupby" in dump(s.value)]
    if len(aggs) != 1:
        rep.unrec(R, construct, "aggregation is not one <frame>.groupby(keys).agg(...)")
        return
    A, ast_ = aggs[0]
    call = ast_.value
    gb = call.func.value
    good = True
    if not (isinstance(gb, ast.Call) and isinstance(gb.func, ast.Attribute) and gb.func.attr == "groupby" and dump(gb.func.value) == pt):
        rep.unrec(R, construct, "aggregate is not %s.groupby(...)" % pt)
        return
    kws, _ = kwargs_of(gb)
    keys = gb.args[0] if gb.args else kws.get("by")
    keyset = None
    if isinstance(keys, ast.Name) and keys.id in asg:
        init = asg[keys.id][0].value
        if isinstance(init, ast.List):
            keyset = [_strip(dump(e)) for e in init.elts]
            for s in walk_no_nested(f.node):
                if isinstance(s, ast.Call) and isinstance(s.func, ast.Attribute) and s.func.attr == "append" and dump(s.func.value) == keys.id:
                    keyset.append(_strip(dump(s.args[0])) + "?")
    elif isinstance(keys, ast.List):
        keyset = [_strip(dump(e)) for e in keys.elts]
    if keyset is None:
        rep.unrec(R, construct, "group keys %s" % dump(keys)[:40])
        return
    if not keyset or keyset[0] != "self.taxa_col":
        rep.violate(R, construct, "records are grouped by %s, not by the taxa column first" % keyset, where(f, gb), "[self.taxa_col, ...]", str(keyset))
        good = False
    extra = [k for k in keyset[1:] if k not in ("self.taxa_grp_col?", "self.taxa_grp_col")]
    if extra:
        rep.violate(R, construct, "records are also grouped by %s: a taxon's mean is split over those levels" % extra, where(f, gb))
        good = False
    if dump(kws.get("as_index")) != "False" and call.func.attr != "mean":
        rep.unrec(R, construct, "groupby without as_index=False")
        good = False
    if "dropna" in kws or "sort" in kws and dump(kws["sort"]) != "True":
        rep.info(R, construct, "groupby options %s" % sorted(kws))
    if call.func.attr in ("agg", "aggregate"):
        spec = call.args[0] if call.args else None
        fn = None
        over = None
        if isinstance(spec, ast.Call) and dump(spec.func) == "dict" and spec.args and isinstance(spec.args[0], ast.GeneratorExp):
            ge = spec.args[0]
            if isinstance(ge.elt, ast.Tuple) and len(ge.elt.elts) == 2 and isinstance(ge.elt.elts[1], ast.Constant):
                fn = ge.elt.elts[1].value
                over = _strip(dump(ge.generators[0].iter))
        elif isinstance(spec, ast.DictComp) and isinstance(spec.value, ast.Constant):
            fn = spec.value.value
            over = _strip(dump(spec.generators[0].iter))
        elif isinstance(spec, ast.Constant):
            fn = spec.value
            over = "self.trait_cols"
        if fn is None:
            rep.unrec(R, construct, "aggregation spec %s" % dump(spec)[:50])
            good = False
        else:
            if fn != "mean":
                rep.violate(R, construct, "traits are aggregated with %r, not the arithmetic mean" % fn, where(f, call), "'mean'", repr(fn))
                good = False
            if over != "self.trait_cols":
                rep.violate(R, construct, "aggregation covers %s, not every trait column" % over, where(f, call))
                good = False
    if good:
        rep.ok(R, construct, "%s.groupby(%s, as_index=False).agg(mean of every trait column)" % (pt, keyset))
    rep.floor(R, 1)
    # ---- R4-align
    R = "R4-align"
    good = True
    # split: `if gtobj is None:` branch
    br = [s for s in body if isinstance(s, ast.If) and _strip(dump(s.test)) == "%sisNone" % gt]
    if len(br) != 1 or not any(isinstance(x, ast.Return) for x in br[0].body):
        rep.unrec(R, construct, "no `if %s is None: ... return` branch" % gt)
        return
    nb = br[0].body
    nasg = {}
    for s in nb:
        if isinstance(s, ast.Assign) and isinstance(s.targets[0], ast.Name):
            nasg[s.targets[0].id] = s.value
    ctor = [s.value for s in nb if isinstance(s, ast.Assign) and isinstance(s.value, ast.Call) and dump(s.value.func).endswith(".from_numpy")]
    if len(ctor) != 1:
        rep.unrec(R, construct, "no from_numpy in the no-genotype branch")
        return
    ck, _ = kwargs_of(ctor[0])
    wantsrc = {"mat": "%s[self.trait_cols]" % A, "taxa": "%s[self.taxa_col]" % A, "taxa_grp": "%s[self.taxa_grp_col]" % A}
    for k, w in wantsrc.items():
        v = ck.get(k)
        v = nasg.get(v.id, v) if isinstance(v, ast.Name) else v
        txt = _strip(dump(v)) if v is not None else ""
        if w not in txt:
            rep.violate(R, construct + " [no genotype matrix]", "%s of the result comes from %s, not from the aggregated frame's %s (rows would not correspond)" % (k, txt[:60], w),
                        where(f, ctor[0]), w, txt[:60])
            good = False
    tr = ck.get("trait")
    tr = nasg.get(tr.id, tr) if isinstance(tr, ast.Name) else tr
    if tr is None or "self.trait_cols" not in _strip(dump(tr)):
        rep.violate(R, construct + " [no genotype matrix]", "trait labels are %s, not the trait columns" % (dump(tr) if tr is not None else None), where(f, ctor[0]))
        good = False
    if good:
        rep.ok(R, construct + " [no genotype matrix]", "matrix, taxa, groups from the same aggregated frame; traits = trait_cols")
    # genotype branch
    good = True
    c2 = construct + " [genotype matrix]"
    main = body[body.index(br[0]) + 1:]
    masg = {}
    for s in main:
        if isinstance(s, ast.Assign) and isinstance(s.targets[0], ast.Name):
            masg.setdefault(s.targets[0].id, []).append(s.value)
    fills = [k for k, v in masg.items() if len(v) == 1 and isinstance(v[0], ast.Call) and prog.dotted(f.module, v[0].func) == "numpy.full"]
    if len(fills) != 1:
        rep.unrec(R, c2, "result matrix is not one numpy.full(..., nan)")
        return
    M = fills[0]
    fc = masg[M][0]
    shape = fc.args[0] if fc.args else None
    fillv = _strip(dump(fc.args[1])) if len(fc.args) > 1 else ""
    if fillv not in ("numpy.nan", "numpy.NaN", "float('nan')", "math.nan"):
        rep.violate(R, c2, "unphenotyped taxa are filled with %s, not NaN (missing)" % fillv, where(f, fc), "numpy.nan", fillv)
        good = False
    if isinstance(shape, ast.Tuple) and len(shape.elts) == 2:
        r0 = _resolve(shape.elts[0], {k: [ast.Assign(targets=[ast.Name(id=k)], value=v[0])] for k, v in masg.items() if len(v) == 1})
        if _strip(dump(r0)) not in ("%s.ntaxa" % gt, "len(%s.taxa)" % gt):
            rep.violate(R, c2, "the result has %s rows, not one per taxon of the genotype matrix" % dump(r0), where(f, fc), "%s.ntaxa" % gt, dump(r0))
            good = False
    stores = [s for s in ast.walk(ast.Module(body=main, type_ignores=[])) if isinstance(s, ast.Assign) and isinstance(s.targets[0], ast.Subscript) and dump(s.targets[0].value) == M]
    if len(stores) != 1:
        rep.unrec(R, c2, "expected one store into the result matrix (%d)" % len(stores))
        return
    store = stores[0]
    loops = [s for s in main if isinstance(s, ast.For) and store in list(ast.walk(s))]
    src = store.value
    tix = store.targets[0].slice
    if not loops:
        # vectorised transfer: classify boolean-mask / isin pairing
        txt = _strip(dump(store))
        masks = [n.id for n in ast.walk(store) if isinstance(n, ast.Name) and n.id in masg and isinstance(masg[n.id][0], ast.Call)
                 and prog.dotted(f.module, masg[n.id][0].func) in ("numpy.isin", "numpy.in1d")]
        sentinel = None
        for n in ast.walk(ast.Module(body=main, type_ignores=[])):
            if isinstance(n, ast.Call) and isinstance(n.func, ast.Attribute) and n.func.attr == "get" and len(n.args) == 2 and isinstance(n.args[1], (ast.Constant, ast.UnaryOp)):
                try:
                    val = ast.literal_eval(n.args[1])
                except Exception:
                    val = None
                if isinstance(val, int) and not isinstance(val, bool):
                    sentinel = (n, val)
        src_ix = [x.id for x in ast.walk(store.value) if isinstance(x, ast.Name)]
        # binary search of the names in the (sorted) phenotyped names: the position found is where the name WOULD be inserted - it is the name's own row only if
        # the entry there equals the name, which has to be tested
        ss = [n for n in ast.walk(ast.Module(body=main, type_ignores=[])) if isinstance(n, ast.Call) and prog.dotted(f.module, n.func) == "numpy.searchsorted"]
        if ss:
            eq = [c for c in ast.walk(ast.Module(body=main, type_ignores=[])) if isinstance(c, ast.Compare) and len(c.ops) == 1 and isinstance(c.ops[0], (ast.Eq, ast.NotEq))
                  and any(isinstance(x, ast.Attribute) and x.attr == "taxa" for x in ast.walk(c))]
            if not eq:
                rep.violate(R, c2, "taxa are located by %s and the rows gathered with only a bounds test: for a taxon WITHOUT a phenotype record searchsorted returns the position of the "
                                   "next name in sort order, so it receives that taxon's mean instead of NaN" % dump(ss[0])[:60], where(f, store),
                            "keep a row only where the located name equals the taxon's name", dump(store)[:70])
                return
        if sentinel is not None and not any(isinstance(n, ast.Compare) and any(isinstance(c, (ast.Constant, ast.UnaryOp)) for c in [n.left] + n.comparators)
                                            and any(isinstance(x, ast.Name) and x.id in src_ix for x in ast.walk(n)) for n in ast.walk(ast.Module(body=main, type_ignores=[]))):
            rep.violate(R, c2, "taxa without a phenotype record are looked up with the default index %d and gathered unmasked: numpy reads %d as a valid row, so an "
                               "unphenotyped taxon receives another taxon's mean instead of NaN" % (sentinel[1], sentinel[1]), where(f, store),
                        "rows of absent taxa left NaN", dump(store)[:70])
        elif len(set(masks)) >= 2:
            rep.violate(R, c2, "rows are transferred between two membership masks (%s): a boolean mask pairs the k-th selected genotype row with the k-th selected "
                               "aggregate row, i.e. by POSITION in two differently ordered arrays (genotype order vs sorted group order), not by taxon name"
                        % ", ".join(sorted(set(masks))), where(f, store), "row i <- aggregate row looked up by the name of taxon i", dump(store)[:70])
        else:
            rep.unrec(R, c2, "vectorised transfer %s" % dump(store)[:70])
        return
    lp = loops[0]
    if not (isinstance(lp.iter, ast.Call) and dump(lp.iter.func) == "enumerate" and isinstance(lp.target, ast.Tuple) and len(lp.target.elts) == 2):
        rep.unrec(R, c2, "alignment loop is not `for i, taxon in enumerate(...)`")
        return
    i, taxon = [dump(e) for e in lp.target.elts]
    over = _strip(dump(lp.iter.args[0]))
    if over != "%s.taxa" % gt:
        rep.violate(R, c2, "the alignment loop runs over %s, not over the genotype matrix's taxa (the order the result must have)" % over, where(f, lp), "%s.taxa" % gt, over)
        good = False
    # target row index
    t0 = tix.elts[0] if isinstance(tix, ast.Tuple) else tix
    if _strip(dump(t0)) != i:
        rep.violate(R, c2, "the value is stored in row %s, not in row %s (position of the taxon in the genotype matrix)" % (dump(t0), i), where(f, store), i, dump(t0))
        good = False
    # source: AGG[ix, :] with ix = TABLE[taxon]
    if not (isinstance(src, ast.Subscript) and isinstance(src.value, ast.Name)):
        rep.unrec(R, c2, "source of the transfer %s" % dump(src)[:50])
        return
    S = src.value.id
    s0 = src.slice.elts[0] if isinstance(src.slice, ast.Tuple) else src.slice
    lasg = {}
    for s in ast.walk(lp):
        if isinstance(s, ast.Assign) and isinstance(s.targets[0], ast.Name):
            lasg[s.targets[0].id] = s.value
    look = lasg.get(s0.id) if isinstance(s0, ast.Name) else s0
    if isinstance(look, ast.Call) and isinstance(look.func, ast.Attribute) and look.func.attr == "get" and isinstance(look.func.value, ast.Name) and look.args \
            and _strip(dump(look.args[0])) == taxon and isinstance(s0, ast.Name):
        # TABLE.get(taxon, default): the skip test must recognise the default, or the default row is copied to every unphenotyped taxon
        dflt = look.args[1] if len(look.args) > 1 else next((k.value for k in look.keywords if k.arg == "default"), None)
        dval = None if dflt is None else (dflt.value if isinstance(dflt, ast.Constant) else (-dflt.operand.value if isinstance(dflt, ast.UnaryOp) and isinstance(dflt.op, ast.USub)
                                                                                            and isinstance(dflt.operand, ast.Constant) else "?"))
        guards_ = [g for g in lp.body if isinstance(g, ast.If) and any(isinstance(x, ast.Name) and x.id == s0.id for x in ast.walk(g.test))
                   and g.body and isinstance(g.body[-1], (ast.Continue,))]
        fires = False
        # the other layout of the same test: the transfer sits INSIDE `if ix is not None:` / `if ix != <default>:` / `if ix >= 0:`
        for g in lp.body:
            if isinstance(g, ast.If) and not g.orelse and any(x is store for b in g.body for x in ast.walk(b)) and isinstance(g.test, ast.Compare) and len(g.test.ops) == 1 \
                    and isinstance(g.test.left, ast.Name) and g.test.left.id == s0.id:
                r_ = g.test.comparators[0]
                rv = r_.value if isinstance(r_, ast.Constant) else (-r_.operand.value if isinstance(r_, ast.UnaryOp) and isinstance(r_.op, ast.USub) and isinstance(r_.operand, ast.Constant) else "?")
                op_ = g.test.ops[0]
                if (isinstance(op_, ast.IsNot) and rv is None and dval is None) or (isinstance(op_, ast.NotEq) and rv == dval and dval != "?") \
                        or (isinstance(op_, ast.GtE) and isinstance(dval, int) and isinstance(rv, int) and dval < rv) or (isinstance(op_, ast.Gt) and isinstance(dval, int) and isinstance(rv, int) and dval <= rv):
                    fires = True
        for g in guards_:
            t = g.test
            if isinstance(t, ast.Compare) and len(t.ops) == 1 and isinstance(t.left, ast.Name) and t.left.id == s0.id:
                r_ = t.comparators[0]
                rv = r_.value if isinstance(r_, ast.Constant) else (-r_.operand.value if isinstance(r_, ast.UnaryOp) and isinstance(r_.op, ast.USub) and isinstance(r_.operand, ast.Constant) else "?")
                if isinstance(t.ops[0], ast.Is) and rv is None and dval is None:
                    fires = True
                elif isinstance(t.ops[0], ast.Eq) and rv == dval and dval != "?":
                    fires = True
                elif isinstance(t.ops[0], ast.Lt) and isinstance(dval, int) and isinstance(rv, int) and dval < rv:
                    fires = True
                elif rv == "?" or dval == "?":
                    fires = None
        if fires is None or dval == "?":
            rep.unrec(R, c2, "missing-taxon sentinel %s / skip test not modelled" % (dump(dflt) if dflt is not None else "None"))
            return
        if not fires:
            rep.violate(R, c2, "a taxon absent from the phenotype table gets row index %s from %s.get(%s, %s) and no test skips that value: it receives row %s of the aggregate "
                        "(another taxon's mean) instead of being reported as missing" % (dval, look.func.value.id, taxon, dval, dval), where(f, look),
                        "skip the taxon (keep NaN) when the name is absent", dump(look))
            good = False
            return
        look = ast.Subscript(value=look.func.value, slice=look.args[0], ctx=ast.Load())
        has_skip = True
    if not (isinstance(look, ast.Subscript) and isinstance(look.value, ast.Name) and _strip(dump(look.slice)) == taxon):
        if isinstance(s0, ast.Name) and s0.id == i or _strip(dump(s0)) == i:
            rep.violate(R, c2, "aggregate row %s is copied to genotype row %s: positions in the sorted group-by result are taken for genotype positions" % (i, i), where(f, store),
                        "aggregate row looked up by taxon name", dump(src)[:50])
        else:
            rep.unrec(R, c2, "aggregate row index %s is not a lookup by the taxon's name" % dump(s0)[:40])
        return
    T = look.value.id
    tdef = masg.get(T, [None])[0]
    # TABLE = dict(zip(KEYS, range(len(KEYS))))
    okt = isinstance(tdef, ast.Call) and dump(tdef.func) == "dict" and len(tdef.args) == 1 and isinstance(tdef.args[0], ast.Call) and dump(tdef.args[0].func) == "zip" \
        and len(tdef.args[0].args) == 2
    enum_form = None
    if not okt and isinstance(tdef, ast.DictComp) and len(tdef.generators) == 1 and not tdef.generators[0].ifs:
        # {name: i for i, name in enumerate(KEYS)} is the same table
        g_ = tdef.generators[0]
        if isinstance(g_.iter, ast.Call) and dump(g_.iter.func) == "enumerate" and len(g_.iter.args) == 1 and not g_.iter.keywords and isinstance(g_.target, ast.Tuple) \
                and len(g_.target.elts) == 2 and all(isinstance(e, ast.Name) for e in g_.target.elts) and isinstance(tdef.key, ast.Name) and isinstance(tdef.value, ast.Name):
            i_, n_ = g_.target.elts[0].id, g_.target.elts[1].id
            if tdef.key.id == n_ and tdef.value.id == i_:
                enum_form = g_.iter.args[0]
            elif tdef.key.id == i_ and tdef.value.id == n_:
                rep.violate(R, c2, "the lookup table maps row positions to names (%s), not names to row positions" % dump(tdef)[:60], where(f, tdef))
                return
    if not okt and enum_form is None:
        rep.unrec(R, c2, "lookup table %s is not dict(zip(keys, range(len(keys))))" % T)
        return
    if enum_form is not None:
        keys = enum_form
        vals = ast.parse("range(len(%s))" % dump(keys), mode="eval").body
    else:
        keys, vals = tdef.args[0].args
    if _strip(dump(vals)) not in ("range(len(%s))" % dump(keys), "range(%s.shape[0])" % dump(keys), "numpy.arange(len(%s))" % dump(keys)):
        rep.violate(R, c2, "the lookup table maps names to %s, not to their row positions range(len(%s))" % (dump(vals), dump(keys)), where(f, tdef))
        good = False
    kd = masg.get(dump(keys), [None])[0]
    sd = masg.get(S, [None])[0]
    ktxt = _strip(dump(kd)) if kd is not None else ""
    stxt = _strip(dump(sd)) if sd is not None else ""
    if not ktxt.startswith("%s[self.taxa_col]" % A):
        rep.violate(R, c2, "the lookup table is keyed by %s, not by the aggregated frame's taxa column" % (ktxt[:50] or dump(keys)), where(f, tdef), "%s[self.taxa_col]" % A, ktxt[:50])
        good = False
    if not stxt.startswith("%s[self.trait_cols]" % A):
        rep.violate(R, c2, "values are copied from %s, not from the aggregated frame's trait columns (the frame the row positions refer to)" % (stxt[:50] or S), where(f, store),
                    "%s[self.trait_cols]" % A, stxt[:50])
        good = False
    # missing names: except KeyError -> continue / pass (keeps NaN)
    trys = [s for s in lp.body if isinstance(s, ast.Try)]
    if trys:
        h = trys[0].handlers
        if not (len(h) == 1 and h[0].type is not None and dump(h[0].type) == "KeyError" and all(isinstance(x, (ast.Continue, ast.Pass)) for x in h[0].body)):
            rep.violate(R, c2, "a taxon absent from the phenotype table is handled by %s, not left as NaN" % (dump(h[0].body[0])[:40] if h and h[0].body else "?"), where(f, trys[0]))
            good = False
    elif not any(isinstance(s, ast.If) for s in lp.body):
        rep.violate(R, c2, "a taxon absent from the phenotype table raises KeyError instead of being reported as missing", where(f, lp))
        good = False
    # labels of the result
    ctor = [v[0] for v in masg.values() if len(v) == 1 and isinstance(v[0], ast.Call) and dump(v[0].func).endswith(".from_numpy")]
    if len(ctor) != 1:
        rep.unrec(R, c2, "from_numpy not found")
        return
    ck, _ = kwargs_of(ctor[0])
    wantk = {"mat": M, "taxa": "%s.taxa" % gt, "taxa_grp": "%s.taxa_grp" % gt}
    for k, w in wantk.items():
        got = _strip(dump(ck[k])) if k in ck else None
        if got != w:
            rep.violate(R, c2, "the result's %s is %s, not %s" % (k, got, w), where(f, ctor[0]), w, str(got))
            good = False
    if "trait" not in ck or "self.trait_cols" not in _strip(dump(ck["trait"])):
        rep.violate(R, c2, "trait labels are not the trait columns", where(f, ctor[0]))
        good = False
    outn = [k for k, v in masg.items() if v and v[0] is ctor[0]]
    meta = {}
    for s in main:
        if isinstance(s, ast.Assign) and isinstance(s.targets[0], ast.Attribute) and outn and dump(s.targets[0].value) == outn[0]:
            meta[s.targets[0].attr] = _strip(dump(s.value))
    for a, v in sorted(meta.items()):
        if v != "%s.%s" % (gt, a):
            rep.violate(R, c2, "group metadata %s of the result is copied from %s" % (a, v), where(f), "%s.%s" % (gt, a), v)
            good = False
    if good:
        rep.ok(R, c2, "row i of %s.taxa <- %s[%s[taxon], :], table = names of %s[taxa_col] -> positions; KeyError keeps NaN; labels and %d group fields from %s"
               % (gt, S, T, A, len(meta), gt))
    rep.floor(R, 2)


# ------------------------------------------------------------------------------------------------ R5
def check_true(prog, rep):
    R = "R5-true"
    K = prog.get_class(*TP)
    f = prog.own_method(K, "phenotype")
    rep.saw(f)
    construct = f.qualname
    asg = _assigns(f.node)
    gv = [k for k, v in asg.items() if len(v) == 1 and _strip(dump(v[0].value)) in ("self.gpmod.gegv(pgmat)", "self._gpmod.gegv(pgmat)")]
    good = True
    if len(gv) != 1:
        rep.unrec(R, construct, "values are not one self.gpmod.gegv(pgmat)")
    else:
        gv = gv[0]
        frames = [s.value for v in asg.values() for s in v if isinstance(s.value, ast.Call) and prog.dotted(f.module, s.value.func) == "pandas.DataFrame"]
        data = None
        for fr in frames:
            kws, _ = kwargs_of(fr)
            if "data" in kws:
                data = _resolve(kws["data"], asg)
        if data is None or _strip(dump(data)) != "%s.unscale()" % gv:
            if data is not None and _strip(dump(data)) in ("%s.mat" % gv, "%s._mat" % gv):
                rep.violate(R, construct, "records hold the standardised matrix %s, not the true values %s.unscale()" % (dump(data), gv), where(f), "%s.unscale()" % gv, dump(data))
            else:
                rep.unrec(R, construct, "value frame data %s" % (dump(data) if data is not None else None))
            good = False
        lab = [s for s in walk_no_nested(f.node) if isinstance(s, ast.Assign) and isinstance(s.targets[0], ast.Subscript) and isinstance(s.targets[0].slice, ast.Constant)]
        cols = {s.targets[0].slice.value: _strip(dump(s.value)) for s in lab}
        for c in ("taxa", "taxa_grp"):
            if c not in cols or ("%s.%s" % (gv, c)) not in cols[c]:
                rep.violate(R, construct, "label column %r is %s, not %s.%s" % (c, cols.get(c), gv, c), where(f), "%s.%s" % (gv, c), str(cols.get(c)))
                good = False
        if good:
            rep.ok(R, construct, "one record per taxon: labels %s.taxa / taxa_grp, values %s.unscale()" % (gv, gv))
    for nm in ("set_h2", "set_H2"):
        g = prog.own_method(K, nm)
        b = body_nodoc(g.node)
        if len(b) == 1 and isinstance(b[0], ast.Raise):
            rep.ok(R, g.qualname, "heritability is fixed at 1: setting it raises")
        else:
            rep.unrec(R, g.qualname, "true phenotyping accepts a heritability")
    K = prog.get_class(*TB)
    f = prog.own_method(K, "estimate")
    rep.saw(f)
    rets = [s for s in walk_no_nested(f.node) if isinstance(s, ast.Return)]
    asg = _assigns(f.node)
    v = _resolve(rets[0].value, asg) if rets else None
    gt = f.params()[2]
    if v is not None and _strip(dump(v)) == "self.gpmod.gebv(%s)" % gt:
        rep.ok(R, f.qualname, "true breeding values = self.gpmod.gebv(%s) (taxa order of the genotype object)" % gt)
    elif v is not None and _strip(dump(v)).startswith("self.gpmod.") and _strip(dump(v)).endswith("(%s)" % gt):
        rep.violate(R, f.qualname, "true breeding values are computed by %s, not gebv" % dump(v), where(f), "self.gpmod.gebv(%s)" % gt, dump(v))
    else:
        rep.unrec(R, f.qualname, "returns %s" % (dump(v) if v is not None else None))
    rep.floor(R, 4)


def run(prog, rep, tier):
    rep.explanation = ('Path language over the replicate loop (one block per parallel record list on every path), role typing of the lists against the frame columns, value-numbered record value and heritability formulas, derived-state invalidation, and an index-space rule for the name-keyed alignment loop of the mean-phenotype estimator.')
    rep.not_decided = ['convergence of realised environment / replicate / error variances (distributional)', 'pandas group-by and concat semantics (trusted)', 'row-order invariance as a runtime fact (follows from group-by + lookup by name)']
    check_phenotype(prog, rep)
    check_fresh(prog, rep)
    check_heritability(prog, rep)
    from sa.report import second_reading
    fs = [f_ for m_ in prog.modules.values() if any(m_.name.startswith(p_) for p_ in ('pybrops.breed.prot.bv', 'pybrops.breed.prot.pt')) for f_ in list(m_.functions.values()) + [g_ for c_ in m_.classes.values() for g_ in c_.methods.values()]]
    second_reading(rep, fs, lambda r_: check_estimate(prog, r_))
    second_reading(rep, fs, lambda r_: check_true(prog, r_))
    wire(prog, rep, "C14", 0, 40)
