"""
C18  Haplotype-block values conserve genomic value and bound progeny

  R1-apportion  nhaploblk_chrom: requested < chromosomes raises; the allocation starts from ones(nchr) (every chromosome >= 1) and the loop
                performs exactly (requested - nchr) increments of ONE element by ONE; nothing else writes the allocation
                => sum == requested, each >= 1      "gives every chromosome at least one block and uses exactly the requested total"
                (obligations: start + trips == requested as polynomials; trips >= 0 derivable from the guard)
  R2-bins       haplobin: per chromosome the boundaries are linspace(first position, last position = genpos[stop-1], blocks+1); a marker is in
                block j when lower[j] <= pos <= upper[j+1] (BOTH closed: every marker, including the end markers and boundary ties, gets a
                label); the label store and the position slice use the same [start:stop]; the label counter starts at 0, advances once per
                block and is never reset (labels unique across chromosomes, non-decreasing along sorted positions)
                "assigns every marker to exactly one block, keeps blocks contiguous, ordered and within chromosomes"
  R3-bounds     haplobin_bounds is a run-length encoding: starts [0]; at every i in range(1, len) where label[i] differs from the running label
                it appends i to stops AND starts and updates the running label; last stop len   (contiguous, ordered, covering)
  R4-blocks     the four block-value builders: the pipeline nhaploblk_chrom -> haplobin -> haplobin_bounds is fed the same position / chromosome
                arrays; blocks > markers on a chromosome raises; value[:, :, j, t] = geno[:, :, st:sp] . effect[st:sp, t] with the SAME
                (st, sp), j from enumerate over the bounds, t the loop trait     "block values of a chromosome copy sum to that copy's total"
  R5-init       the (m, n, requested, t) array is allocated zero-filled: an empty equal-width bin yields fewer runs than requested blocks, so
                trailing blocks are never written      "finite for every valid input"
  R6-reduce     optimal haploid value chunks = ploidy * haplomat[:, parents(k,d), :, :].max(phases, parents).sum(blocks) (shared with C05-R6);
                optimal population value = -ploidy * haplomat[:, x, :, :].max(phases, individuals).sum(blocks); ploidy = number of phases;
                factories pass (pgmat, model, requested) / (ntaxa, nparent, unique_parents) / (ploidy, haplomat, xmap) positionally right
NOT decided: which equal-width bin a marker falls in (floating-point linspace), the doubled-haploid bound as a numerical fact (it follows from
R4 + R6: max over a superset, block-wise), conservation as arithmetic (follows from R3 covering + R4 same slice).
"""
import ast

from sa.astutil import dump, where, kwargs_of, walk_no_nested, canon_text
from sa.model import body_nodoc
from sa.vn import VN, Poly, VNUnknown, comparable
from rules import c05
from sa.report import RuleProxy

HAPLO = "pybrops.core.util.haplo"
PROB = "pybrops.breed.prot.sel.prob."
BUILDERS = [
    (HAPLO, None, "haplomat"),
    (PROB + "OptimalHaploidValueSelectionProblem", "OptimalHaploidValueSelectionProblemMixin", "_calc_haplomat"),
    (PROB + "OptimalPopulationValueSelectionProblem", "OptimalPopulationValueSelectionProblemMixin", "_calc_haplomat"),
    (PROB + "GenotypeBuilderSelectionProblem", "GenotypeBuilderSelectionProblemMixin", "_calc_haplomat"),
]
ZERO_FILL = {"numpy.zeros": None, "numpy.full": "fill"}


def _assigns(f):
    out = {}
    for st in walk_no_nested(f.node):
        if isinstance(st, ast.Assign) and len(st.targets) == 1 and isinstance(st.targets[0], ast.Name):
            out.setdefault(st.targets[0].id, []).append(st)
    return out


def _strip(s):
    return "".join(s.split())


# ------------------------------------------------------------------------------------------------ R1
def check_apportion(prog, rep):
    R = "R1-apportion"
    f = prog.func(HAPLO, "nhaploblk_chrom")
    rep.saw(f)
    construct = f.qualname
    ps = f.params()
    if len(ps) != 4:
        rep.unrec(R, construct, "signature changed: %s" % ps)
        return
    N, genpos, stix, spix = ps
    body = body_nodoc(f.node)
    asg = _assigns(f)
    nchr = [k for k, v in asg.items() if len(v) == 1 and _strip(dump(v[0].value)) in ("len(%s)" % stix, "len(%s)" % spix, "%s.shape[0]" % stix)]
    loops = [s for s in body if isinstance(s, ast.For)]
    rets = [s for s in body if isinstance(s, ast.Return)]
    if len(nchr) != 1 or len(loops) != 1 or len(rets) != 1 or not isinstance(rets[0].value, ast.Name):
        rep.unrec(R, construct, "not the (count chromosomes, start vector, one increment loop, return vector) shape")
        return
    nchr = nchr[0]
    X = rets[0].value.id
    loop = loops[0]
    good = True
    # guard
    guard = [s for s in body[:body.index(loop)] if isinstance(s, ast.If) and any(isinstance(b, ast.Raise) for b in s.body)
             and _strip(dump(s.test)) in ("%s<%s" % (N, nchr), "%s>%s" % (nchr, N))]
    # start
    starts = [s for s in asg.get(X, []) if s in body and body.index(s) < body.index(loop)]
    others = [s for s in asg.get(X, []) if s not in starts]
    if len(starts) != 1 or others:
        rep.unrec(R, construct, "allocation vector %s is not assigned exactly once before the loop" % X)
        return
    sv = starts[0].value
    start_is_ones = isinstance(sv, ast.Call) and prog.dotted(f.module, sv.func) == "numpy.ones" and sv.args and _strip(dump(sv.args[0])) in (nchr, "(%s,)" % nchr)
    start_ge1 = start_is_ones or (isinstance(sv, ast.Call) and prog.dotted(f.module, sv.func) == "numpy.maximum" and len(sv.args) == 2
                                  and any(isinstance(a, ast.Constant) and a.value == 1 for a in sv.args))
    if start_is_ones:
        kws, _ = kwargs_of(sv)
        dt = kws.get("dtype")
        if dt is None or _strip(dump(dt)).strip("'\"") not in ("int", "numpy.int64", "numpy.int_", "numpy.int32"):
            rep.violate(R, construct, "the allocation vector is not an integer array (dtype %s): block counts are used as range() bounds" % (dump(dt) if dt else "float default"),
                        where(f, sv))
            good = False
    # loop: for _ in range(T)
    it = loop.iter
    if not (isinstance(it, ast.Call) and dump(it.func) == "range" and len(it.args) == 1):
        rep.unrec(R, construct, "increment loop is not `for _ in range(T)`")
        return
    # stores to X inside the loop
    stores = []
    for st in ast.walk(loop):
        if isinstance(st, ast.AugAssign) and isinstance(st.target, ast.Subscript) and dump(st.target.value) == X:
            stores.append(st)
        elif isinstance(st, ast.AugAssign) and dump(st.target) == X:
            stores.append(st)
        elif isinstance(st, ast.Assign) and any(dump(t) == X or (isinstance(t, ast.Subscript) and dump(t.value) == X) for t in st.targets):
            stores.append(st)
    nested = [s for s in ast.walk(loop) if isinstance(s, (ast.For, ast.While)) and s is not loop]
    if len(stores) != 1 or nested or not isinstance(stores[0], ast.AugAssign) or not isinstance(stores[0].target, ast.Subscript) or stores[0] not in loop.body:
        rep.unrec(R, construct, "loop body does not contain exactly one unconditional `%s[ix] += c`" % X)
        return
    inc = stores[0]
    unit = isinstance(inc.op, ast.Add) and isinstance(inc.value, ast.Constant) and inc.value.value == 1
    if not unit:
        rep.violate(R, construct, "an iteration changes the allocation by `%s %s`, not by one block" % (type(inc.op).__name__, dump(inc.value)), where(f, inc), "+= 1", dump(inc)[:40])
        good = False
    ixn = inc.target.slice
    scalar = False
    if isinstance(ixn, ast.Name):
        d = [s for s in loop.body if isinstance(s, ast.Assign) and dump(s.targets[0]) == ixn.id]
        if len(d) == 1 and isinstance(d[0].value, ast.Call) and (dump(d[0].value.func).endswith((".argmin", ".argmax"))):
            scalar = True
    elif isinstance(ixn, ast.Call) and dump(ixn.func).endswith((".argmin", ".argmax")):
        scalar = True
    if not scalar:
        rep.unrec(R, construct, "incremented position %s is not a single arg-extremum index" % dump(ixn))
        return
    # obligations on the count
    vn = VN(prog, f)
    try:
        T = vn.expr(it.args[0])
    except VNUnknown as ex:
        rep.unrec(R, construct, "trip count: %s" % ex)
        return
    Np, Cp = Poly.atom(("var", N)), Poly.atom(("var", nchr))
    if start_is_ones:
        S0 = Cp
    else:
        S0 = Poly.atom(("red", "sum", VN(prog, f).expr(ast.Name(id=X, ctx=ast.Load())).key(), None))
        T = VN(prog, f).expr(it.args[0])
    total = S0 + T
    if not start_ge1:
        rep.violate(R, construct, "the allocation starts from %s: a chromosome can be left with no block" % dump(sv)[:60], where(f, sv), "numpy.ones(nchr)", dump(sv)[:60])
        good = False
    if total != Np:
        if start_is_ones:
            rep.violate(R, construct, "start (%s) + increments (%s) = %s, not the requested total %s" % (nchr, T.show(), total.show(), N), where(f, loop),
                        "range(%s - %s)" % (N, nchr), dump(it)[:50])
            good = False
        else:
            rep.violate(R, construct, "start sum + increments = %s is not the requested total" % total.show()[:80], where(f, loop))
            good = False
    else:
        # trips >= 0 ?
        if T == Np - Cp and guard:
            pass
        elif T == Np - Cp:
            rep.violate(R, construct, "no guard rejects requested < number of chromosomes before the loop: range() of a negative count runs zero times and the "
                                      "total stays at the number of chromosomes", where(f, loop))
            good = False
        else:
            rep.violate(R, construct, "trip count %s can be negative (nothing bounds the start allocation %s by the request): range() then runs zero times "
                                      "and more blocks than requested are handed out" % (T.show()[:60], dump(sv)[:50]), where(f, loop),
                        "start = ones(nchr); range(%s - %s)" % (N, nchr), "range(%s)" % dump(it.args[0])[:50])
            good = False
    # chromosome span (exclusive stop)
    span = [s for s in body if isinstance(s, ast.Assign) and "%s-1" % spix in _strip(dump(s.value)) and stix in dump(s.value)]
    bad_span = [s for s in body if isinstance(s, ast.Assign) and ("%s[%s]" % (genpos, spix)) in _strip(dump(s.value))]
    if bad_span:
        rep.violate(R, construct, "chromosome length read at genpos[stop index]: the stop index is exclusive (last marker is stop-1)", where(f, bad_span[0]))
        good = False
    if good:
        rep.ok(R, construct, "guard %s < %s raises; start ones(%s); %s unit increments of one arg-extremum element; total = %s" % (N, nchr, nchr, T.show(), N))
    rep.floor(R, 1)


# ------------------------------------------------------------------------------------------------ R2
def check_bins(prog, rep):
    R = "R2-bins"
    f = prog.func(HAPLO, "haplobin")
    rep.saw(f)
    construct = f.qualname
    ps = f.params()
    if len(ps) != 4:
        rep.unrec(R, construct, "signature changed: %s" % ps)
        return
    nblk, genpos, stixs, spixs = ps
    body = body_nodoc(f.node)
    outer = [s for s in body if isinstance(s, ast.For)]
    rets = [s for s in body if isinstance(s, ast.Return)]
    if len(outer) != 1 or len(rets) != 1 or not isinstance(rets[0].value, ast.Name):
        rep.unrec(R, construct, "not (allocate, one chromosome loop, return labels)")
        return
    outer = outer[0]
    H = rets[0].value.id
    inner = [s for s in outer.body if isinstance(s, ast.For)]
    if len(inner) != 1:
        rep.unrec(R, construct, "expected one block loop inside the chromosome loop")
        return
    inner = inner[0]
    good = True
    asg = _assigns(f)
    # allocation
    alloc = [s for s in asg.get(H, []) if s in body]
    if len(alloc) != 1 or not isinstance(alloc[0].value, ast.Call) or not alloc[0].value.args or _strip(dump(alloc[0].value.args[0])) not in ("len(%s)" % genpos, "%s.shape[0]" % genpos, "%s.shape" % genpos):
        rep.unrec(R, construct, "label array is not allocated with one entry per marker")
        return
    # loop variables
    if not (isinstance(outer.iter, ast.Call) and dump(outer.iter.func) == "range" and len(outer.iter.args) == 1 and isinstance(outer.target, ast.Name)):
        rep.unrec(R, construct, "chromosome loop is not `for i in range(nchr)`")
        return
    i = outer.target.id
    nchr_e = outer.iter.args[0]
    nchr_def = asg.get(dump(nchr_e), [None])[0] if isinstance(nchr_e, ast.Name) else None
    nchr_txt = _strip(dump(nchr_def.value)) if nchr_def is not None else _strip(dump(nchr_e))
    if nchr_txt not in ("len(%s)" % stixs, "len(%s)" % spixs, "len(%s)" % nblk):
        rep.violate(R, construct, "chromosome loop runs over %s, not over the chromosomes" % nchr_txt, where(f, outer))
        good = False

    def local(name_expected_src):
        """name of the variable assigned `<src>[i]` in the chromosome loop (or the expression text itself)"""
        for s in outer.body:
            if isinstance(s, ast.Assign) and isinstance(s.targets[0], ast.Name) and _strip(dump(s.value)) == "%s[%s]" % (name_expected_src, i):
                return s.targets[0].id
        return "%s[%s]" % (name_expected_src, i)
    st, sp, nh = local(stixs), local(spixs), local(nblk)
    # boundaries
    hb = [s for s in outer.body if isinstance(s, ast.Assign) and isinstance(s.value, ast.Call) and prog.dotted(f.module, s.value.func) == "numpy.linspace"]
    if len(hb) != 1 or len(hb[0].value.args) < 3:
        rep.unrec(R, construct, "block boundaries are not one numpy.linspace(first, last, blocks+1)")
        return
    B = hb[0].targets[0].id
    a0, a1, a2 = [_strip(dump(a)) for a in hb[0].value.args[:3]]
    kws, _ = kwargs_of(hb[0].value)
    if a0 != "%s[%s]" % (genpos, st):
        rep.violate(R, construct, "lowest boundary is %s, not the chromosome's first position %s[%s]: markers before it get no label" % (a0, genpos, st), where(f, hb[0]))
        good = False
    if a1 != "%s[%s-1]" % (genpos, sp):
        rep.violate(R, construct, "highest boundary is %s, not the chromosome's last position %s[%s-1]" % (a1, genpos, sp), where(f, hb[0]))
        good = False
    if a2 not in ("%s+1" % nh, "1+%s" % nh):
        rep.violate(R, construct, "%s boundaries for %s blocks (needs blocks+1)" % (a2, nh), where(f, hb[0]), "%s+1" % nh, a2)
        good = False
    if "endpoint" in kws and not (isinstance(kws["endpoint"], ast.Constant) and kws["endpoint"].value is True):
        rep.violate(R, construct, "linspace without its endpoint: the last markers lie beyond the highest boundary", where(f, hb[0]))
        good = False
    # inner loop
    if not (isinstance(inner.iter, ast.Call) and dump(inner.iter.func) == "range" and isinstance(inner.target, ast.Name)):
        rep.unrec(R, construct, "block loop %s is not a counting loop over the chromosome's blocks" % dump(inner.iter)[:40])
        return
    if not (len(inner.iter.args) == 1 and _strip(dump(inner.iter.args[0])) == nh):
        rep.violate(R, construct, "block loop is %s, not range(%s)" % (dump(inner.iter)[:40], nh), where(f, inner))
        good = False
        j = inner.target.id
    else:
        j = inner.target.id
    # masks: resolve names inside the inner loop
    idefs = {}
    for s in inner.body:
        if isinstance(s, ast.Assign) and isinstance(s.targets[0], ast.Name):
            idefs[s.targets[0].id] = s.value
    for s in outer.body:
        if isinstance(s, ast.Assign) and isinstance(s.targets[0], ast.Name) and s.targets[0].id not in idefs:
            idefs.setdefault(s.targets[0].id, s.value)

    def inline(e, depth=0):
        if isinstance(e, ast.Name) and e.id in idefs and depth < 6 and e.id not in (st, sp, nh, B):
            return inline(idefs[e.id], depth + 1)
        return e
    # a store through a local view of the output (`v = H[a:b]` bound once in either loop body, then `v[mask] = k`) is a store through H[a:b][mask]
    nbind = {}
    for s in ast.walk(outer):
        if isinstance(s, (ast.Assign, ast.AugAssign, ast.For)):
            for t_ in (s.targets if isinstance(s, ast.Assign) else [s.target]):
                for n_ in ast.walk(t_):
                    if isinstance(n_, ast.Name) and isinstance(n_.ctx, ast.Store):
                        nbind[n_.id] = nbind.get(n_.id, 0) + 1
    for s in inner.body:
        if (isinstance(s, ast.Assign) and isinstance(s.targets[0], ast.Subscript) and isinstance(s.targets[0].value, ast.Name) and s.targets[0].value.id != H
                and nbind.get(s.targets[0].value.id) == 1 and isinstance(idefs.get(s.targets[0].value.id), ast.Subscript) and dump(idefs[s.targets[0].value.id]).startswith(H + "[")):
            s.targets[0] = ast.copy_location(ast.Subscript(value=idefs[s.targets[0].value.id], slice=s.targets[0].slice, ctx=ast.Store()), s.targets[0])
    store = [s for s in inner.body if isinstance(s, ast.Assign) and isinstance(s.targets[0], ast.Subscript)
             and dump(s.targets[0]).startswith(H)]
    if len(store) != 1:
        rep.unrec(R, construct, "expected one label store in the block loop")
        return
    tgt = store[0].targets[0]
    # H[st:sp][mask] = k
    if not (isinstance(tgt.value, ast.Subscript) and _strip(dump(tgt.value)) == "%s[%s:%s]" % (H, st, sp)):
        rep.violate(R, construct, "labels are stored through %s, not through the chromosome view %s[%s:%s]" % (dump(tgt)[:40], H, st, sp), where(f, store[0]))
        good = False
    mask = inline(tgt.slice)
    comps = []
    if isinstance(mask, ast.BinOp) and isinstance(mask.op, ast.BitAnd):
        comps = [inline(mask.left), inline(mask.right)]
    elif isinstance(mask, ast.Call) and prog.dotted(f.module, mask.func) == "numpy.logical_and" and len(mask.args) == 2:
        comps = [inline(mask.args[0]), inline(mask.args[1])]
    if len(comps) != 2 or not all(isinstance(c, ast.Compare) and len(c.ops) == 1 for c in comps):
        rep.unrec(R, construct, "block membership is not `(pos >= lower) & (pos <= upper)`")
        return
    lower = upper = None
    for c in comps:
        l, r = inline(c.left), inline(c.comparators[0])
        lt, rt = _strip(dump(l)), _strip(dump(r))
        op = type(c.ops[0]).__name__
        if rt.startswith(B + "["):
            pos, bnd = lt, rt
        elif lt.startswith(B + "["):
            pos, bnd = rt, lt
            op = {"Gt": "Lt", "GtE": "LtE", "Lt": "Gt", "LtE": "GtE"}.get(op, op)
        else:
            rep.unrec(R, construct, "comparison %s does not involve a block boundary" % dump(c))
            return
        if pos != "%s[%s:%s]" % (genpos, st, sp):
            rep.violate(R, construct, "membership compares %s, not the chromosome's positions %s[%s:%s] (the slice the labels are stored through)" % (pos, genpos, st, sp),
                        where(f, c))
            good = False
        if bnd == "%s[%s]" % (B, j) and op in ("Gt", "GtE"):
            lower = op
        elif bnd in ("%s[%s+1]" % (B, j), "%s[1+%s]" % (B, j)) and op in ("Lt", "LtE"):
            upper = op
        else:
            rep.violate(R, construct, "membership test `pos %s %s` is not lower[%s] <= pos / pos <= upper[%s+1]" % (op, bnd, j, j), where(f, c))
            good = False
    if lower is not None and upper is not None:
        if lower != "GtE":
            rep.violate(R, construct, "lower boundary is open (pos > lower): the chromosome's first marker, which lies exactly on the lowest boundary, is never labelled "
                                      "(labels come from an uninitialised array)", where(f, store[0]), "pos >= lower", "pos > lower")
            good = False
        if upper != "LtE":
            rep.violate(R, construct, "upper boundary is open (pos < upper): the chromosome's last marker, which lies exactly on the highest boundary, is never labelled "
                                      "(labels come from an uninitialised array)", where(f, store[0]), "pos <= upper", "pos < upper")
            good = False
    elif good:
        rep.unrec(R, construct, "both a lower and an upper membership test are needed")
        return
    # label counter
    k = store[0].value
    if not isinstance(k, ast.Name):
        rep.unrec(R, construct, "stored label is not a counter variable")
        return
    k = k.id
    kinit = [s for s in asg.get(k, []) if s in body and body.index(s) < body.index(outer)]
    kother = [s for s in asg.get(k, []) if s not in kinit]
    incs = [s for s in ast.walk(outer) if isinstance(s, ast.AugAssign) and dump(s.target) == k]
    if len(kinit) != 1 or kother:
        rep.violate(R, construct, "the label counter %s is (re)assigned inside the loops: labels repeat across chromosomes, so a block can span two chromosomes" % k,
                    where(f, (kother or [outer])[0]))
        good = False
    if len(incs) != 1 or incs[0] not in inner.body or not (isinstance(incs[0].op, ast.Add) and isinstance(incs[0].value, ast.Constant) and incs[0].value.value == 1):
        rep.violate(R, construct, "the label counter does not advance by exactly one per block (unconditionally, in the block loop)", where(f, (incs or [inner])[0]))
        good = False
    elif inner.body.index(incs[0]) < inner.body.index(store[0]):
        if not (len(kinit) == 1 and isinstance(kinit[0].value, ast.Constant)):
            pass
    if good:
        rep.ok(R, construct, "boundaries linspace(%s[%s], %s[%s-1], %s+1); closed membership on both sides over %s[%s:%s], stored through %s[%s:%s]; counter %s += 1 per block, never reset"
               % (genpos, st, genpos, sp, nh, genpos, st, sp, H, st, sp, k))
    rep.floor(R, 1)



def _check_bounds_vectorised(prog, rep, f, L, body):
    """loop-free haplobin_bounds: break positions = flatnonzero(<labels change>) + 1.  Decides the change test only: a block starts wherever two neighbouring
    labels DIFFER (an empty equal-width bin makes the labels skip a value); a test for an increment of exactly one fuses the two bins around an empty one.
    Returns True when a verdict (violation) was given; the assembly of starts / stops from the breaks in this form is left undecided."""
    R = "R3-bounds"
    defs = {}
    for st in body:
        if isinstance(st, ast.Assign) and len(st.targets) == 1 and isinstance(st.targets[0], ast.Name):
            defs.setdefault(st.targets[0].id, []).append(st.value)

    def res(e):
        return defs[e.id][0] if isinstance(e, ast.Name) and len(defs.get(e.id, [])) == 1 and e.id != L else e

    def is_labels(e):
        e = res(e)
        if isinstance(e, ast.Call) and prog.dotted(f.module, e.func) in ("numpy.asarray", "numpy.array", "numpy.asanyarray") and e.args:
            e = e.args[0]
        return isinstance(e, ast.Name) and e.id == L
    for nm, vs in defs.items():
        for v in vs:
            # <nonzero positions>(cond) + 1
            if not (isinstance(v, ast.BinOp) and isinstance(v.op, ast.Add) and isinstance(v.right, ast.Constant) and v.right.value == 1):
                continue
            c = v.left
            if isinstance(c, ast.Subscript) and isinstance(c.slice, ast.Constant) and c.slice.value == 0:
                c = c.value
            if not (isinstance(c, ast.Call) and prog.dotted(f.module, c.func) in ("numpy.flatnonzero", "numpy.nonzero", "numpy.where", "numpy.argwhere") and len(c.args) == 1):
                continue
            cond = res(c.args[0])
            if not (isinstance(cond, ast.Compare) and len(cond.ops) == 1):
                continue
            l_, r_ = res(cond.left), res(cond.comparators[0])
            op = cond.ops[0]
            is_diff = isinstance(l_, ast.Call) and prog.dotted(f.module, l_.func) in ("numpy.diff", "numpy.ediff1d") and l_.args and is_labels(l_.args[0])
            if is_diff and isinstance(r_, ast.Constant) and isinstance(r_.value, (int, float)):
                if isinstance(op, ast.Eq) and r_.value != 0:
                    rep.violate(R, f.qualname, "a block boundary is placed only where the label increases by exactly %r (%s): when an equal-width bin holds no marker the labels skip a "
                                "value, and the two bins around the empty one are fused into one block" % (r_.value, dump(cond)), where(f, cond), "numpy.diff(%s) != 0" % L, dump(cond))
                    return True
                if isinstance(op, ast.Eq) and r_.value == 0:
                    rep.violate(R, f.qualname, "block boundaries are placed where neighbouring labels are EQUAL (%s)" % dump(cond), where(f, cond), "numpy.diff(%s) != 0" % L, dump(cond))
                    return True
            return False
    return False

# ------------------------------------------------------------------------------------------------ R3
def check_bounds(prog, rep):
    R = "R3-bounds"
    f = prog.func(HAPLO, "haplobin_bounds")
    rep.saw(f)
    construct = f.qualname
    ps = f.params()
    body = body_nodoc(f.node)
    loops = [s for s in body if isinstance(s, ast.For)]
    rets = [s for s in body if isinstance(s, ast.Return)]
    if len(ps) == 1 and not loops and _check_bounds_vectorised(prog, rep, f, ps[0], body):
        return
    if len(ps) != 1 or len(loops) != 1 or len(rets) != 1 or not isinstance(rets[0].value, ast.Tuple) or len(rets[0].value.elts) != 3:
        rep.unrec(R, construct, "not (labels) -> (starts, stops, lengths) with one scan loop")
        return
    L = ps[0]
    loop = loops[0]
    S, E, LEN = [dump(e) for e in rets[0].value.elts]
    good = True
    pre = body[:body.index(loop)]
    post = body[body.index(loop) + 1:]
    lists = {dump(s.targets[0]): s.value for s in pre if isinstance(s, ast.Assign) and isinstance(s.value, ast.List)}
    if S not in lists or E not in lists:
        rep.unrec(R, construct, "starts / stops are not list literals before the scan")
        return
    if [dump(x) for x in lists[S].elts] != ["0"]:
        rep.violate(R, construct, "starts begin with %s, not [0]: the first run does not start at the first marker" % dump(lists[S]), where(f))
        good = False
    if lists[E].elts:
        rep.violate(R, construct, "stops begin with %s, not empty" % dump(lists[E]), where(f))
        good = False
    # running label
    prev = [s for s in pre if isinstance(s, ast.Assign) and _strip(dump(s.value)) == "%s[0]" % L]
    if len(prev) != 1:
        rep.unrec(R, construct, "running label is not initialised to labels[0]")
        return
    P = dump(prev[0].targets[0])
    it = loop.iter
    if not (isinstance(it, ast.Call) and dump(it.func) == "range" and [_strip(dump(a)) for a in it.args] == ["1", "len(%s)" % L] and isinstance(loop.target, ast.Name)):
        rep.violate(R, construct, "scan is %s, not range(1, len(labels)): a boundary position is skipped or index 0 is compared with itself" % dump(it)[:50], where(f, loop),
                    "range(1, len(%s))" % L, dump(it)[:50])
        good = False
        i = loop.target.id if isinstance(loop.target, ast.Name) else "i"
    else:
        i = loop.target.id
    if len(loop.body) != 1 or not isinstance(loop.body[0], ast.If) or loop.body[0].orelse:
        rep.unrec(R, construct, "scan body is not a single `if label differs:`")
        return
    test = loop.body[0].test
    tt = _strip(dump(test))
    if tt not in ("%s[%s]!=%s" % (L, i, P), "%s!=%s[%s]" % (P, L, i)):
        if isinstance(test, ast.Compare) and {_strip(dump(test.left)), _strip(dump(test.comparators[0]))} == {"%s[%s]" % (L, i), P}:
            rep.violate(R, construct, "a boundary is placed where labels compare %s, not where they differ" % type(test.ops[0]).__name__, where(f, test), "!=", type(test.ops[0]).__name__)
            good = False
        else:
            rep.unrec(R, construct, "boundary test %s" % dump(test)[:50])
            return
    acts = loop.body[0].body
    app = {}
    upd = None
    for s in acts:
        if isinstance(s, ast.Expr) and isinstance(s.value, ast.Call) and isinstance(s.value.func, ast.Attribute) and s.value.func.attr == "append" and len(s.value.args) == 1:
            app.setdefault(dump(s.value.func.value), []).append(_strip(dump(s.value.args[0])))
        elif isinstance(s, ast.Assign) and dump(s.targets[0]) == P:
            upd = _strip(dump(s.value))
        elif isinstance(s, ast.Pass):
            continue
        else:
            rep.unrec(R, construct, "boundary action %s" % dump(s)[:50])
            return
    if app.get(E) != [i]:
        rep.violate(R, construct, "at a boundary the stop list receives %s, not the boundary index %s" % (app.get(E), i), where(f, loop))
        good = False
    if app.get(S) != [i]:
        rep.violate(R, construct, "at a boundary the start list receives %s, not the boundary index %s: runs are not contiguous" % (app.get(S), i), where(f, loop))
        good = False
    if upd != "%s[%s]" % (L, i):
        rep.violate(R, construct, "the running label is %s after a boundary, not labels[%s]" % (upd or "not updated", i), where(f, loop))
        good = False
    last = [s for s in post if isinstance(s, ast.Expr) and isinstance(s.value, ast.Call) and isinstance(s.value.func, ast.Attribute) and s.value.func.attr == "append"
            and dump(s.value.func.value) == E]
    if len(last) != 1 or _strip(dump(last[0].value.args[0])) not in ("len(%s)" % L, "%s.shape[0]" % L):
        rep.violate(R, construct, "the last stop is not len(labels): the final run is dropped or cut short", where(f))
        good = False
    ldef = [s for s in post if isinstance(s, ast.Assign) and dump(s.targets[0]) == LEN]
    lval = _strip(dump(ldef[0].value)) if len(ldef) == 1 else (_strip(LEN) if not ldef and not LEN.isidentifier() else None)
    # the arrays returned as starts / stops may be conversions of the lists (numpy.int_(list)): follow one step
    conv = {dump(s.targets[0]): s for s in post if isinstance(s, ast.Assign)}
    if lval is None:
        rep.unrec(R, construct, "lengths %s not computed after the scan" % LEN)
        good = False
    elif lval != "%s-%s" % (E, S):
        rep.violate(R, construct, "lengths are %s, not stops - starts" % lval, where(f), "%s-%s" % (E, S), lval)
        good = False
    if good:
        rep.ok(R, construct, "run-length encoding: starts [0]+boundaries, stops boundaries+[len], boundary iff labels[i] != running label, lengths stops-starts")
    rep.floor(R, 1)


# ------------------------------------------------------------------------------------------------ R4 / R5
def check_builders(prog, rep):
    n = 0
    for mod, cls, name in BUILDERS:
        if cls is None:
            f = prog.func(mod, name)
        else:
            f = prog.own_method(prog.get_class(cls, mod), name)
        rep.saw(f)
        n += 1
        _check_builder(prog, rep, f)
    rep.floor("R4-blocks", 4)
    rep.floor("R5-init", 4)


def _call_of(prog, f, st, fname):
    v = st.value
    if isinstance(v, ast.Call) and isinstance(v.func, ast.Name) and v.func.id == fname:
        t = prog.resolve_name(f.module, fname)
        if getattr(t, "name", None) == fname and getattr(getattr(t, "module", None), "name", None) == HAPLO:
            return v
    return None


def _check_builder(prog, rep, f):
    R = "R4-blocks"
    construct = f.qualname
    body = body_nodoc(f.node)
    asg = _assigns(f)
    good = True
    calls = {}
    for st in body:
        if isinstance(st, ast.Assign):
            for fn in ("nhaploblk_chrom", "haplobin", "haplobin_bounds"):
                c = _call_of(prog, f, st, fn)
                if c is not None:
                    calls[fn] = (st, c)
    if set(calls) != {"nhaploblk_chrom", "haplobin", "haplobin_bounds"}:
        rep.unrec(R, construct, "pipeline nhaploblk_chrom -> haplobin -> haplobin_bounds not found (%s)" % sorted(calls))
        return
    st1, c1 = calls["nhaploblk_chrom"]
    st2, c2 = calls["haplobin"]
    st3, c3 = calls["haplobin_bounds"]
    if len(c1.args) != 4 or len(c2.args) != 4 or len(c3.args) != 1:
        rep.unrec(R, construct, "pipeline calls are not positional (4, 4, 1)")
        return
    nblk = dump(st1.targets[0])
    hbin = dump(st2.targets[0])
    a1 = [dump(a) for a in c1.args]
    a2 = [dump(a) for a in c2.args]
    N = a1[0]
    if a2[0] != nblk:
        rep.violate(R, construct, "haplobin receives %s, not the per-chromosome allocation %s" % (a2[0], nblk), where(f, c2))
        good = False
    if a1[1:] != a2[1:]:
        rep.violate(R, construct, "allocation and binning are given different position / chromosome arrays: %s vs %s" % (a1[1:], a2[1:]), where(f, c2))
        good = False
    if dump(c3.args[0]) != hbin:
        rep.violate(R, construct, "bounds are computed from %s, not from the labels %s" % (dump(c3.args[0]), hbin), where(f, c3))
        good = False
    genpos, stix, spix = a1[1:]
    # provenance of the arrays when they are locals read from the genotype matrix
    PROV = {genpos: "vrnt_genpos", stix: "vrnt_chrgrp_stix", spix: "vrnt_chrgrp_spix"}
    for var, attr in PROV.items():
        d = asg.get(var)
        if d and isinstance(d[0].value, ast.Attribute):
            if d[0].value.attr != attr:
                rep.violate(R, construct, "%s position %d of the pipeline is read from .%s, not .%s" % (var, a1.index(var), d[0].value.attr, attr), where(f, d[0]))
                good = False
    # blocks <= markers guard
    guards = [s for s in body if isinstance(s, ast.If) and any(isinstance(b, ast.Raise) for b in s.body) and nblk in dump(s.test)]
    if not guards:
        rep.violate(R, construct, "no guard rejects a chromosome that is assigned more blocks than it has markers", where(f, st1))
        good = False
    else:
        t = _strip(dump(guards[0].test))
        m = [v for v in list(asg) + f.params() if t in ("numpy.any(%s>%s)" % (nblk, v), "numpy.any(%s<%s)" % (v, nblk), "(%s>%s).any()" % (nblk, v))]
        if not m:
            rep.unrec(R, construct, "guard %s" % t[:60])
            good = False
        else:
            d = asg[m[0]][0].value if asg.get(m[0]) else None
            if d is None and m[0] in f.params() and "len" not in m[0]:
                rep.unrec(R, construct, "guard compares with parameter %s" % m[0])
                good = False
            if d is not None and isinstance(d, ast.Attribute) and d.attr != "vrnt_chrgrp_len":
                rep.violate(R, construct, "the blocks-per-chromosome guard compares with .%s, not the chromosome marker counts" % d.attr, where(f, guards[0]))
                good = False
    # unpack bounds
    if not (isinstance(st3.targets[0], ast.Tuple) and len(st3.targets[0].elts) == 3):
        rep.unrec(R, construct, "bounds not unpacked into (starts, stops, lengths)")
        return
    hst, hsp, _ = [dump(e) for e in st3.targets[0].elts]
    # shape and allocation
    loops = [s for s in body if isinstance(s, ast.For)]
    if len(loops) != 1:
        rep.unrec(R, construct, "expected one trait loop")
        return
    tl = loops[0]
    bl = [s for s in tl.body if isinstance(s, ast.For)]
    if len(bl) != 1 or len(bl[0].body) != 1 or not isinstance(bl[0].body[0], ast.Assign):
        rep.unrec(R, construct, "expected one block loop with one store inside the trait loop")
        return
    bl = bl[0]
    store = bl.body[0]
    tgt = store.targets[0]
    if not (isinstance(tgt, ast.Subscript) and isinstance(tgt.value, ast.Name) and isinstance(tgt.slice, ast.Tuple) and len(tgt.slice.elts) == 4):
        rep.unrec(R, construct, "store is not H[:, :, j, t] = ...")
        return
    H = tgt.value.id
    hdef = asg.get(H, [])
    if len(hdef) != 1 or not isinstance(hdef[0].value, ast.Call):
        rep.unrec(R, construct, "block array %s not allocated once" % H)
        return
    alloc = hdef[0].value
    afn = prog.dotted(f.module, alloc.func)
    shape = alloc.args[0] if alloc.args else None
    if isinstance(shape, ast.Name) and shape.id in asg:
        shape = asg[shape.id][0].value
    # trait loop: for i in range(H.shape[3]) / range(u.shape[1])
    if not (isinstance(tl.iter, ast.Call) and dump(tl.iter.func) == "range" and len(tl.iter.args) == 1 and isinstance(tl.target, ast.Name)):
        rep.unrec(R, construct, "trait loop is not range(ntrait)")
        return
    ti = tl.target.id
    # block loop: for j,(st,sp) in enumerate(zip(hst,hsp))
    it = bl.iter
    okit = isinstance(it, ast.Call) and dump(it.func) == "enumerate" and len(it.args) == 1 and isinstance(it.args[0], ast.Call) and dump(it.args[0].func) == "zip" \
        and isinstance(bl.target, ast.Tuple) and len(bl.target.elts) == 2 and isinstance(bl.target.elts[1], ast.Tuple) and len(bl.target.elts[1].elts) == 2
    if not okit:
        rep.unrec(R, construct, "block loop is not `for j,(st,sp) in enumerate(zip(starts, stops))`")
        return
    zargs = [dump(a) for a in it.args[0].args]
    j = dump(bl.target.elts[0])
    st_, sp_ = [dump(e) for e in bl.target.elts[1].elts]
    if zargs != [hst, hsp]:
        rep.violate(R, construct, "blocks iterate zip(%s), not zip(starts %s, stops %s)" % (", ".join(zargs), hst, hsp), where(f, bl), "zip(%s, %s)" % (hst, hsp), ", ".join(zargs))
        good = False
    tix = [_strip(dump(e)) for e in tgt.slice.elts]
    if tix != [":", ":", j, ti]:
        rep.violate(R, construct, "block value stored at [%s], not [:, :, block %s, trait %s]" % (", ".join(tix), j, ti), where(f, store), "[:,:,%s,%s]" % (j, ti), ",".join(tix))
        good = False
    # value: G[:,:,st:sp].dot(U[st:sp, ti])
    v = store.value
    gsl = usl = None
    if isinstance(v, ast.Call) and isinstance(v.func, ast.Attribute) and v.func.attr == "dot" and len(v.args) == 1:
        gsl, usl = v.func.value, v.args[0]
    elif isinstance(v, ast.BinOp) and isinstance(v.op, ast.MatMult):
        gsl, usl = v.left, v.right
    elif isinstance(v, ast.Call) and prog.dotted(f.module, v.func) in ("numpy.dot", "numpy.matmul") and len(v.args) == 2:
        gsl, usl = v.args
    if not (isinstance(gsl, ast.Subscript) and isinstance(usl, ast.Subscript) and isinstance(gsl.slice, ast.Tuple) and isinstance(usl.slice, ast.Tuple)):
        rep.unrec(R, construct, "block value is not <genotypes>[:, :, a:b] . <effects>[a:b, t]")
        return
    gix = [_strip(dump(e)) for e in gsl.slice.elts]
    uix = [_strip(dump(e)) for e in usl.slice.elts]
    want = "%s:%s" % (st_, sp_)
    if len(gix) != 3 or gix[:2] != [":", ":"] or gix[2] != want:
        rep.violate(R, construct, "genotype slice is [%s], not [:, :, %s] (the block's markers)" % (", ".join(gix), want), where(f, store), "[:,:,%s]" % want, ",".join(gix))
        good = False
    if len(uix) != 2 or uix[0] != want or uix[1] != ti:
        rep.violate(R, construct, "effect slice is [%s], not [%s, %s]: the marker range or the trait differs from the genotype side / the stored trait" % (", ".join(uix), want, ti),
                    where(f, store), "[%s,%s]" % (want, ti), ",".join(uix))
        good = False
    G, U = dump(gsl.value), dump(usl.value)
    gd, ud = asg.get(G), asg.get(U)
    if gd and isinstance(gd[0].value, ast.Attribute) and gd[0].value.attr != "mat":
        rep.violate(R, construct, "genotypes are read from .%s" % gd[0].value.attr, where(f, gd[0]))
        good = False
    if ud and isinstance(ud[0].value, ast.Attribute) and ud[0].value.attr != "u_a":
        rep.violate(R, construct, "marker effects are read from .%s, not the additive effects .u_a" % ud[0].value.attr, where(f, ud[0]))
        good = False
    # shape (G.shape[0], G.shape[1], N, U.shape[1]); trait loop bound = last axis
    if isinstance(shape, ast.Tuple) and len(shape.elts) == 4:
        sh = [_strip(dump(e)) for e in shape.elts]
        wantsh = [_strip(canon_text(w)) for w in ("%s.shape[0]" % G, "%s.shape[1]" % G, N, "%s.shape[1]" % U)]
        if sh != wantsh:
            rep.violate(R, construct, "block array shape (%s) is not (phases, individuals, requested blocks, traits) = (%s)" % (", ".join(sh), ", ".join(wantsh)), where(f, alloc),
                        ",".join(wantsh), ",".join(sh))
            good = False
    else:
        rep.unrec(R, construct, "block array shape is not a 4-tuple")
        good = False
    tb = _strip(dump(tl.iter.args[0]))
    if tb not in ("%s.shape[3]" % H, "%s.shape[1]" % U):
        rep.violate(R, construct, "trait loop runs to %s, not the number of traits" % tb, where(f, tl))
        good = False
    if good:
        rep.ok(R, construct, "pipeline on (%s, %s, %s); blocks<=markers guard; %s[:,:,j,t] = %s[:,:,st:sp] . %s[st:sp,t] over enumerate(zip(starts, stops))" % (genpos, stix, spix, H, G, U))
    # R5: definite initialisation
    R5 = "R5-init"
    if afn in ("numpy.zeros",):
        rep.ok(R5, construct, "block array zero-filled: blocks beyond the last non-empty run have value 0")
    elif afn == "numpy.full" and len(alloc.args) > 1 and isinstance(alloc.args[1], ast.Constant) and alloc.args[1].value == 0:
        rep.ok(R5, construct, "block array filled with 0")
    elif afn in ("numpy.empty", "numpy.ndarray"):
        rep.violate(R5, construct, "the block array is allocated uninitialised with the REQUESTED number of blocks but written once per run of labels: an equal-width "
                                   "bin without markers yields fewer runs, and the trailing blocks keep arbitrary memory (NaN / huge values reach the optimal values)",
                    where(f, alloc), "numpy.zeros(shape)", dump(alloc)[:50])
    else:
        rep.unrec(R5, construct, "block array allocated by %s" % afn)


# ------------------------------------------------------------------------------------------------ R6
def check_reductions(prog, rep):
    R = "R6-reduce"
    # optimal haploid value chunks: shared rule (C05-R6-chunks), reported here under R6-reduce
    sub = RuleProxy(rep, {"R6-chunks": R})
    _ohv_running_max(prog, rep)
    c05.check_chunks(prog, sub)
    # optimal population value
    K = prog.get_class("OptimalPopulationValueSubsetSelectionProblem", PROB + "OptimalPopulationValueSelectionProblem")
    f = prog.method(K, "latentfn")
    rep.saw(f)
    construct = f.qualname
    x = f.params()[1]
    try:
        got = VN(prog, f).run(body_nodoc(f.node))
        ref = VN(prog, f).expr(ast.parse("-self.ploidy * self._haplomat[:, %s, :, :].max((0, 1)).sum(0)" % x, mode="eval").body)
        if got == ref:
            rep.ok(R, construct, "-ploidy * haplomat[:, x, :, :].max(phases, selected individuals).sum(blocks)")
        elif got is not None and not isinstance(got, list) and comparable(got, ref):
            rep.violate(R, construct, "optimal population value normalises to %s, not -ploidy * sum_blocks max_(phase, selected) block value" % got.show()[:140], where(f),
                        ref.show()[:140], got.show()[:140])
        else:
            rep.unrec(R, construct, "latent function not in the modelled form")
    except VNUnknown as ex:
        rep.unrec(R, construct, str(ex))
    # ploidy = number of phases of the block array
    for cname, mod in (("OptimalPopulationValueSelectionProblemMixin", PROB + "OptimalPopulationValueSelectionProblem"),):
        C = prog.get_class(cname, mod)
        p = prog.lookup_prop(C, "ploidy")
        if p is None or p.getter is None:
            rep.unrec(R, C.qualname + ".ploidy", "property vanished")
            continue
        rets = [s for s in walk_no_nested(p.getter.node) if isinstance(s, ast.Return)]
        t = _strip(dump(rets[0].value)) if rets else ""
        if t in ("self._haplomat.shape[0]", "len(self._haplomat)"):
            rep.ok(R, C.qualname + ".ploidy", "ploidy is the number of phases (axis 0) of the block array")
        elif t.startswith("self._haplomat.shape["):
            rep.violate(R, C.qualname + ".ploidy", "ploidy is read from %s: axis 0 holds the chromosome phases" % t, where(p.getter), "self._haplomat.shape[0]", t)
        else:
            rep.unrec(R, C.qualname + ".ploidy", "ploidy = %s" % t[:50])
    # factories of the OHV family
    M = prog.get_class("OptimalHaploidValueSelectionProblemMixin", PROB + "OptimalHaploidValueSelectionProblem")
    n = 0
    for C in prog.subclasses(M.name, include_self=False):
        f = C.methods.get("from_pgmat_gpmod")
        if f is None:
            continue
        body = body_nodoc(f.node)
        if len(body) == 1 and isinstance(body[0], ast.Raise):
            continue
        rep.saw(f)
        n += 1
        construct = f.qualname
        asg = _assigns(f)
        good = True
        calls = {}
        for s in walk_no_nested(f.node):
            if isinstance(s, ast.Call) and isinstance(s.func, ast.Attribute) and dump(s.func.value) == "cls" and s.func.attr.startswith("_calc_"):
                calls[s.func.attr] = s
        if set(calls) != {"_calc_haplomat", "_calc_xmap", "_calc_ohvmat"}:
            rep.unrec(R, construct, "factory does not call the three builders (%s)" % sorted(calls))
            continue
        want = {"_calc_haplomat": ["pgmat", "gpmod", "nhaploblk"], "_calc_xmap": ["pgmat.ntaxa", "nparent", "unique_parents"]}
        for nm, w in want.items():
            c = calls[nm]
            target = prog.lookup_method(C, nm)
            pn = target.params() if target else []
            got = [_strip(dump(a)) for a in c.args] + ["%s=%s" % (k.arg, _strip(dump(k.value))) for k in c.keywords]
            # positional -> by parameter
            bypar = {}
            for i, a in enumerate(c.args):
                if i < len(pn):
                    bypar[pn[i]] = _strip(dump(a))
            for k in c.keywords:
                bypar[k.arg] = _strip(dump(k.value))
            vals = [bypar.get(p) for p in pn[:len(w)]]
            if vals != w:
                rep.violate(R, construct, "%s receives (%s), expected (%s)" % (nm, ", ".join(str(v) for v in vals), ", ".join(w)), where(f, c), ", ".join(w), ", ".join(str(v) for v in vals))
                good = False
        c = calls["_calc_ohvmat"]
        kws, _ = kwargs_of(c)
        target = prog.lookup_method(C, "_calc_ohvmat")
        pn = target.params() if target else []
        bypar = {pn[i]: a for i, a in enumerate(c.args) if i < len(pn)}
        bypar.update(kws)
        hm = [k for k, v in asg.items() if any(isinstance(s.value, ast.Call) and s.value is calls["_calc_haplomat"] for s in v)]
        xm = [k for k, v in asg.items() if any(isinstance(s.value, ast.Call) and s.value is calls["_calc_xmap"] for s in v)]
        if len(hm) != 1 or len(xm) != 1:
            rep.unrec(R, construct, "builder results not bound to single names")
            continue
        hm, xm = hm[0], xm[0]
        if "haplomat" not in bypar or dump(bypar["haplomat"]) != hm:
            rep.violate(R, construct, "_calc_ohvmat receives haplomat=%s, not the block array %s" % (dump(bypar.get("haplomat")) if bypar.get("haplomat") is not None else None, hm), where(f, c))
            good = False
        if "xmap" not in bypar or dump(bypar["xmap"]) != xm:
            rep.violate(R, construct, "_calc_ohvmat receives xmap=%s, not the cross map %s" % (dump(bypar.get("xmap")) if bypar.get("xmap") is not None else None, xm), where(f, c))
            good = False
        pl = _strip(dump(bypar["ploidy"])) if "ploidy" in bypar else None
        if pl not in ("%s.shape[0]" % hm, "len(%s)" % hm, "pgmat.ploidy"):
            if pl is not None and pl.startswith(hm + ".shape["):
                rep.violate(R, construct, "ploidy is taken from %s: axis 0 of the block array holds the phases" % pl, where(f, c), "%s.shape[0]" % hm, pl)
            elif pl is not None and pl in f.params() and pl != "ploidy":
                # another count of the factory (number of parents, crosses, blocks ...) stands in for the number of phases
                rep.violate(R, construct, "the ploidy scale of the optimal haploid value is the factory argument `%s`, not the number of phases of the block array (%s.shape[0]): "
                            "the value is that of the best doubled haploid only when the two happen to coincide" % (pl, hm), where(f, c), "%s.shape[0]" % hm, pl)
            else:
                rep.unrec(R, construct, "ploidy argument %s" % pl)
            good = False
        # the cross map handed to the constructor is the one the values were computed with
        ctor = [s for s in walk_no_nested(f.node) if isinstance(s, ast.Call) and dump(s.func) == "cls"]
        if len(ctor) == 1:
            ck, _ = kwargs_of(ctor[0])
            ov = [k for k, v in asg.items() if any(s.value is c for s in v)]
            if "decn_space_xmap" in ck and dump(ck["decn_space_xmap"]) != xm:
                rep.violate(R, construct, "the problem is given decn_space_xmap=%s but its values were computed with %s" % (dump(ck["decn_space_xmap"]), xm), where(f, ctor[0]))
                good = False
            if "ohvmat" in ck and ov and dump(ck["ohvmat"]) != ov[0]:
                rep.violate(R, construct, "the problem is given ohvmat=%s, not the computed %s" % (dump(ck["ohvmat"]), ov[0]), where(f, ctor[0]))
                good = False
        if good:
            rep.ok(R, construct, "haplomat(pgmat, gpmod, nhaploblk); xmap(ntaxa, nparent, unique_parents); ohvmat(ploidy=phases, haplomat, xmap); same xmap to the problem")
    rep.floor(R, 6)


def _ohv_running_max(prog, rep):
    """classify the `running maximum over parent columns` reformulation: its bound must be the number of parents, its accumulator must not floor the maximum"""
    c = prog.get_class("OptimalHaploidValueSelectionProblemMixin", PROB + "OptimalHaploidValueSelectionProblem")
    f = prog.own_method(c, "_calc_ohvmat")
    # accumulator of an in-place running maximum: numpy.maximum(acc, x, out=acc) / acc = numpy.maximum(acc, x)
    accs = set()
    for n in ast.walk(f.node):
        if isinstance(n, ast.Call) and prog.dotted(f.module, n.func) == "numpy.maximum" and len(n.args) >= 2 and isinstance(n.args[0], ast.Name):
            kws, _ = kwargs_of(n)
            if ("out" in kws and dump(kws["out"]) == n.args[0].id):
                accs.add(n.args[0].id)
        if isinstance(n, ast.Assign) and isinstance(n.value, ast.Call) and prog.dotted(f.module, n.value.func) == "numpy.maximum" and n.value.args \
                and isinstance(n.targets[0], ast.Name) and dump(n.value.args[0]) == n.targets[0].id:
            accs.add(n.targets[0].id)
    for a in sorted(accs):
        inits = [s for s in ast.walk(f.node) if isinstance(s, ast.Assign) and len(s.targets) == 1 and dump(s.targets[0]) == a
                 and not (isinstance(s.value, ast.Call) and prog.dotted(f.module, s.value.func) == "numpy.maximum")]
        for s in inits:
            v = s.value
            fn = prog.dotted(f.module, v.func) if isinstance(v, ast.Call) else None
            if fn in ("numpy.zeros", "numpy.zeros_like") or (fn in ("numpy.full", "numpy.full_like") and len(v.args) > 1 and isinstance(v.args[1], ast.Constant)
                                                            and isinstance(v.args[1].value, (int, float)) and v.args[1].value > -1e300):
                rep.violate("R6-reduce", f.qualname, "the running maximum over parents and phases starts from %s: the best block value is floored at that constant, so a block whose "
                            "haplotype values are all below it (negative effects) contributes the constant instead of its maximum" % dump(v)[:50], where(f, s),
                            "start from the first parent/phase or from -inf", dump(v)[:50])
    for lp in ast.walk(f.node):
        if not (isinstance(lp, ast.For) and isinstance(lp.iter, ast.Call) and dump(lp.iter.func) == "range" and isinstance(lp.target, ast.Name)):
            continue
        j = lp.target.id
        folds = [s for s in lp.body if isinstance(s, ast.Assign) and isinstance(s.value, ast.Call) and prog.dotted(f.module, s.value.func) == "numpy.maximum"]
        if not folds:
            continue
        # column index `[:, j]` into a 2-D parent table inside the fold
        cols = [n for n in ast.walk(folds[0]) if isinstance(n, ast.Subscript) and isinstance(n.slice, ast.Tuple) and len(n.slice.elts) == 2
                and _strip(dump(n.slice.elts[0])) == ":" and _strip(dump(n.slice.elts[1])) == j and isinstance(n.value, ast.Name)]
        if not cols:
            continue
        tab = cols[0].value.id
        bound = _strip(dump(lp.iter.args[-1] if len(lp.iter.args) <= 2 else lp.iter.args[1]))
        okb = {"%s.shape[1]" % tab, "xmap.shape[1]", "nparent"}
        if bound not in okb:
            rep.violate("R6-reduce", f.qualname, "the maximum over a cross's parents folds columns %s of %s up to `%s`, not up to the number of parents %s.shape[1]: "
                        "parents beyond it are ignored (or a missing column is indexed) whenever the number of parents differs from it" % (j, tab, bound, tab),
                        where(f, lp), "range(1, %s.shape[1])" % tab, dump(lp.iter))


def run(prog, rep, tier):
    rep.explanation = ('Counting obligations on the apportionment loop (start + trips == requested as polynomials, trips >= 0 from the guard), closed-interval / shared-slice / monotone-counter rules on the binning loops, run-length-encoding shape of the bounds scan, slice coupling and definite initialisation of the four block-value builders, value-numbered OHV / OPV reductions and factory wiring.')
    rep.not_decided = ['which equal-width bin a marker falls in (floating-point linspace) and tie handling at block boundaries', 'conservation of value and the doubled-haploid bound as numerical facts (they follow from the covering run-length encoding, the shared slice and max over a superset)']
    check_apportion(prog, rep)
    check_bins(prog, rep)
    check_bounds(prog, rep)
    from sa.report import second_reading
    fs = [f_ for m_ in prog.modules.values() if any(m_.name.startswith(p_) for p_ in ('pybrops.breed.prot.sel.prob',)) for f_ in list(m_.functions.values()) + [g_ for c_ in m_.classes.values() for g_ in c_.methods.values()]]
    second_reading(rep, fs, lambda r_: check_builders(prog, r_))
    second_reading(rep, fs, lambda r_: check_reductions(prog, r_))
