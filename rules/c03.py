"""
C03  Labels stay attached to their data under every matrix operation history.

  R1-fields    parallel-field agreement: every field of the edited axis is transformed by the op's numpy
               primitive, from the same-named field, with the same index operand, along the right axis;
               fields of the other axes are passed through by name
               "every remaining row/column still carries the taxon name and group, variant ... data or trait name
                it was created with and its data cells are exactly those of that entity"
  R2-square    an op along a square axis transforms the data along every axis of the square tuple
  R3-twins     "each mutating operation yields the same object state as its non-mutating counterpart"
  R4-purity    "non-mutating operations leave their operands unchanged": no store to self in a non-mutating op,
               no in-place element store into an array that results share by reference
  R5-typestate "whenever a matrix reports itself grouped ... group names, start/stop indices and lengths describe a
                true contiguous partition": a method that changes the layout of an axis leaves that axis' group
               metadata None (or recomputes all four from the sorted group array)
  R6-dispatch  "the axis-generic form of an operation equals the axis-specific one"
  R7-ctor      constructor stores every label under its own name, group metadata starts as None; results of
               non-mutating ops are fresh objects that do not inherit the edited axis' group metadata;
               genotyping protocols forward labels by name and recompute group metadata from the mask they applied
"""
import ast

from sa.ctorflow import wire

from sa import fields as F
from sa.fields import is_term, leaves, term_str, Eval, Unrecognised, NONE, ABSENT
from sa.astutil import where, dump, kwargs_of, field_of, walk_no_nested, strip_us, if_chain, is_guard
from sa.model import AnalysisError, body_nodoc, ClassInfo

AXES = ("taxa", "vrnt", "trait")
GRPFIELD = {"taxa": "taxa_grp", "vrnt": "vrnt_chrgrp"}
META = ("name", "stix", "spix", "len")
NONMUT = {"adjoin": "append", "delete": "delete", "insert": "insert", "select": "take", "concat": "concatenate"}
MUT = {"append": "append", "remove": "delete", "incorp": "insert", "reorder": "index"}
TWINS = {"append": "adjoin", "remove": "delete", "incorp": "insert"}
GENERIC = ["adjoin", "delete", "insert", "select", "concat", "append", "remove", "incorp", "lexsort", "reorder",
           "sort", "group", "ungroup", "is_grouped"]

QUICK_CLASSES = ["DenseTaxaMatrix", "DenseVariantMatrix", "DenseTraitMatrix", "DensePhasedMatrix",
                 "DenseTaxaVariantMatrix", "DensePhasedTaxaVariantMatrix", "DenseTaxaTraitMatrix",
                 "DenseSquareTaxaMatrix", "DenseSquareTraitMatrix", "DenseSquareTaxaTraitMatrix",
                 "DenseSquareTaxaSquareTraitMatrix",
                 "DenseGenotypeMatrix", "DensePhasedGenotypeMatrix", "DenseBreedingValueMatrix",
                 "DenseEstimatedBreedingValueMatrix", "DenseGenomicEstimatedBreedingValueMatrix",
                 "DenseCoancestryMatrix", "DenseMolecularCoancestryMatrix", "DenseVanRadenCoancestryMatrix",
                 "DenseYangCoancestryMatrix", "DenseGeneralizedWeightedCoancestryMatrix"]


class AxisInfo:
    def __init__(self, prog, K):
        self.K = K
        props = set(prog.all_props(K))
        params = prog.init_params(K)
        self.axes = {}
        for A in AXES:
            if A + "_axis" not in props:
                continue
            fields = [p for p in params if p == A or p.startswith(A + "_")]
            fields = [f for f in fields if f in props]
            grp = GRPFIELD.get(A)
            meta = ["%s_%s" % (grp, m) for m in META] if grp and grp in props else []
            meta = [m for m in meta if m in props]
            sq = "square_%s_axes" % A
            self.axes[A] = {
                "axis": prog.const_prop(K, A + "_axis"),
                "square": sq if sq in props else None,
                "square_const": prog.const_prop(K, sq) if sq in props else None,
                "fields": fields, "grp": grp if grp in props else None, "meta": meta,
            }
        self.scaled = prog.lookup_method(K, "unscale") is not None and prog.lookup_method(K, "from_numpy") is not None \
            and "location" in params


class Summary:
    """final object state of one method evaluation"""

    def __init__(self, ev, fr, func):
        self.ev, self.fr, self.func = ev, fr, func
        self.self_stores = {k[5:]: v for k, v in fr.env.items() if k.startswith("self.")}
        self.new = None
        rl = [l for l in leaves(fr.ret)] if fr.ret is not ABSENT else []
        news = [l for l in rl if is_term(l, "new")]
        if news and len(news) == len(rl) and len({l[1] for l in news}) == 1:
            self.new = ev.objects[news[0][1]]

    def result_field(self, f, mutating):
        if mutating:
            return self.self_stores.get(f, ("self", f))
        if self.new is None:
            return ABSENT
        if f in self.new.kw:
            return self.new.kw[f]
        if f in self.new.post:
            return self.new.post[f]
        return ABSENT


def evaluate(prog, K, mname):
    f = prog.lookup_method(K, mname)
    if f is None:
        return None, None
    ev = Eval(prog, K)
    fr = ev.run(f)
    return f, Summary(ev, fr, f)


def unwrap_chain(t, fn):
    """np(fn, np(fn, src, idx, ax0), idx, ax1) -> (src, [(idx, vals, axis), ...])"""
    steps = []
    while is_term(t, "np") and t[1] == fn:
        steps.append((t[3], t[4], t[5]))
        t = t[2]
    steps.reverse()
    return t, steps


def incoming_ok(vals, f, is_mat, scaled):
    """every alternative of the incoming-values term is the caller's value for field f"""
    bad = []
    for l in leaves(vals):
        if is_mat:
            if l == ("param", "values") or l == ("obj", "values", "mat"):
                continue   # (raw/scaled unit typing of scaled classes is decided by C15, not here)
            if is_term(l, "objcall") and l[2] == "unscale" and (l[1] == ("param", "values")):
                continue
        else:
            if l == ("param", f) or l == ("obj", "values", f):
                continue
            if is_term(l, "call") and l[1] == "numpy.empty":
                continue   # placeholder labels for unnamed incoming rows
        bad.append(term_str(l))
    return bad


def check_op(prog, rep, K, ai, A, op, tier):
    """R1/R2/R4/R5(part) for method <op>_<A> of concrete class K. Returns per-field signature dict or None."""
    mname = "%s_%s" % (op, A)
    f = prog.lookup_method(K, mname)
    if f is None:
        return None
    construct = "%s.%s" % (K.qualname, mname)
    mutating = op in MUT
    prim = (MUT if mutating else NONMUT)[op]
    info = ai.axes[A]
    try:
        f, sm = evaluate(prog, K, mname)
    except Unrecognised as e:
        rep.unrec("R1-fields", construct, "evaluator: %s" % e)
        return None
    rep.saw(f)
    for g in sm.ev.inlined:
        rep.saw(g)
    loc = where(f)
    sigs = {}
    # ------------------------------------------------------------- result object
    if not mutating:
        if sm.new is None:
            rep.unrec("R1-fields", construct, "result is not a single constructed object: %s" % term_str(sm.fr.ret))
            return None
        factory_ok = sm.new.how == "ctor" or (ai.scaled and sm.new.how == "factory:from_numpy")
        if not factory_ok:
            if ai.scaled and sm.new.how == "ctor" and "location" not in sm.new.kw:
                pass
            else:
                rep.unrec("R1-fields", construct, "result built by %s" % sm.new.how)
                return None
        # R4 purity
        if sm.self_stores:
            rep.violate("R4-purity", construct, "non-mutating operation stores to self.%s" % ", self.".join(sorted(sm.self_stores)),
                        loc, "no store to self", ", ".join(sorted(sm.self_stores)))
        else:
            rep.ok("R4-purity", construct, "no store to self")
    # in-place element stores (shared arrays)
    for k, v in list(sm.self_stores.items()):
        for l in leaves(v):
            if is_term(l, "substore"):
                rep.violate("R4-purity", construct, "in-place element store into self.%s (arrays are shared by reference with results of non-mutating operations)" % k,
                            loc, "rebinding self._%s to a new array" % k, "self._%s[...] = ..." % k)
    # ------------------------------------------------------------- fields of the edited axis
    idx_terms = {}
    allf = ["mat"] + info["fields"]
    for fld in allf:
        t = sm.result_field(fld, mutating)
        is_mat = fld == "mat"
        if t is ABSENT:
            if ai.scaled and sm.new is not None and sm.new.how == "ctor" and is_mat:
                pass
            rep.violate("R1-fields", construct, "result carries no %s (label lost)" % fld, loc, "%s=<transformed self.%s>" % (fld, fld), "absent")
            continue
        okfield = True
        sig = None
        for l in leaves(t):
            if l == NONE:
                continue
            if l == ("self", fld):
                # unchanged although the axis was edited
                if mutating and fld != "mat" and any(is_term(x, "np") for x in leaves(t)):
                    continue   # else-branch of `if self.f is not None` already folded to None; defensive
                rep.violate("R1-fields", construct, "field %s is left behind (not transformed with the data)" % fld, loc,
                            "%s(self.%s, ...)" % (prim, fld), "self.%s unchanged" % fld)
                okfield = False
                continue
            # incoming value used as is when self.<f> is None (labels absent on self)
            if not is_mat and prim in ("append", "insert") and not incoming_ok(l, fld, False, ai.scaled) and not is_term(l, "np"):
                continue
            # block fill for square adjoin/append
            if is_term(l, "block") and prim == "append" and is_mat:
                lo, hi, axes = l[1], l[2], l[3]
                want_axes = ("self", info["square"]) if info["square"] and info["square_const"] is None else ("const", info["square_const"])
                if info["square"] is None:
                    rep.violate("R2-square", construct, "block fill used on a class without square %s axes" % A, loc)
                    okfield = False
                    continue
                src_ok = lo == ("self", "mat") or (ai.scaled and lo == ("selfcall", "unscale", ()))
                bad = incoming_ok(hi, fld, True, ai.scaled)
                if not src_ok:
                    rep.violate("R1-fields", construct, "block fill: low block is %s, not the object's own data" % term_str(lo), loc)
                    okfield = False
                elif bad:
                    rep.violate("R1-fields", construct, "block fill: high block is %s, not the incoming values" % "; ".join(bad), loc)
                    okfield = False
                elif axes != want_axes and not (is_term(axes, "const") and info["square_const"] is not None and tuple(axes[1]) == tuple(info["square_const"])):
                    rep.violate("R2-square", construct, "block fill along %s, square %s axes are %s" % (term_str(axes), A, info["square_const"] or info["square"]), loc)
                    okfield = False
                else:
                    sig = ("block", "self.mat", "values", str(info["square_const"] or info["square"]))
                continue
            if not is_term(l, "np"):
                rep.unrec("R1-fields", construct, "field %s: value %s not modelled" % (fld, term_str(l)[:120]))
                okfield = False
                continue
            src, steps = unwrap_chain(l, l[1])
            fn = l[1]
            if fn != prim:
                rep.violate("R1-fields", construct, "field %s is transformed by numpy.%s, the operation's primitive is numpy.%s" % (fld, fn, prim),
                            loc, prim, fn)
                okfield = False
                continue
            # source
            want_src = [("self", fld)]
            if is_mat and ai.scaled:
                # raw/scaled unit typing is C15's business; for label attachment either view of the data is fine
                want_src = [("selfcall", "unscale", ()), ("self", "mat")]
            if prim == "concatenate":
                want_src = [("listof", "mats", fld, False), ("listof", "mats", fld, True)]
                nn = [x for x in leaves(src) if x != NONE]
                if len(nn) == 1:
                    src = nn[0]
            if src not in want_src:
                if is_term(src, "self") or is_term(src, "listof"):
                    other = src[1] if is_term(src, "self") else src[2]
                    rep.violate("R1-fields", construct, "field %s is built from %s" % (fld, term_str(src)), loc,
                                term_str(want_src[0]), term_str(src))
                else:
                    rep.unrec("R1-fields", construct, "field %s: source %s not modelled" % (fld, term_str(src)[:100]))
                okfield = False
                continue
            # axes
            axes = [s[2] for s in steps]
            if is_mat:
                if info["square"] is not None:
                    sqc = info["square_const"]
                    got = []
                    for a in axes:
                        got.append(a[1] if is_term(a, "const") else term_str(a))
                    if sqc is not None:
                        want = list(sqc)
                        if sorted(map(str, got)) != sorted(map(str, want)):
                            rep.violate("R2-square", construct, "data transformed along axes %s; the square %s axes are %s" % (got, A, tuple(want)),
                                        loc, str(tuple(want)), str(got))
                            okfield = False
                            continue
                    else:
                        if axes != [("axisof", info["square"])]:
                            rep.violate("R2-square", construct, "data transformed along %s; must cover every axis of %s" % (got, info["square"]),
                                        loc, "for axis in self.%s" % info["square"], str(got))
                            okfield = False
                            continue
                else:
                    want_ax = ("const", info["axis"]) if info["axis"] is not None else ("self", A + "_axis")
                    if len(axes) == 1 and info["axis"] is None and axes[0] == ("obj", "mats[0]", A + "_axis"):
                        pass
                    elif len(axes) != 1 or axes[0] != want_ax:
                        got = [term_str(a) if a is not None else "None" for a in axes]
                        if len(axes) == 1 and (is_term(axes[0], "const") or axes[0] is None):
                            rep.violate("R1-fields", construct, "data transformed along axis %s; %s axis is %s" % (got[0], A, term_str(want_ax)),
                                        loc, term_str(want_ax), got[0])
                        elif len(axes) == 1 and is_term(axes[0], "self"):
                            rep.violate("R1-fields", construct, "data transformed along self.%s; operation is along %s" % (axes[0][1], A), loc,
                                        term_str(want_ax), got[0])
                        else:
                            rep.unrec("R1-fields", construct, "axis expression(s) %s not modelled" % got)
                        okfield = False
                        continue
            else:
                if len(axes) != 1 or not (axes[0] == ("const", 0) or (axes[0] is None and prim == "index")):
                    got = [term_str(a) if a is not None else "None" for a in axes]
                    if len(axes) == 1 and (axes[0] is None or is_term(axes[0], "const")):
                        rep.violate("R1-fields", construct, "label %s transformed along axis %s (labels are one-dimensional: axis 0)" % (fld, got[0]),
                                    loc, "axis=0", got[0])
                    else:
                        rep.unrec("R1-fields", construct, "label %s axis %s not modelled" % (fld, got))
                    okfield = False
                    continue
            # index operand(s)
            idxs = {term_str(s[0]) for s in steps if s[0] is not None}
            if prim in ("delete", "insert", "take", "index"):
                if len(idxs) != 1:
                    rep.violate("R1-fields", construct, "field %s uses differing index operands %s" % (fld, sorted(idxs)), loc)
                    okfield = False
                    continue
                idx_terms.setdefault(steps[0][0], []).append(fld)
            # incoming values
            if prim in ("insert", "append"):
                for s in steps:
                    bad = incoming_ok(s[1], fld, is_mat, ai.scaled)
                    if bad:
                        rep.violate("R1-fields", construct, "field %s receives %s as new values" % (fld, "; ".join(bad)[:120]), loc,
                                    "the caller's %s" % ("values" if is_mat else fld), "; ".join(bad)[:120])
                        okfield = False
            sig = (prim, term_str(src), ",".join(sorted(idxs)), ",".join(term_str(a) if a is not None else "None" for a in axes))
        if okfield and sig is not None:
            sigs[fld] = sig
    # all fields share one index operand, and it is a bare parameter of the method
    if len(idx_terms) > 1:
        rep.violate("R1-fields", construct, "fields are indexed by different operands: %s" %
                    "; ".join("%s<-%s" % (",".join(v), term_str(k)) for k, v in sorted(idx_terms.items(), key=lambda kv: term_str(kv[0]))),
                    loc, "one index operand for data and labels", "several")
    elif len(idx_terms) == 1:
        k = list(idx_terms)[0]
        if op in ("delete", "insert", "select", "remove", "incorp", "reorder") and not is_term(k, "param"):
            rep.violate("R1-fields", construct, "index operand is %s, not the method's own index argument" % term_str(k)[:80], loc,
                        "the unmodified obj/indices parameter", term_str(k)[:80])
    if len(sigs) == len(allf) and len(idx_terms) <= 1:
        rep.ok("R1-fields", construct, "%s: %s" % (prim, "; ".join("%s<-%s[%s]@%s" % (k, v[1], v[2], v[3]) for k, v in sorted(sigs.items()))),
               sample={"class": K.name, "method": mname, "fields": {k: list(v) for k, v in sigs.items()}})
        if info["square"] is not None and "mat" in sigs:
            rep.ok("R2-square", construct, "data transformed along every square %s axis: %s" % (A, sigs["mat"][3]))
    # ------------------------------------------------------------- other axes: pass-through by name
    for B, binfo in ai.axes.items():
        if B == A:
            continue
        dropped = [fld for fld in binfo["fields"] + binfo["meta"] if not mutating and sm.result_field(fld, False) is ABSENT]
        if dropped:
            rep.violate("R1-fields", construct, "result drops the labels of the untouched %s axis: %s" % (B, ", ".join(dropped)), loc,
                        "%s=self.%s" % (dropped[0], dropped[0]), "absent")
        for fld in binfo["fields"] + binfo["meta"]:
            if fld in dropped:
                continue
            t = sm.result_field(fld, mutating)
            if mutating:
                if t != ("self", fld):
                    rep.violate("R1-fields", construct, "%s of the untouched %s axis is modified: %s" % (fld, B, term_str(t)[:80]), loc,
                                "unchanged", term_str(t)[:80])
                continue
            if t == ("self", fld) or (op == "concat" and t == ("obj", "mats[0]", fld)):
                continue
            if t is ABSENT:
                rep.violate("R1-fields", construct, "result drops %s of the untouched %s axis" % (fld, B), loc,
                            "%s=self.%s" % (fld, fld), "absent")
            elif is_term(t, "self"):
                rep.violate("R1-fields", construct, "%s of the untouched %s axis is taken from self.%s" % (fld, B, t[1]), loc,
                            "self." + fld, "self." + t[1])
            else:
                rep.unrec("R1-fields", construct, "%s of untouched axis: %s not modelled" % (fld, term_str(t)[:80]))
        else:
            pass
    if not mutating and sm.new is not None:
        # extra (non-axis) constructor parameters such as ploidy are carried by name
        for p in prog.init_params(K):
            if p in ("mat",) or any(p in x["fields"] for x in ai.axes.values()):
                continue
            if ai.scaled and p in ("location", "scale"):
                continue
            t = sm.result_field(p, False)
            if t is ABSENT:
                rep.violate("R1-fields", construct, "result drops constructor parameter %s" % p, loc, "%s=self.%s" % (p, p), "absent")
            elif t != ("self", p) and not (op == "concat" and t == ("obj", "mats[0]", p)):
                if is_term(t, "self"):
                    rep.violate("R1-fields", construct, "constructor parameter %s is taken from self.%s" % (p, t[1]), loc, "self." + p, term_str(t))
                else:
                    rep.unrec("R1-fields", construct, "constructor parameter %s: %s not modelled" % (p, term_str(t)[:80]))
        # R7: the fresh object must not inherit the edited axis' group metadata
        for m in info["meta"]:
            if m in sm.new.post or m in sm.new.kw:
                rep.violate("R7-ctor", construct, "result inherits %s although the %s axis was edited" % (m, A), loc,
                            "fresh object ungrouped along %s" % A, term_str(sm.result_field(m, False))[:60])
        if info["meta"]:
            rep.ok("R7-ctor", construct, "fresh object: %s group metadata not inherited" % A)
    # ------------------------------------------------------------- R5 typestate (mutating ops)
    if mutating and info["meta"]:
        check_reset(rep, construct, sm, info, A, loc)
    return sigs


def check_reset(rep, construct, sm, info, A, loc):
    missing = []
    for m in info["meta"]:
        t = sm.self_stores.get(m, ("self", m))
        if all(l == NONE for l in leaves(t)):
            continue
        missing.append(m)
    if missing:
        rep.violate("R5-typestate", construct, "layout of the %s axis changes but %s keep(s) the old grouping" % (A, ", ".join(missing)),
                    loc, "self.%s = None on every exit" % missing[0], "not reset")
    else:
        rep.ok("R5-typestate", construct, "%s group metadata reset to None on every exit" % A)


# ---------------------------------------------------------------------- sort / group / ungroup / is_grouped
def check_sort_keys(prog, rep, K, A):
    """R9-sortkeys: group_<axis> = sort_<axis> + recount of contiguous runs, and sort_<axis> sorts by lexsort_<axis>'s default keys; numpy.lexsort takes its LAST key
    as the primary one, so the group array stands last in the default key tuple - otherwise the sorted layout is by label first, members of one group are scattered
    and the recounted name / stix / spix / len are not a partition."""
    f = prog.lookup_method(K, "lexsort_" + A)
    if f is None:
        return
    construct = "%s.lexsort_%s" % (f.cls.qualname if f.cls is not None else K.qualname, A)
    grp = {"taxa": "taxa_grp", "vrnt": "vrnt_chrgrp", "trait": None}.get(A)
    dft = [st.value for st in walk_no_nested(f.node) if isinstance(st, ast.Assign) and isinstance(st.targets[0], ast.Name) and st.targets[0].id == (f.params()[1] if len(f.params()) > 1 else "keys")
           and isinstance(st.value, ast.Tuple) and all(field_of(e) is not None for e in st.value.elts)]
    if grp is None or not dft:
        return
    rep.saw(f)
    flds = [field_of(e).lstrip("_") for e in dft[0].elts]
    if grp not in flds:
        rep.violate("R9-sortkeys", construct, "the default sort keys %s do not contain the group array %s: grouping sorts without bringing the members of a group together" % (flds, grp),
                    where(f), "(..., self._%s)" % grp, str(flds))
    elif flds[-1] != grp:
        rep.violate("R9-sortkeys", construct, "the default sort keys are %s: numpy.lexsort sorts by its LAST key first, so the layout is by %s first and the members of a group are not "
                    "contiguous - the group metadata recounted after the sort do not describe a partition" % (flds, flds[-1]), where(f), "(..., self._%s)" % grp, str(flds))
    else:
        rep.ok("R9-sortkeys", construct, "default keys %s: group array last (= primary for numpy.lexsort)" % flds)


def check_sort_group(prog, rep, K, ai, A):
    info = ai.axes[A]
    check_sort_keys(prog, rep, K, A)
    # sort_A: same permutation on all fields, metadata reset
    mname = "sort_" + A
    if prog.lookup_method(K, mname) is not None:
        construct = "%s.%s" % (K.qualname, mname)
        try:
            f, sm = evaluate(prog, K, mname)
            rep.saw(f)
            idxs = {}
            okk = True
            for fld in ["mat"] + info["fields"]:
                t = sm.self_stores.get(fld, ("self", fld))
                for l in leaves(t):
                    if l == NONE:
                        continue
                    if not (is_term(l, "np") and l[1] == "index"):
                        if l == ("self", fld):
                            rep.violate("R1-fields", construct, "field %s is left behind (not permuted with the data)" % fld, where(f))
                        else:
                            rep.unrec("R1-fields", construct, "field %s: %s not modelled" % (fld, term_str(l)[:80]))
                        okk = False
                        continue
                    src, steps = unwrap_chain(l, "index")
                    if src != ("self", fld):
                        rep.violate("R1-fields", construct, "field %s is built from %s" % (fld, term_str(src)), where(f))
                        okk = False
                    for s in steps:
                        idxs.setdefault(term_str(s[0])[:200], []).append(fld)
            if len(idxs) > 1:
                rep.violate("R1-fields", construct, "fields are permuted by different index arrays", where(f))
            elif okk and idxs:
                rep.ok("R1-fields", construct, "all fields permuted by one lexsort result")
            if info["meta"]:
                check_reset(rep, construct, sm, info, A, where(f))
        except Unrecognised as e:
            rep.unrec("R1-fields", construct, "evaluator: %s" % e)
    if not info["meta"]:
        return
    grp = info["grp"]
    # group_A
    mname = "group_" + A
    if prog.lookup_method(K, mname) is not None:
        construct = "%s.%s" % (K.qualname, mname)
        try:
            f, sm = evaluate(prog, K, mname)
            rep.saw(f)
            loc = where(f)
            st = sm.self_stores
            want = {"name": 0, "stix": 1, "len": 2}
            good = True
            uniq_src = None
            for part, i in want.items():
                t = st.get("%s_%s" % (grp, part), ("self", "%s_%s" % (grp, part)))
                ls = [l for l in leaves(t) if l != NONE]
                if not ls:
                    rep.violate("R5-typestate", construct, "%s_%s is not recomputed" % (grp, part), loc)
                    good = False
                    continue
                for l in ls:
                    if is_term(l, "unique_part"):
                        call = l[2]
                        if l[1] != i:
                            rep.violate("R5-typestate", construct, "%s_%s receives element %d of numpy.unique(values, index, counts)" % (grp, part, l[1]),
                                        loc, "element %d" % i, "element %d" % l[1])
                            good = False
                        uniq_src = call
                    else:
                        rep.unrec("R5-typestate", construct, "%s_%s: %s not modelled" % (grp, part, term_str(l)[:80]))
                        good = False
            if uniq_src is not None:
                args = uniq_src[2]
                a0 = args[0] if args else None
                kw = dict(x for x in args if isinstance(x, tuple) and len(x) == 2 and isinstance(x[0], str) and x[0] in ("return_index", "return_counts", "return_inverse"))
                # the array handed to unique must be the (sorted) group array of this axis
                cur = a0
                if is_term(cur, "guard"):
                    cur = [l for l in leaves(cur) if l != NONE][0] if [l for l in leaves(cur) if l != NONE] else cur
                src, steps = unwrap_chain(cur, "index") if is_term(cur, "np") else (cur, [])
                if src != ("self", grp):
                    rep.violate("R5-typestate", construct, "group boundaries are computed from %s, not from %s" % (term_str(src)[:60], grp), loc,
                                "numpy.unique(self.%s, ...)" % grp, term_str(src)[:60])
                    good = False
                elif not steps:
                    rep.violate("R5-typestate", construct, "group boundaries are computed without sorting the axis first", loc,
                                "sort_%s() before numpy.unique" % A, "unsorted")
                    good = False
                if kw.get("return_index") != ("const", True) or kw.get("return_counts") != ("const", True) or "return_inverse" in kw:
                    rep.violate("R5-typestate", construct, "numpy.unique is not asked for (values, first index, counts)", loc)
                    good = False
            sp = st.get(grp + "_spix", ("self", grp + "_spix"))
            for l in [l for l in leaves(sp) if l != NONE]:
                okk = (is_term(l, "binop") and l[1] == "Add"
                       and {_part(l[2]), _part(l[3])} == {1, 2})
                if not okk:
                    if is_term(l, "binop"):
                        rep.violate("R5-typestate", construct, "stop indices are not start + length: %s" % term_str(l)[:60], loc, "stix + len", "other")
                    else:
                        rep.unrec("R5-typestate", construct, "spix: %s not modelled" % term_str(l)[:80])
                    good = False
            if not [l for l in leaves(sp) if l != NONE]:
                rep.violate("R5-typestate", construct, "%s_spix is not recomputed" % grp, loc)
                good = False
            if good:
                rep.ok("R5-typestate", construct, "sort, then (name, stix, len) = unique(sorted %s, index, counts); spix = stix + len" % grp)
        except Unrecognised as e:
            rep.unrec("R5-typestate", construct, "evaluator: %s" % e)
    # ungroup_A
    mname = "ungroup_" + A
    if prog.lookup_method(K, mname) is not None:
        construct = "%s.%s" % (K.qualname, mname)
        try:
            f, sm = evaluate(prog, K, mname)
            rep.saw(f)
            check_reset(rep, construct, sm, info, A, where(f))
        except Unrecognised as e:
            rep.unrec("R5-typestate", construct, "evaluator: %s" % e)
    # is_grouped_A
    mname = "is_grouped_" + A
    f = prog.lookup_method(K, mname)
    if f is not None:
        construct = "%s.%s" % (K.qualname, mname)
        tested = set()
        neg = False
        for n in walk_no_nested(f.node):
            if isinstance(n, ast.Compare) and len(n.ops) == 1 and isinstance(n.comparators[0], ast.Constant) \
                    and n.comparators[0].value is None:
                fld = field_of(n.left)
                if fld:
                    tested.add(fld)
                    if isinstance(n.ops[0], ast.Is):
                        neg = True
            if isinstance(n, ast.BoolOp) and isinstance(n.op, ast.Or):
                neg = True
        rep.saw(f)
        if neg:
            rep.unrec("R5-typestate", construct, "is_grouped predicate form not modelled")
        elif tested == set(info["meta"]):
            rep.ok("R5-typestate", construct, "grouped iff all of %s are not None" % ", ".join(sorted(tested)))
        elif tested < set(info["meta"]):
            rep.violate("R5-typestate", construct, "is_grouped ignores %s" % ", ".join(sorted(set(info["meta"]) - tested)), where(f))
        else:
            rep.violate("R5-typestate", construct, "is_grouped tests fields of another axis: %s" % ", ".join(sorted(tested - set(info["meta"]))), where(f))


def _part(t):
    for l in leaves(t):
        if is_term(l, "unique_part"):
            return l[1]
    return None


# ---------------------------------------------------------------------- R6 dispatch
def check_dispatch(prog, rep, K, ai):
    props = set(prog.all_props(K))
    for g in GENERIC:
        f = prog.lookup_method(K, g)
        if f is None:
            continue
        construct = "%s.%s" % (K.qualname, g)
        rep.saw(f)
        branches = []   # (axis name, call node or None, raises?)
        fbody = body_nodoc(f.node)
        # the dispatch chain starts at the first If whose test mentions `axis` (elif nesting or sibling Ifs with returning bodies alike)
        first = [k for k, s in enumerate(fbody) if isinstance(s, ast.If) and _axis_test(s.test) is not None]
        synthetic = None
        if not first:
            # guard-first layout: `if axis not in self.X_axes: raise ...` followed by the call is the one-branch chain `if axis in self.X_axes: call  else: raise`
            for k, s_ in enumerate(fbody):
                if is_guard(s_) and isinstance(s_.test, ast.Compare) and len(s_.test.ops) == 1 and isinstance(s_.test.ops[0], (ast.NotIn, ast.NotEq)):
                    pos = ast.Compare(left=s_.test.left, ops=[ast.In() if isinstance(s_.test.ops[0], ast.NotIn) else ast.Eq()], comparators=s_.test.comparators)
                    if _axis_test(pos) is not None:
                        node_ = ast.If(test=pos, body=fbody[k + 1:], orelse=list(s_.body))
                        ast.copy_location(node_, s_)
                        synthetic = ([(pos, fbody[k + 1:], node_)], list(s_.body))
                        break
        if not first and synthetic is None:
            rep.unrec("R6-dispatch", construct, "no dispatch chain on `axis` found")
            continue
        branches, tail = if_chain(fbody, first[0]) if first else synthetic
        members = {id(b[2]) for b in branches}
        if first and any(isinstance(s, ast.If) and _axis_test(s.test) is not None and id(s) not in members for s in fbody):
            rep.unrec("R6-dispatch", construct, "several dispatch chains")
            continue
        ok = True
        covered = set()
        recv_self = "cls" if f.kind == "classmethod" else "self"
        for bi, (btest, bbody, node) in enumerate(branches):
            at = _axis_test(btest)
            if at is None:
                rep.unrec("R6-dispatch", construct, "branch test not modelled: %s" % dump(node.test)[:60])
                ok = False
                break
            kind, prop = at
            A = prop[len("square_"):-len("_axes")] if kind == "in" else prop[:-len("_axis")]
            if prop == "square_axes":
                sq = [a for a, i in ai.axes.items() if i["square"]]
                if len(sq) != 1:
                    rep.unrec("R6-dispatch", construct, "`axis in self.square_axes` with %d square labelled axes" % len(sq))
                    ok = False
                    break
                A = sq[0]
            calls = [n for st in node.body for n in walk_no_nested(st) if isinstance(n, ast.Call) and isinstance(n.func, ast.Attribute)
                     and isinstance(n.func.value, ast.Name) and n.func.value.id in ("self", "cls")]
            want = "%s_%s" % (g, A)
            only_raises = bool(node.body) and all(isinstance(st_, ast.Raise) for st_ in node.body)
            if prop not in props:
                if only_raises:
                    rep.info("R6-dispatch", construct, "branch tests self.%s, which %s does not have (branch only raises)" % (prop, K.name))
                else:
                    rep.violate("R6-dispatch", construct, "branch tests self.%s, which %s does not have" % (prop, K.name), where(f, node),
                                "a branch per axis the class has", prop)
                    ok = False
            if only_raises:
                if prog.lookup_method(K, want) is not None and prop in props:
                    rep.violate("R6-dispatch", construct, "branch for the %s axis raises although %s exists" % (A, want), where(f, node),
                                "self.%s(...)" % want, "raise")
                    ok = False
                covered.add(A)
            elif not calls and prog.lookup_method(K, want) is None:
                covered.add(A)     # axis without such an operation: a branch that does nothing / returns a constant
            elif len(calls) != 1:
                rep.unrec("R6-dispatch", construct, "branch for %s does not contain exactly one method call" % A)
                ok = False
            else:
                c = calls[0]
                if c.func.attr != want:
                    rep.violate("R6-dispatch", construct, "branch for the %s axis calls %s instead of %s" % (A, c.func.attr, want),
                                where(f, c), want, c.func.attr)
                    ok = False
                else:
                    callee = prog.lookup_method(K, want)
                    if callee is None:
                        rep.violate("R6-dispatch", construct, "%s is not defined for %s" % (want, K.name), where(f, c), want, "missing")
                        ok = False
                    else:
                        ok = check_forwarding(rep, construct, f, c, callee) and ok
                covered.add(A)
        else:
            if not tail or not any(isinstance(s, ast.Raise) for s in tail):
                rep.violate("R6-dispatch", construct, "an axis without a branch is silently ignored (no raise)", where(f, branches[-1][2]),
                            "else: raise ValueError", "fall through")
                ok = False
        # every labelled axis of the class for which the specific method exists must have a branch
        for A in ai.axes:
            if prog.lookup_method(K, "%s_%s" % (g, A)) is not None and A not in covered:
                rep.violate("R6-dispatch", construct, "no branch for the %s axis although %s_%s exists" % (A, g, A), where(f),
                            "branch per axis", "missing")
                ok = False
        if "phase_axis" in props and prog.lookup_method(K, "%s_phase" % g) is not None and "phase" not in covered:
            rep.violate("R6-dispatch", construct, "no branch for the phase axis although %s_phase exists" % g, where(f))
            ok = False
        if ok:
            rep.ok("R6-dispatch", construct, "axes %s dispatch to %s_<axis> with every argument forwarded by name" % (sorted(covered), g))


def _axis_test(t):
    """`axis == self.X_axis` -> ('eq', 'X_axis'); `axis in self.square_X_axes` -> ('in', ...); mats[0].X_axis accepted"""
    if isinstance(t, ast.Compare) and len(t.ops) == 1 and isinstance(t.ops[0], ast.Eq) and isinstance(t.comparators[0], ast.Name) and t.comparators[0].id == "axis" \
            and not (isinstance(t.left, ast.Name) and t.left.id == "axis"):
        t = ast.Compare(left=t.comparators[0], ops=[ast.Eq()], comparators=[t.left])      # self.X_axis == axis
    if isinstance(t, ast.Compare) and len(t.ops) == 1 and isinstance(t.left, ast.Name) and t.left.id == "axis":
        r = t.comparators[0]
        if isinstance(r, ast.Attribute):
            if isinstance(t.ops[0], ast.Eq) and r.attr.endswith("_axis"):
                return ("eq", r.attr)
            if isinstance(t.ops[0], ast.In) and r.attr.startswith("square_") and r.attr.endswith("_axes"):
                return ("in", r.attr)
    return None


def check_forwarding(rep, construct, f, call, callee):
    ok = True
    kws, stars = kwargs_of(call)
    cps = [p for p in callee.params() if p not in ("self", "cls")]
    for p, a in zip(cps, call.args):
        kws.setdefault(p, a)
    gparams = [p for p in f.params() if p not in ("self", "cls", "axis")]
    for k, v in kws.items():
        if isinstance(v, ast.Name):
            if v.id != k and v.id in gparams:
                rep.violate("R6-dispatch", construct, "%s receives %s=%s" % (callee.name, k, v.id), where(f, call), "%s=%s" % (k, k), dump(v))
                ok = False
        else:
            rep.unrec("R6-dispatch", construct, "argument %s=%s not modelled" % (k, dump(v)[:40]))
            ok = False
    for p in gparams:
        if p in cps and p not in kws:
            rep.violate("R6-dispatch", construct, "%s is not forwarded to %s" % (p, callee.name), where(f, call), "%s=%s" % (p, p), "absent")
            ok = False
    if f.node.args.kwarg is not None and callee.node.args.kwarg is not None:
        if not any(isinstance(s, ast.Name) and s.id == f.node.args.kwarg.arg for s in stars):
            rep.violate("R6-dispatch", construct, "**%s is not forwarded to %s" % (f.node.args.kwarg.arg, callee.name), where(f, call))
            ok = False
    return ok


# ---------------------------------------------------------------------- R7 constructor / setters
def check_ctor(prog, rep, K, ai):
    construct = "%s.__init__" % K.qualname
    try:
        f, sm = evaluate(prog, K, "__init__")
    except Unrecognised as e:
        rep.unrec("R7-ctor", construct, "evaluator: %s" % e)
        return
    if f is None:
        return
    rep.saw(f)
    ok = True
    for A, info in ai.axes.items():
        for fld in info["fields"]:
            t = sm.self_stores.get(fld, ABSENT)
            if t == ("param", fld):
                continue
            ok = False
            if t is ABSENT:
                rep.violate("R7-ctor", construct, "constructor parameter %s is never stored" % fld, where(f), "self.%s = %s" % (fld, fld), "absent")
            elif is_term(t, "param"):
                rep.violate("R7-ctor", construct, "constructor stores parameter %s into %s" % (t[1], fld), where(f), "self.%s = %s" % (fld, fld), term_str(t))
            else:
                rep.unrec("R7-ctor", construct, "stored value of %s not modelled: %s" % (fld, term_str(t)[:60]))
        for m in info["meta"]:
            t = sm.self_stores.get(m, ABSENT)
            if t != NONE:
                ok = False
                rep.violate("R7-ctor", construct, "new object starts with %s = %s (must be None: ungrouped)" % (m, term_str(t)[:40]), where(f),
                            "self.%s = None" % m, term_str(t)[:40])
    t = sm.self_stores.get("mat", ABSENT)
    if t != ("param", "mat"):
        ok = False
        if is_term(t, "param"):
            rep.violate("R7-ctor", construct, "constructor stores parameter %s into mat" % t[1], where(f))
        else:
            rep.unrec("R7-ctor", construct, "stored mat not modelled: %s" % term_str(t)[:60])
    if ok:
        rep.ok("R7-ctor", construct, "every label parameter stored under its own name; group metadata None")
    # setters store their argument
    for A, info in ai.axes.items():
        for fld in ["mat"] + info["fields"] + info["meta"]:
            p = prog.lookup_prop(K, fld)
            if p is None or p.setter is None:
                continue
            s = p.setter
            par = [a for a in s.params() if a != "self"]
            stores = [n for n in walk_no_nested(s.node) if isinstance(n, ast.Assign) and any(field_of(t_) == fld for t_ in n.targets)]
            c2 = s.qualname + "#setter"
            if len(stores) >= 1 and all(isinstance(n.value, ast.Name) and par and n.value.id == par[0] for n in stores):
                # value must not be rebound before the store
                rebinds = [n for n in walk_no_nested(s.node) if isinstance(n, ast.Assign) and any(isinstance(t_, ast.Name) and par and t_.id == par[0] for t_ in n.targets)]
                if rebinds:
                    rep.unrec("R7-ctor", c2, "setter rebinds its argument before storing it")
                else:
                    rep.ok("R7-ctor", c2, "stores its argument unchanged")
            elif not stores:
                rep.unrec("R7-ctor", c2, "setter performs no store to self._%s" % fld)
            else:
                rep.unrec("R7-ctor", c2, "stored value is not the argument: %s" % dump(stores[0].value)[:50])


# ---------------------------------------------------------------------- R5 over every layout-changing method
def check_all_mutators(prog, rep, K, ai, done):
    """any other method of K that stores to mat / a label of an axis must reset or recompute that axis' group metadata"""
    layout = {}
    for A, info in ai.axes.items():
        if info["meta"]:
            for fld in ["mat", info["grp"]]:
                layout.setdefault(fld, []).append(A)
    if not layout:
        return
    # methods that (directly) store to a layout field
    direct = set()
    callers = {}
    allm = {}
    for c in prog.mro_classes(K):
        for name, fn in c.methods.items():
            allm.setdefault(name, prog.lookup_method(K, name))
    for name, fn in allm.items():
        if fn is None or fn.kind != "method":
            continue
        for n in walk_no_nested(fn.node):
            if isinstance(n, ast.Attribute) and isinstance(n.ctx, ast.Store) and field_of(n) in layout:
                direct.add(name)
            if isinstance(n, ast.Call) and isinstance(n.func, ast.Attribute) and isinstance(n.func.value, ast.Name) \
                    and n.func.value.id == "self":
                callers.setdefault(n.func.attr, set()).add(name)
    work = list(direct)
    cand = set(direct)
    while work:
        m = work.pop()
        for c in callers.get(m, ()):
            if c not in cand:
                cand.add(c)
                work.append(c)
    for name in sorted(cand):
        if name in done or name.startswith("__") and name != "__init__":
            continue
        if name == "__init__" or name.startswith(("group", "ungroup")) or name in GENERIC:
            continue
        fn = allm[name]
        construct = "%s.%s" % (K.qualname, name)
        try:
            f, sm = evaluate(prog, K, name)
        except Unrecognised as e:
            rep.info("R5-typestate", construct, "method stores to layout fields but is not modelled by the evaluator: %s" % e)
            continue
        rep.saw(f)
        for A, info in ai.axes.items():
            if not info["meta"]:
                continue
            changed = False
            t = sm.self_stores.get("mat", ("self", "mat"))
            for l in leaves(t):
                if is_term(l, "np"):
                    src, steps = unwrap_chain(l, l[1])
                    for s in steps:
                        ax = s[2]
                        if is_term(ax, "const") and info["axis"] is not None and (
                                ax[1] == info["axis"] or (info["square_const"] and ax[1] in info["square_const"])):
                            changed = True
                        if is_term(ax, "axisof") and ax[1] == info["square"]:
                            changed = True
                elif is_term(l, "block"):
                    changed = changed or (info["square"] is not None)
            tg = sm.self_stores.get(info["grp"], ("self", info["grp"]))
            if tg != ("self", info["grp"]):
                changed = True
            if changed:
                check_reset(rep, construct, sm, info, A, where(f))


# ---------------------------------------------------------------------- genotyping protocols (R7)
def check_genotyping(prog, rep):
    for mod, cname in (("pybrops.breed.prot.gt.DenseMaskedPhasedGenotyping", "DenseMaskedPhasedGenotyping"),
                       ("pybrops.breed.prot.gt.DenseMaskedUnphasedGenotyping", "DenseMaskedUnphasedGenotyping"),
                       ("pybrops.breed.prot.gt.DenseUnphasedGenotyping", "DenseUnphasedGenotyping")):
        c = prog.get_class(cname, mod)
        f = prog.own_method(c, "genotype")
        rep.saw(f)
        construct = f.qualname
        # constructor call(s) inside genotype(): label keywords forwarded by name (modulo masking)
        ctor = [n for n in walk_no_nested(f.node) if isinstance(n, ast.Call) and isinstance(prog.resolve_expr(f.module, n.func), ClassInfo)
                and prog.is_subclass(prog.resolve_expr(f.module, n.func), "DenseMatrix")]
        if len(ctor) != 1:
            rep.unrec("R7-ctor", construct, "expected one matrix construction, found %d" % len(ctor))
            continue
        kws, _ = kwargs_of(ctor[0])
        # local definitions:  name -> expr (last simple assignment, flattening `x = a if c else b`)
        defs = {}
        for n in walk_no_nested(f.node):
            if isinstance(n, ast.Assign) and len(n.targets) == 1 and isinstance(n.targets[0], ast.Name):
                defs.setdefault(n.targets[0].id, []).append(n.value)
        good = True
        for k, v in kws.items():
            if k == "mat":
                continue
            srcs = _label_sources(v, defs, 0)
            names = {s for s in srcs if s is not None}
            if names == {k}:
                continue
            if None in srcs and not names:
                if k == "ploidy" or isinstance(v, ast.Constant):
                    continue
                rep.unrec("R7-ctor", construct, "keyword %s=%s not modelled" % (k, dump(v)[:50]))
                good = False
            elif names - {k}:
                rep.violate("R7-ctor", construct, "label %s of the genotyped matrix is taken from %s" % (k, ", ".join(sorted(names - {k}))),
                            where(f, ctor[0]), "pgmat.%s" % k, dump(v)[:50])
                good = False
        if good:
            rep.ok("R7-ctor", construct, "all %d label keywords are the same-named labels of the input (masked where a mask applies)" % (len(kws) - 1))
        # post-construction group metadata: copied by name, or recomputed from the same mask
        for n in walk_no_nested(f.node):
            if isinstance(n, ast.Assign) and len(n.targets) == 1 and isinstance(n.targets[0], ast.Attribute) \
                    and isinstance(n.targets[0].value, ast.Name) and n.targets[0].value.id != "self":
                tgt = n.targets[0].attr
                srcs = _label_sources(n.value, defs, 0)
                names = {s for s in srcs if s is not None}
                if names and names != {tgt} and not tgt.endswith(("_stix", "_spix", "_len")):
                    rep.violate("R7-ctor", construct, "%s of the result is taken from %s" % (tgt, ", ".join(sorted(names))), where(f, n))
                elif names == {tgt}:
                    rep.ok("R7-ctor", construct + "#" + tgt, "copied by name")
        check_mask_regroup(prog, rep, f)
        check_none_contradiction(prog, rep, f)


def _label_sources(e, defs, depth):
    """set of attribute names `<obj>.<attr>` a label expression is derived from (None = something else)"""
    if depth > 6:
        return {None}
    if isinstance(e, ast.Attribute) and isinstance(e.value, ast.Name):
        return {strip_us(e.attr)}
    if isinstance(e, ast.Name):
        if e.id in defs:
            out = set()
            for v in defs[e.id]:
                if isinstance(v, ast.Name) and v.id == e.id:
                    continue
                out |= _label_sources(v, {k: x for k, x in defs.items() if k != e.id}, depth + 1)
            return out or {None}
        return {None}
    if isinstance(e, ast.Subscript):
        return _label_sources(e.value, defs, depth + 1)
    if isinstance(e, ast.IfExp):
        return (_label_sources(e.body, defs, depth + 1) | _label_sources(e.orelse, defs, depth + 1)) - ({None} if True else set())
    if isinstance(e, ast.Constant):
        return set() if e.value is None else {None}
    if isinstance(e, ast.Call):
        d = dump(e.func)
        if d in ("copy.copy", "copy.deepcopy", "numpy.copy") and e.args:
            return _label_sources(e.args[0], defs, depth + 1)
        if isinstance(e.func, ast.Attribute) and e.func.attr in ("copy",):
            return _label_sources(e.func.value, defs, depth + 1)
        return {None}
    return {None}


def check_none_contradiction(prog, rep, f):
    """
    R8 (Engler contradiction): a local that the function itself tests against None on one path is used as an array
    (numpy call argument, index, ~x, x[...]) on another path that no `is not None` test dominates.
    """
    tested = set()
    for n in walk_no_nested(f.node):
        if isinstance(n, ast.Compare) and len(n.ops) == 1 and isinstance(n.ops[0], (ast.Is, ast.IsNot)) \
                and isinstance(n.left, ast.Name) and isinstance(n.comparators[0], ast.Constant) and n.comparators[0].value is None:
            tested.add(n.left.id)
    if not tested:
        return
    parents = {}
    for n in ast.walk(f.node):
        for ch in ast.iter_child_nodes(n):
            parents[ch] = n

    def guarded(node, name):
        cur = node
        while cur in parents:
            par = parents[cur]
            if isinstance(par, (ast.If, ast.IfExp)):
                t = par.test
                pol = None
                conj = t.values if isinstance(t, ast.BoolOp) and isinstance(t.op, ast.And) else [t]
                for c in conj:
                    if isinstance(c, ast.Compare) and len(c.ops) == 1 and isinstance(c.left, ast.Name) and c.left.id == name \
                            and isinstance(c.comparators[0], ast.Constant) and c.comparators[0].value is None:
                        pol = isinstance(c.ops[0], ast.IsNot)
                in_body = (cur in par.body) if isinstance(par, ast.If) else (cur is par.body)
                in_else = (cur in par.orelse) if isinstance(par, ast.If) else (cur is par.orelse)
                if pol is True and in_body:
                    return True
                if pol is False and in_else and not isinstance(t, ast.BoolOp):
                    return True
            # early exit earlier in the same block: `if name is None: raise/return`
            body = getattr(par, "body", None)
            if isinstance(body, list) and cur in body:
                for st in body[:body.index(cur)]:
                    if isinstance(st, ast.If) and isinstance(st.test, ast.Compare) and isinstance(st.test.left, ast.Name) \
                            and st.test.left.id == name and isinstance(st.test.ops[0], ast.Is) and st.body \
                            and isinstance(st.body[-1], (ast.Raise, ast.Return)):
                        return True
            cur = par
        return False

    n_use = 0
    for n in walk_no_nested(f.node):
        uses = []
        if isinstance(n, ast.Call):
            d = prog.dotted(f.module, n.func)
            if d is not None and d.startswith("numpy.") and d.split(".")[-1] not in ("asarray", "array", "copy"):
                uses = [a for a in n.args if isinstance(a, ast.Name) and a.id in tested]
        elif isinstance(n, ast.Subscript):
            idx = n.slice.elts if isinstance(n.slice, ast.Tuple) else [n.slice]
            uses = [a for a in idx if isinstance(a, ast.Name) and a.id in tested]
            if isinstance(n.value, ast.Name) and n.value.id in tested and isinstance(n.ctx, ast.Load):
                uses.append(n.value)
        elif isinstance(n, ast.UnaryOp) and isinstance(n.op, ast.Invert) and isinstance(n.operand, ast.Name) and n.operand.id in tested:
            uses = [n.operand]
        for u in uses:
            # the variable must still hold the possibly-None value: skip names rebound from a non-None construction
            n_use += 1
            if guarded(u, u.id):
                rep.ok("R8-none", f.qualname + "#" + u.id, "array use of %s is dominated by an `is not None` test" % u.id)
            else:
                rep.violate("R8-none", f.qualname, "%s is tested for None on one path but used as an array without that test: %s"
                            % (u.id, dump(parents.get(u, u))[:60]), where(f, u), "use guarded by `%s is not None`" % u.id, dump(parents.get(u, u))[:60])


def check_mask_regroup(prog, rep, f):
    """
    masked genotyping: the chromosome group metadata of the result is recomputed from the SAME mask that was
    applied to the data: counts of retained indices in the half-open ranges [stix, spix) (strict `<` on spix,
    `>=`/`<=` on stix), cumulative starts, stop = start + len.
    """
    construct = f.qualname
    src = [n for n in walk_no_nested(f.node) if isinstance(n, ast.Compare)]
    # comparisons of the retained-index vector against stix/spix
    rel = []
    for c in src:
        names = {x.id for x in ast.walk(c) if isinstance(x, ast.Name)}
        if ("stix" in names or "spix" in names) and len(c.ops) == 1:
            rel.append(c)
    # the recount may also be written without comparisons (numpy.add.reduceat(<mask>, starts), bincount, cumsum differences ...): what matters is WHICH mask feeds the
    # statements that produce the group lengths
    len_stores = [st for st in walk_no_nested(f.node) if isinstance(st, ast.Assign) and any("chrgrp_len" in dump(t) or "grp_len" in dump(t) for t in st.targets)
                  and isinstance(st.value, ast.Call)]
    if not rel and not len_stores:
        return
    # the retained-index vector must come from the mask the fields were subset with
    applied = set()
    for n in walk_no_nested(f.node):
        if isinstance(n, ast.Assign) and isinstance(n.value, ast.Subscript) and isinstance(n.targets[0], ast.Name):
            sl = n.value.slice
            last = sl.elts[-1] if isinstance(sl, ast.Tuple) else sl
            base = n.value.value
            if isinstance(last, ast.Name) and isinstance(base, ast.Name) and base.id == n.targets[0].id and (base.id.startswith("vrnt_") or base.id == "mat"):
                applied.add(last.id)
    counted = set()
    for n in walk_no_nested(f.node):
        if isinstance(n, ast.Call) and isinstance(n.func, ast.Attribute) and n.func.attr == "flatnonzero" and n.args:
            counted.add(dump(n.args[0]))
    for st in len_stores:
        if dump(st.value.func) in ("numpy.copy", "copy.copy"):
            continue
        for x in ast.walk(st.value):
            if (isinstance(x, ast.Name) and x.id in applied) or (isinstance(x, ast.Attribute) and x.attr in ("vrnt_mask", "mask", "_vrnt_mask")):
                counted.add(dump(x))
    if len(applied) == 1 and counted and counted != applied:
        # the recount may name the mask by the expression the applied local was bound from: the same only if that local is never rebound
        a_ = sorted(applied)[0]
        adefs = [dump(n.value) for n in walk_no_nested(f.node) if isinstance(n, ast.Assign) and any(isinstance(t, ast.Name) and t.id == a_ for t in n.targets)]
        if len(counted) == 1 and adefs and all(d == sorted(counted)[0] for d in adefs):
            counted = set(applied)
        elif not (len(counted) == 1 and any(sorted(counted)[0] in d or d == sorted(counted)[0] for d in adefs)) and not all(c.isidentifier() for c in counted):
            rep.unrec("R7-ctor", construct, "group recount from %s: relation to the applied mask %s not traced" % (sorted(counted), a_))
            counted = set()
    if len(applied) == 1 and not counted and rel:
        rep.unrec("R7-ctor", construct + "#recount-mask", "retained-index vector of the group recount not found (no flatnonzero(<mask>))")
    if len(applied) == 1 and counted:
        if counted == applied:
            rep.ok("R7-ctor", construct + "#recount-mask", "group metadata recounted from %s, the mask the data and labels were subset with" % sorted(applied)[0])
        else:
            rep.violate("R7-ctor", construct, "data and labels are subset with %s but the chromosome groups are recounted from %s: the reported partition does not describe "
                        "the retained variants whenever the two differ (e.g. an inverted mask)" % (sorted(applied)[0], sorted(counted)[0]), where(f),
                        "numpy.flatnonzero(%s)" % sorted(applied)[0], "numpy.flatnonzero(%s)" % sorted(counted)[0])
    elif len(applied) > 1:
        rep.violate("R7-ctor", construct, "fields are subset with different masks: %s" % sorted(applied), where(f))
    for c in rel:
        l, r, op = c.left, c.comparators[0], c.ops[0]
        ln = l.id if isinstance(l, ast.Name) else None
        rn = r.id if isinstance(r, ast.Name) else None
        # normalise to (index OP bound)
        if ln in ("stix", "spix"):
            bound, opn = ln, {ast.Lt: ast.Gt, ast.LtE: ast.GtE, ast.Gt: ast.Lt, ast.GtE: ast.LtE}.get(type(op))
        elif rn in ("stix", "spix"):
            bound, opn = rn, type(op)
        else:
            rep.unrec("R7-ctor", construct, "group recount comparison not modelled: %s" % dump(c))
            continue
        if bound == "spix":
            if opn is ast.Lt:
                rep.ok("R7-ctor", construct + "#recount-spix", "retained index < spix (stop index exclusive)")
            elif opn is ast.LtE:
                rep.violate("R7-ctor", construct, "group recount includes the stop index (index <= spix): a retained first marker of the next "
                            "chromosome is counted twice", where(f, c), "index < spix", dump(c))
            else:
                rep.unrec("R7-ctor", construct, "spix comparison %s not modelled" % dump(c))
        else:
            if opn is ast.GtE:
                rep.ok("R7-ctor", construct + "#recount-stix", "retained index >= stix (start index inclusive)")
            elif opn is ast.Gt:
                rep.violate("R7-ctor", construct, "group recount excludes the start index (index > stix): a retained first marker of a "
                            "chromosome is not counted", where(f, c), "index >= stix", dump(c))
            else:
                rep.unrec("R7-ctor", construct, "stix comparison %s not modelled" % dump(c))


# ---------------------------------------------------------------------- driver
def analysable_classes(prog, tier):
    out = []
    for n in QUICK_CLASSES:
        c = prog.find_class(n)
        if c is None:
            raise AnalysisError("anchor class vanished: %s" % n)
        out.append(c)
    if tier == "quick":
        return out
    seen = {c.name for c in out}
    for c in prog.subclasses("DenseMatrix"):
        if prog.mro(c) is None or c.name in seen:
            continue
        # the variance / covariance / progeny-mean families (model.vmat, model.pcvmat, model.pmebvmat) have axis
        # properties computed from the data (square axes = all but the last); their structural methods are the
        # inherited ones analysed on DenseSquareTaxaTraitMatrix / DenseSquareTaxaSquareTraitMatrix above
        if c.module.name.startswith(("pybrops.model.vmat", "pybrops.model.pcvmat", "pybrops.model.pmebvmat")):
            continue
        if c.name in ("DenseScaledSquareTaxaTraitMatrix", "DenseSquare2TaxaTraitMatrix"):
            continue
        # DenseGeneticMappableMatrix.__init__ contains `vrnt_mask = vrnt_mask ** kwargs` (a missing comma): the class
        # cannot be constructed directly at all; it is an intermediate base, analysed through its concrete subclasses
        if c.name == "DenseGeneticMappableMatrix":
            continue
        out.append(c)
    return out


def run(prog, rep, tier):
    rep.explanation = ("Field-flow analysis: each structural method is evaluated symbolically for every CONCRETE matrix class "
                       "(super()/self calls inlined along that class's C3 MRO, **kwargs pass-through tracked) into a summary "
                       "field -> (numpy primitive, source field, index operand, axis, incoming values); rules compare the summaries "
                       "across the parallel fields of an axis, across mutating/non-mutating twins, against the constructor, and "
                       "check group-metadata typestate and axis dispatch. Holds for all inputs and all operation histories because "
                       "every history is a composition of these methods.")
    rep.not_decided = ["what numpy does for exotic index objects; sorting stability",
                       "truth of is_grouped after user writes through public setters",
                       "classes whose axis constants do not fold statically are analysed in thorough tier only"]
    rep.floor("R8-none", 10)
    floors = {"R1-fields": 120, "R2-square": 10, "R3-twins": 30, "R4-purity": 60, "R5-typestate": 60, "R6-dispatch": 100, "R7-ctor": 60, "R9-sortkeys": 3}

    for r, n in floors.items():
        rep.floor(r, n)
    classes = analysable_classes(prog, tier)
    rep.extra["classes_analysed"] = [c.name for c in classes]
    rep.extra["classes_without_mro"] = list(prog.classes_without_mro)
    n_methods = 0
    for K in classes:
        ai = AxisInfo(prog, K)
        if not ai.axes:
            if K.name in ("DensePhasedMatrix",):
                check_dispatch(prog, rep, K, ai)
            continue
        sig_by_op = {}
        done = set()
        for A in ai.axes:
            for op in list(NONMUT) + list(MUT):
                s = check_op(prog, rep, K, ai, A, op, tier)
                done.add("%s_%s" % (op, A))
                if s is not None:
                    n_methods += 1
                    sig_by_op[(op, A)] = s
            check_sort_group(prog, rep, K, ai, A)
            done.update({"sort_" + A, "group_" + A, "ungroup_" + A})
            # R3 twins
            for m, nm in TWINS.items():
                a, b = sig_by_op.get((m, A)), sig_by_op.get((nm, A))
                if a is None or b is None:
                    continue
                construct = "%s.%s_%s" % (K.qualname, m, A)
                allf = ["mat"] + ai.axes[A]["fields"]
                if all(f in a and f in b for f in allf):
                    diff = [f for f in allf if a[f] != b[f]]
                    if diff:
                        rep.violate("R3-twins", construct, "differs from %s_%s in field(s) %s" % (nm, A, ", ".join(diff)), None,
                                    str(b[diff[0]]), str(a[diff[0]]))
                    else:
                        rep.ok("R3-twins", construct, "same field signatures as %s_%s" % (nm, A))
        check_dispatch(prog, rep, K, ai)
        check_ctor(prog, rep, K, ai)
        check_all_mutators(prog, rep, K, ai, done)
    rep.extra["op_methods_evaluated"] = n_methods
    check_genotyping(prog, rep)
    wire(prog, rep, "C03", 10, 480)
