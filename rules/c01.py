"""
C01  Progeny inherit only their designated parents' haplotypes (Mendelian fidelity)
(the meiosis template checked here is shared with C02 and C10)

  R1-provenance  every store into the gamete is geno[phase, s, <same slice>] of exactly the selected parent
                 "each chromosome copy ... is a left-to-right mosaic of the two chromosome copies of exactly the parent"
  R2-tiling      cursor invariant: columns [0:stix) written; each segment starts at the frontier; the tail closes it
  R3-crossover   the source copy changes only at indices where rnd < xoprob (strict): "only at marker intervals whose
                 crossover probability is non-zero"
  R4-stacking    mat_mate stacks [female gamete, male gamete] from (fgeno,fsel)/(mgeno,msel); mat_dh stacks one gamete twice
                 "doubled-haploid progeny are homozygous at every locus"
  R5-pedigree    abstract evaluation of each mate() into a pedigree term, compared with the table transcribed from
                 the protocols' own documentation "the parent (or intermediate hybrid) that the cross configuration assigns"
  R6-alignment   cross-id sequences of the two selections of every mat_mate call, of the final genotype rows and of the
                 family labels agree "number of progeny, their order ... and family labels follow the cross configuration
                 and the per-cross mating and progeny counts exactly"
  R7-names       names from range(counter, counter + rows of result), counters advance by exactly the numbers produced
  R8-metadata    "all marker metadata are carried over unaltered" (keyword = same-named attribute of pgmat)
  R9-parents     "parental genotypes ... unaltered": no store through pgmat / geno
  R10-siblings   core/util/mate.py agrees with breed/prot/mate/util.py function by function
"""
import ast

from sa.ctorflow import wire

from sa.astutil import dump, where, kwargs_of, walk_no_nested, field_of, is_const, same_expr, is_guard, is_diagnostic
from sa.model import AnalysisError, body_nodoc

UTIL = "pybrops.breed.prot.mate.util"
CORE = "pybrops.core.util.mate"
U01 = {"uniform", "random", "random_sample"}
PROTOCOLS = ["SelfCross", "TwoWayCross", "TwoWayDHCross", "ThreeWayCross", "ThreeWayDHCross", "FourWayCross", "FourWayDHCross"]

# B.1 reference pedigree terms (column roles from the protocols' docstrings):  P<k> = parent in xconfig column k
PEDIGREE = {
    "SelfCross": "Self^n(Mate(P0,P0))",
    "TwoWayCross": "Self^n(Mate(P0,P1))",
    "TwoWayDHCross": "DH(Self^n(Mate(P0,P1)))",
    "ThreeWayCross": "Self^n(Mate(P0,Mate(P1,P2)))",
    "ThreeWayDHCross": "DH(Self^n(Mate(P0,Mate(P1,P2))))",
    "FourWayCross": "Self^n(Mate(Mate(P2,P3),Mate(P0,P1)))",
    "FourWayDHCross": "DH(Self^n(Mate(Mate(P2,P3),Mate(P0,P1))))",
}


# ============================================================================================ meiosis template
class Meiosis:
    """facts extracted from a meiosis function; filled by check_meiosis"""


def _single_defs(fnode):
    defs = {}
    for n in walk_no_nested(fnode):
        if isinstance(n, ast.Assign) and len(n.targets) == 1 and isinstance(n.targets[0], ast.Name):
            defs.setdefault(n.targets[0].id, []).append(n.value)
    return defs


def _resolve(e, defs, depth=0):
    if isinstance(e, ast.Name) and e.id in defs and len(defs[e.id]) == 1 and depth < 4:
        return _resolve(defs[e.id][0], defs, depth + 1)
    return e


def _is_len_of(e, name):
    if isinstance(e, ast.Call) and isinstance(e.func, ast.Name) and e.func.id == "len" and len(e.args) == 1 \
            and isinstance(e.args[0], ast.Name) and e.args[0].id == name:
        return True
    # name.shape[0]
    if isinstance(e, ast.Subscript) and isinstance(e.value, ast.Attribute) and e.value.attr == "shape" \
            and isinstance(e.value.value, ast.Name) and e.value.value.id == name and is_const(e.slice, 0):
        return True
    return False


def check_meiosis(prog, rep, f, prop="C01"):
    """Template check of mat_meiosis / dense_meiosis. Emits R1,R2,R3 (+ C02 facts). Returns True if fully discharged."""
    construct = f.qualname
    rep.saw(f)
    ps = f.params()
    if len(ps) < 4:
        rep.unrec("R1-provenance", construct, "signature not (geno, sel, xoprob, rng)")
        return False
    geno, sel, xoprob, rng = ps[:4]
    defs = _single_defs(f.node)
    body = body_nodoc(f.node)
    ok = True

    def V(rule, detail, node=None, exp=None, found=None):
        nonlocal ok
        ok = False
        rep.violate(rule, construct, detail, where(f, node), exp, found)

    def U(rule, why):
        nonlocal ok
        ok = False
        rep.unrec(rule, construct, why)

    # ---- allocation and uniforms
    ret = [s for s in body if isinstance(s, ast.Return)]
    if len(ret) != 1 or not isinstance(ret[0].value, ast.Name):
        U("R1-provenance", "function does not end in `return <gamete array>`")
        return False
    G = ret[0].value.id
    galloc = defs.get(G, [])
    if len(galloc) != 1 or not (isinstance(galloc[0], ast.Call) and prog.dotted(f.module, galloc[0].func) in ("numpy.empty", "numpy.zeros")):
        U("R2-tiling", "gamete array is not a single numpy.empty/zeros allocation")
        return False
    shape = _resolve(galloc[0].args[0] if galloc[0].args else kwargs_of(galloc[0])[0].get("shape"), defs)
    if isinstance(shape, ast.Tuple) and len(shape.elts) == 2:
        # extents may be named locals (nsel = len(sel)): follow them
        shape = ast.Tuple(elts=[_resolve(x, defs) for x in shape.elts], ctx=ast.Load())
    if not (isinstance(shape, ast.Tuple) and len(shape.elts) == 2 and _is_len_of(shape.elts[0], sel) and _is_len_of(shape.elts[1], xoprob)):
        known = isinstance(shape, ast.Tuple) and len(shape.elts) == 2 and all(
            _is_len_of(x, sel) or _is_len_of(x, xoprob) or _is_len_of(x, geno) or (isinstance(x, ast.Subscript) and "shape" in dump(x)) or isinstance(x, ast.Constant) for x in shape.elts)
        if known:
            V("R6-alignment", "gamete array has shape (%s), not (len(sel), len(xoprob)): one gamete per selected parent, one column per marker"
              % dump(shape), galloc[0], "(len(sel), len(xoprob))", dump(shape))
        else:
            U("R2-tiling", "gamete shape not modelled: %s" % dump(shape)[:60])
        return False
    # uniform draw
    draws = []
    for name, vals in defs.items():
        for v in vals:
            if isinstance(v, ast.Call) and isinstance(v.func, ast.Attribute) and isinstance(v.func.value, ast.Name) \
                    and v.func.value.id == rng:
                draws.append((name, v))
    other_rng = [n for n in walk_no_nested(f.node) if isinstance(n, ast.Call) and isinstance(n.func, ast.Attribute)
                 and n.func.attr in U01 | {"choice", "integers", "randint", "binomial", "normal"}
                 and not (isinstance(n.func.value, ast.Name) and n.func.value.id == rng)]
    if other_rng:
        V("C02-R1-uniforms", "random numbers are drawn from %s, not from the supplied generator" % dump(other_rng[0].func.value), other_rng[0],
          "rng.uniform(0, 1, shape)", dump(other_rng[0])[:50])
    if len(draws) != 1:
        U("C02-R1-uniforms", "expected exactly one draw from rng, found %d" % len(draws))
        return False
    R, dcall = draws[0]
    if dcall.func.attr not in U01:
        V("C02-R1-uniforms", "crossover numbers are drawn with rng.%s, not a U[0,1) primitive" % dcall.func.attr, dcall,
          "uniform(0,1,shape) / random(shape)", dump(dcall)[:50])
        return False
    dargs = list(dcall.args)
    kws, _ = kwargs_of(dcall)
    if dcall.func.attr == "uniform":
        lo = dargs[0] if len(dargs) > 0 else kws.get("low")
        hi = dargs[1] if len(dargs) > 1 else kws.get("high")
        sz = dargs[2] if len(dargs) > 2 else kws.get("size")
        if not (lo is not None and hi is not None and is_const(lo, 0) and is_const(hi, 1)):
            V("C02-R1-uniforms", "uniform numbers are drawn on [%s, %s), not [0, 1)" % (dump(lo) if lo is not None else "?", dump(hi) if hi is not None else "?"),
              dcall, "uniform(0, 1, shape)", dump(dcall)[:50])
    else:
        sz = dargs[0] if dargs else kws.get("size")
    szr = _resolve(sz, defs) if sz is not None else None
    if isinstance(szr, ast.Tuple):
        szr = ast.Tuple(elts=[_resolve(x, defs) for x in szr.elts], ctx=ast.Load())
    if not (isinstance(szr, ast.Tuple) and len(szr.elts) == 2 and _is_len_of(szr.elts[0], sel) and _is_len_of(szr.elts[1], xoprob)):
        V("C02-R1-uniforms", "uniform sample has shape %s: one independent number per (gamete, marker) needs (len(sel), len(xoprob))"
          % (dump(szr) if szr is not None else "<scalar>"), dcall, "(len(sel), len(xoprob))", dump(szr) if szr is not None else "none")
    else:
        rep.ok("C02-R1-uniforms", construct, "one U[0,1) number per (gamete, marker): %s.%s(..., (len(%s), len(%s))) from the supplied generator"
               % (rng, dcall.func.attr, sel, xoprob))
    # ---- outer loop
    outer = [s for s in body if isinstance(s, ast.For)]
    if len(outer) != 1:
        U("R2-tiling", "expected one loop over the selected parents")
        return False
    outer = outer[0]
    i = s = None
    it = outer.iter
    if isinstance(it, ast.Call) and isinstance(it.func, ast.Name) and it.func.id == "enumerate" and len(it.args) == 1 \
            and isinstance(it.args[0], ast.Name) and it.args[0].id == sel and isinstance(outer.target, ast.Tuple) and len(outer.target.elts) == 2:
        i, s = outer.target.elts[0].id, outer.target.elts[1].id
    else:
        U("R2-tiling", "outer loop header not `for i, s in enumerate(sel)`: %s" % dump(it)[:50])
        return False
    ob = outer.body
    inner = [x for x in ob if isinstance(x, ast.For)]
    if len(inner) != 1:
        # loop-free formulation: the copy carried by marker j is the parity of the number of crossover indices AT OR BEFORE j (the segment loop switches at the
        # crossover index itself) = searchsorted(xoix, j, side='right') & 1; side='left' (numpy's default) counts strictly-before and realises every crossover one
        # marker late - in an interval whose own crossover probability may be zero
        ss = [n for st_ in ob for n in ast.walk(st_) if isinstance(n, ast.Call) and prog.dotted(f.module, n.func) == "numpy.searchsorted"]
        if not inner and len(ss) == 1:
            kw_, _ = kwargs_of(ss[0])
            side = ss[0].args[2] if len(ss[0].args) > 2 else kw_.get("side")
            if side is None or (isinstance(side, ast.Constant) and side.value == "left"):
                V("R2-tiling", "the source copy of marker j is the parity of %s, which counts the crossover indices strictly BEFORE j (side='left'): every crossover is realised one "
                  "marker late, so the copy can change at an interval whose crossover probability is zero" % dump(ss[0])[:60], ss[0], "searchsorted(..., side='right')",
                  dump(ss[0])[:60])
                return False
        U("R2-tiling", "expected one loop over the crossover indices")
        return False
    inner = inner[0]
    pre = ob[:ob.index(inner)]
    post = ob[ob.index(inner) + 1:]
    if not (isinstance(inner.iter, ast.Name) and isinstance(inner.target, ast.Name)):
        U("R2-tiling", "inner loop header not `for spix in xoix`")
        return False
    X, spix = inner.iter.id, inner.target.id
    # ---- pre: xoix, phase, cursor
    pre_defs = {}
    for st in pre:
        if isinstance(st, ast.Assign) and len(st.targets) == 1 and isinstance(st.targets[0], ast.Name):
            pre_defs[st.targets[0].id] = st
        else:
            U("R2-tiling", "statement before the segment loop not modelled: %s" % dump(st)[:50])
            return False
    if X not in pre_defs:
        U("R3-crossover", "crossover index array is not computed inside the per-gamete loop")
        return False
    xv = pre_defs[X].value
    cmpnode = None
    if isinstance(xv, ast.Call) and prog.dotted(f.module, xv.func) == "numpy.flatnonzero" and len(xv.args) == 1:
        cmpnode = xv.args[0]
    elif isinstance(xv, ast.Subscript) and isinstance(xv.value, ast.Call) and prog.dotted(f.module, xv.value.func) in ("numpy.nonzero", "numpy.where") \
            and is_const(xv.slice, 0) and len(xv.value.args) == 1:
        cmpnode = xv.value.args[0]
    if cmpnode is None:
        U("R3-crossover", "crossover indices not numpy.flatnonzero(<comparison>): %s" % dump(xv)[:60])
        return False
    left = right = op = None
    if isinstance(cmpnode, ast.Compare) and len(cmpnode.ops) == 1:
        left, right, op = cmpnode.left, cmpnode.comparators[0], type(cmpnode.ops[0])
    elif isinstance(cmpnode, ast.Call) and prog.dotted(f.module, cmpnode.func) in ("numpy.less", "numpy.greater", "numpy.less_equal", "numpy.greater_equal") \
            and len(cmpnode.args) == 2:
        left, right = cmpnode.args
        op = {"less": ast.Lt, "greater": ast.Gt, "less_equal": ast.LtE, "greater_equal": ast.GtE}[prog.dotted(f.module, cmpnode.func).split(".")[1]]
    else:
        U("R3-crossover", "crossover test not a comparison: %s" % dump(cmpnode)[:60])
        return False
    # normalise to  rndrow OP xoprob
    def is_rnd_row(e):
        return isinstance(e, ast.Subscript) and isinstance(e.value, ast.Name) and e.value.id == R

    if is_rnd_row(right) and not is_rnd_row(left):
        left, right = right, left
        op = {ast.Lt: ast.Gt, ast.Gt: ast.Lt, ast.LtE: ast.GtE, ast.GtE: ast.LtE}.get(op, op)
    if not is_rnd_row(left):
        U("R3-crossover", "comparison does not involve a row of the uniform sample: %s" % dump(cmpnode)[:60])
        return False
    # row index
    ridx = left.slice
    if isinstance(ridx, ast.Tuple):
        if len(ridx.elts) == 2 and isinstance(ridx.elts[1], ast.Slice) and ridx.elts[1].lower is None and ridx.elts[1].upper is None:
            ridx = ridx.elts[0]
        else:
            V("C02-R2-alignment", "the uniform row is sliced before the comparison (%s): marker j would be governed by another marker's number"
              % dump(left), left, "%s[%s] < %s" % (R, i, xoprob), dump(left))
            ridx = ridx.elts[0]
    if not (isinstance(ridx, ast.Name) and ridx.id == i):
        V("C02-R1-uniforms", "gamete %s uses row %s of the uniform sample: rows are reused across gametes" % (i, dump(ridx)), left,
          "%s[%s]" % (R, i), dump(left))
    if not (isinstance(right, ast.Name) and right.id == xoprob):
        if any(isinstance(n, ast.Name) and n.id == xoprob for n in ast.walk(right)):
            V("C02-R2-alignment", "crossover probabilities are shifted/sliced in the comparison (%s): interval j is governed by another marker's probability"
              % dump(right), right, xoprob, dump(right))
        else:
            U("R3-crossover", "comparison right-hand side not the crossover probability vector: %s" % dump(right)[:40])
            return False
    if op is ast.Lt:
        rep.ok("R3-crossover", construct, "copy changes only where %s[%s] < %s (strict: probability 0 never recombines)" % (R, i, xoprob))
    elif op is ast.LtE:
        V("R3-crossover", "crossover test is `<=`: an interval with crossover probability exactly 0 can recombine (uniform on [0,1) can be 0)",
          cmpnode, "%s[%s] < %s" % (R, i, xoprob), dump(cmpnode))
    elif op in (ast.Gt, ast.GtE):
        V("R3-crossover", "crossover test is inverted (%s): the copy changes where the probability is NOT exceeded" % dump(cmpnode), cmpnode,
          "%s[%s] < %s" % (R, i, xoprob), dump(cmpnode))
    else:
        U("R3-crossover", "comparison operator not modelled")
        return False
    # phase / cursor init
    cand = [n for n in pre_defs if n != X]
    if len(cand) != 2:
        U("R2-tiling", "expected exactly phase and cursor initialisations before the segment loop, found %s" % cand)
        return False
    # identify by use: cursor appears as slice lower bound; phase as first index of geno
    ib = list(inner.body)
    # early-exit guards `if <cond>: continue` in front of the segment step: every path that skips the step also skips the toggle
    while ib and isinstance(ib[0], ast.If) and len(ib[0].body) == 1 and isinstance(ib[0].body[0], ast.Continue) and not ib[0].orelse:
        g = ib.pop(0)
        V("C02-R3-toggle", "a crossover index is skipped by `if %s: continue` before the phase toggle: the chromosome copy is not switched at that crossover "
          "(e.g. a crossover drawn at marker 0 no longer randomises the starting copy)" % dump(g.test), g, "toggle on every crossover index", "continue")
    stores = [st for st in ib if isinstance(st, ast.Assign) and isinstance(st.targets[0], ast.Subscript)]
    if len(stores) != 1 or len(ib) != 3:
        U("R2-tiling", "segment loop body is not (copy, advance cursor, toggle phase)")
        return False
    st0 = stores[0]

    def seg(t, nidx):
        """Subscript G[i, a:b] / geno[ph, s, a:b] -> (index names..., lower, upper)"""
        if (nidx == 1 and isinstance(t, ast.Subscript) and isinstance(t.slice, ast.Slice) and isinstance(t.value, ast.Subscript) and isinstance(t.value.value, ast.Name)
                and isinstance(t.value.slice, ast.Name)):
            # G[i][a:b]: a slice of the row view is the same storage as G[i, a:b] (G is the numpy allocation checked above, i an integer index)
            t = ast.Subscript(value=t.value.value, slice=ast.Tuple(elts=[t.value.slice, t.slice], ctx=ast.Load()), ctx=t.ctx)
        if not (isinstance(t, ast.Subscript) and isinstance(t.value, ast.Name) and isinstance(t.slice, ast.Tuple) and len(t.slice.elts) == nidx + 1):
            return None
        *idx, sl = t.slice.elts
        if not isinstance(sl, ast.Slice) or sl.step is not None:
            return None
        return t.value.id, idx, sl.lower, sl.upper

    d = seg(st0.targets[0], 1)
    srcs = seg(st0.value, 2)
    if d is None or srcs is None:
        U("R1-provenance", "segment copy is not gamete[i, a:b] = geno[phase, s, a:b]: %s" % dump(st0)[:70])
        return False
    if d[0] != G:
        U("R1-provenance", "segment store does not target the gamete array")
        return False
    if srcs[0] != geno:
        V("R1-provenance", "segment is copied from %s, not from the parental genotype array %s" % (srcs[0], geno), st0, geno, srcs[0])
        return False
    cursor = d[2].id if isinstance(d[2], ast.Name) else None
    phase = srcs[1][0].id if isinstance(srcs[1][0], ast.Name) else None
    if cursor is None or phase is None or {cursor, phase} != set(cand):
        U("R2-tiling", "cursor/phase variables not identified")
        return False

    def check_copy(stx, dd, ss, tail):
        good = True
        if not (isinstance(dd[1][0], ast.Name) and dd[1][0].id == i):
            V("R1-provenance", "segment is written to gamete row %s, not to the row of the current selection (%s)" % (dump(dd[1][0]), i), stx, i, dump(dd[1][0]))
            good = False
        if not (isinstance(ss[1][1], ast.Name) and ss[1][1].id == s):
            V("R1-provenance", "segment is read from parent %s, not from the selected parent %s" % (dump(ss[1][1]), s), stx, s, dump(ss[1][1]))
            good = False
        if not (isinstance(ss[1][0], ast.Name) and ss[1][0].id == phase):
            V("R1-provenance", "segment is read from chromosome copy %s, not from the current copy `%s`" % (dump(ss[1][0]), phase), stx, phase, dump(ss[1][0]))
            good = False
        for which, a, b in (("start", dd[2], ss[2]), ("stop", dd[3], ss[3])):
            if (a is None) != (b is None) or (a is not None and not same_expr(a, b)):
                V("R1-provenance", "source and destination slices differ in their %s (%s vs %s): alleles move to other markers"
                  % (which, dump(a) if a is not None else "", dump(b) if b is not None else ""), stx, "same slice on both sides", dump(stx)[:70])
                good = False
        lo = dd[2]
        if not (isinstance(lo, ast.Name) and lo.id == cursor):
            V("R2-tiling", "segment does not start at the frontier `%s` (starts at %s): markers are skipped or rewritten" % (cursor, dump(lo) if lo is not None else "0"),
              stx, cursor, dump(lo) if lo is not None else "0")
            good = False
        if tail:
            if dd[3] is not None and not _is_len_of(dd[3], xoprob):
                V("R2-tiling", "final segment stops at %s, not at the last marker" % dump(dd[3]), stx, "%s:" % cursor, dump(dd[3]))
                good = False
        else:
            if not (isinstance(dd[3], ast.Name) and dd[3].id == spix):
                V("R2-tiling", "segment stops at %s, not at the crossover index `%s`" % (dump(dd[3]) if dd[3] is not None else "end", spix), stx, spix,
                  dump(dd[3]) if dd[3] is not None else "")
                good = False
        return good

    g1 = check_copy(st0, d, srcs, False)
    # order inside the segment loop: copy first, then cursor := spix and phase toggle (either order)
    if ib[0] is not st0:
        V("R2-tiling", "cursor/phase are updated before the segment is copied (the segment is read from the wrong copy / start)", ib[0],
          "copy, then advance", dump(ib[0])[:40])
    upd = {}
    for stx in ib:
        if stx is st0:
            continue
        if isinstance(stx, ast.Assign) and len(stx.targets) == 1 and isinstance(stx.targets[0], ast.Name):
            upd[stx.targets[0].id] = stx
        elif isinstance(stx, ast.AugAssign) and isinstance(stx.target, ast.Name):
            upd[stx.target.id] = stx
        else:
            U("R2-tiling", "statement in segment loop not modelled: %s" % dump(stx)[:50])
            return False
    cu = upd.get(cursor)
    if cu is None:
        V("R2-tiling", "the frontier `%s` is never advanced: every segment restarts at the same marker" % cursor, inner, "%s = %s" % (cursor, spix), "absent")
    elif not (isinstance(cu, ast.Assign) and isinstance(cu.value, ast.Name) and cu.value.id == spix):
        V("R2-tiling", "frontier advanced to %s instead of the segment's stop `%s` (gap or overlap between segments)" % (dump(cu.value) if isinstance(cu, ast.Assign) else dump(cu), spix),
          cu, "%s = %s" % (cursor, spix), dump(cu))
    pu = upd.get(phase)
    toggle_ok = False
    if pu is None:
        V("C02-R3-toggle", "the chromosome copy is never switched at a crossover index", inner, "%s = 1 - %s" % (phase, phase), "absent")
    elif isinstance(pu, ast.Assign):
        v = pu.value
        forms = [
            isinstance(v, ast.BinOp) and isinstance(v.op, ast.Sub) and is_const(v.left, 1) and isinstance(v.right, ast.Name) and v.right.id == phase,
            isinstance(v, ast.BinOp) and isinstance(v.op, ast.BitXor) and ((isinstance(v.left, ast.Name) and v.left.id == phase and is_const(v.right, 1))
                                                                              or (isinstance(v.right, ast.Name) and v.right.id == phase and is_const(v.left, 1))),
            isinstance(v, ast.BinOp) and isinstance(v.op, ast.Mod) and is_const(v.right, 2) and isinstance(v.left, ast.BinOp) and isinstance(v.left.op, ast.Add)
            and {dump(v.left.left), dump(v.left.right)} == {phase, "1"},
        ]
        if any(forms):
            toggle_ok = True
        else:
            V("C02-R3-toggle", "phase update %s is not a toggle between the two copies" % dump(pu), pu, "%s = 1 - %s" % (phase, phase), dump(pu))
    else:
        if isinstance(pu.op, ast.BitXor) and is_const(pu.value, 1):
            toggle_ok = True
        else:
            V("C02-R3-toggle", "phase update %s is not a toggle between the two copies" % dump(pu), pu, "%s = 1 - %s" % (phase, phase), dump(pu))
    # initial values
    pi = pre_defs[phase].value
    ci = pre_defs[cursor].value
    if not (is_const(pi, 0) or is_const(pi, 1)):
        U("R1-provenance", "initial chromosome copy %s not a constant 0/1" % dump(pi))
    if not is_const(ci, 0):
        V("R2-tiling", "frontier starts at %s, not at marker 0" % dump(ci), pre_defs[cursor], "%s = 0" % cursor, dump(ci))
    # ---- tail
    tails = [x for x in post if isinstance(x, ast.Assign) and isinstance(x.targets[0], ast.Subscript)]
    if len(tails) != 1 or len(post) != 1:
        if not tails:
            V("R2-tiling", "markers after the last crossover index are never written (no closing segment)", outer, "%s[%s, %s:] = ..." % (G, i, cursor), "absent")
        else:
            U("R2-tiling", "statements after the segment loop not modelled")
        return False
    dt = seg(tails[0].targets[0], 1)
    stl = seg(tails[0].value, 2)
    if dt is None or stl is None or dt[0] != G or stl[0] != geno:
        U("R1-provenance", "closing segment not gamete[i, c:] = geno[phase, s, c:]: %s" % dump(tails[0])[:70])
        return False
    g2 = check_copy(tails[0], dt, stl, True)
    # ---- nothing else writes the gamete, nothing writes geno (R9)
    for n in walk_no_nested(f.node):
        if isinstance(n, (ast.Subscript, ast.Attribute)) and isinstance(n.ctx, ast.Store):
            base = n
            while isinstance(base, (ast.Subscript, ast.Attribute)):
                base = base.value
            if isinstance(base, ast.Name) and base.id in (geno, xoprob, sel):
                V("R9-parents", "%s writes into its argument %s" % (f.name, base.id), n, "arguments are read-only", dump(n)[:50])
        if isinstance(n, ast.AugAssign) and isinstance(n.target, ast.Name) and n.target.id in (geno, xoprob, sel):
            V("R9-parents", "%s updates its argument %s in place" % (f.name, n.target.id), n, "arguments are read-only", dump(n)[:50])
    if ok:
        rep.ok("R1-provenance", construct, "every store into the gamete is %s[%s, %s, a:b] with the same slice on both sides, row %s" % (geno, phase, s, i))
        rep.ok("R2-tiling", construct, "cursor invariant: %s=0; segment [%s:%s] then %s=%s; closing segment [%s:] -> every marker written exactly once, left to right"
               % (cursor, cursor, spix, cursor, spix, cursor))
        rep.ok("R9-parents", construct, "no store through %s / %s / %s" % (geno, sel, xoprob))
        if toggle_ok:
            rep.ok("C02-R3-toggle", construct, "exactly one toggle %s = 1 - %s per crossover index, after the copy" % (phase, phase))
            rep.ok("C02-R2-alignment", construct, "full row %s[%s] compared with the unsliced %s; segment copied before the toggle" % (R, i, xoprob))
    return ok


def check_stackers(prog, rep, modname, names):
    """R4 for (meiosis, dh, mate) function names of one module"""
    meio, dhn, maten = names
    # dh
    f = prog.func(modname, dhn)
    rep.saw(f)
    ps = f.params()
    defs = _single_defs(f.node)
    ret = [s for s in body_nodoc(f.node) if isinstance(s, ast.Return)]
    okk = False
    if len(ret) == 1:
        v = _resolve(ret[0].value, defs)
        if isinstance(v, ast.Call) and prog.dotted(f.module, v.func) == "numpy.stack" and v.args and isinstance(v.args[0], (ast.List, ast.Tuple)):
            el = v.args[0].elts
            kws, _ = kwargs_of(v)
            if "axis" in kws and not is_const(kws["axis"], 0):
                rep.violate("R4-stacking", f.qualname, "gametes are stacked along axis %s, not along a new leading (phase) axis" % dump(kws["axis"]), where(f, v))
            elif len(el) == 2 and all(isinstance(e, ast.Name) for e in el):
                if el[0].id == el[1].id:
                    g = _resolve(el[0], defs)
                    if isinstance(g, ast.Call) and isinstance(g.func, ast.Name) and g.func.id == meio and [dump(a) for a in g.args] == ps[:4]:
                        rep.ok("R4-stacking", f.qualname, "one gamete of (%s) stacked twice -> homozygous at every locus" % ", ".join(ps[:4]))
                        okk = True
                    else:
                        rep.unrec("R4-stacking", f.qualname, "stacked value is not %s(%s)" % (meio, ", ".join(ps[:4])))
                        okk = True
                else:
                    rep.violate("R4-stacking", f.qualname, "doubled haploid stacks two different gametes (%s, %s): progeny are not homozygous" % (el[0].id, el[1].id),
                                where(f, v), "numpy.stack([gamete, gamete])", dump(v)[:60])
                    okk = True
            elif len(el) != 2:
                rep.violate("R4-stacking", f.qualname, "doubled haploid stacks %d chromosome copies" % len(el), where(f, v), "2", str(len(el)))
                okk = True
    if not okk:
        rep.unrec("R4-stacking", f.qualname, "body not `return numpy.stack([gamete, gamete])`")
    # mate
    f = prog.func(modname, maten)
    rep.saw(f)
    ps = f.params()
    if len(ps) < 6:
        rep.unrec("R4-stacking", f.qualname, "signature not (fgeno, mgeno, fsel, msel, xoprob, rng)")
        return
    fgeno, mgeno, fsel, msel, xo, rng = ps[:6]
    defs = _single_defs(f.node)
    ret = [s for s in body_nodoc(f.node) if isinstance(s, ast.Return)]
    okk = False
    if len(ret) == 1:
        v = _resolve(ret[0].value, defs)
        if isinstance(v, ast.Call) and prog.dotted(f.module, v.func) == "numpy.stack" and v.args and isinstance(v.args[0], (ast.List, ast.Tuple)) \
                and len(v.args[0].elts) == 2:
            kws, _ = kwargs_of(v)
            if "axis" in kws and not is_const(kws["axis"], 0):
                rep.violate("R4-stacking", f.qualname, "gametes are stacked along axis %s" % dump(kws["axis"]), where(f, v))
            calls = [_resolve(e, defs) for e in v.args[0].elts]
            want = [(fgeno, fsel, "female"), (mgeno, msel, "male")]
            good = True
            for c, (wg, ws, side) in zip(calls, want):
                if not (isinstance(c, ast.Call) and isinstance(c.func, ast.Name) and c.func.id == meio and len(c.args) >= 4):
                    rep.unrec("R4-stacking", f.qualname, "%s gamete is not a call of %s" % (side, meio))
                    good = False
                    continue
                a = [dump(x) for x in c.args[:4]]
                if a[0] != wg or a[1] != ws:
                    rep.violate("R4-stacking", f.qualname, "%s gamete (chromosome copy %d) is produced from (%s, %s) instead of (%s, %s)"
                                % (side, 0 if side == "female" else 1, a[0], a[1], wg, ws), where(f, c), "%s(%s, %s, ...)" % (meio, wg, ws), dump(c)[:60])
                    good = False
                if a[2] != xo or a[3] != rng:
                    rep.violate("R4-stacking", f.qualname, "%s gamete uses (%s, %s) as crossover probabilities / generator" % (side, a[2], a[3]), where(f, c),
                                "(%s, %s)" % (xo, rng), "(%s, %s)" % (a[2], a[3]))
                    good = False
            if good:
                rep.ok("R4-stacking", f.qualname, "stack([meiosis(%s,%s), meiosis(%s,%s)]): female gamete -> copy 0, male gamete -> copy 1" % (fgeno, fsel, mgeno, msel))
            okk = True
    if not okk:
        rep.unrec("R4-stacking", f.qualname, "body not `return numpy.stack([fgamete, mgamete])`")


# ============================================================================================ protocols
class PUnrec(Exception):
    pass


class PViol(Exception):
    def __init__(self, rule, detail, node=None, exp=None, found=None):
        self.rule, self.detail, self.node, self.exp, self.found = rule, detail, node, exp, found


def cnt_mul(a, b):
    return tuple(sorted(a + b))


class ProtoEval:
    """abstract evaluation of one mate() body (cross-identity algebra, DESIGN A.4)"""

    def __init__(self, prog, rep, f):
        self.prog, self.rep, self.f = prog, rep, f
        self.env = {}
        self.viol = []
        self.facts = []

    # ---- abstract values
    # ("P",)                                parental genotype array (pgmat.mat)
    # ("G", ped, seq)                       derived genotype array; seq = count tuple, rows = Rep(I, seq)
    # ("sel", src, what, seq)               selection array: src "P" -> parent column `what`; src "id" -> identity over a genotype value `what`
    # ("cnt", tuple)                        per-cross count vector (product of names)
    # ("perrow", cnt, by)                   numpy.repeat(cnt, by): per-row counts over rows Rep(I, by)
    # ("arange", gname-value)               numpy.arange(G.shape[1])
    # ("fam",)                              arange(family_counter, family_counter + nfam)
    # ("lab", seq)                          family labels repeated

    def ev(self, e):
        prog, f = self.prog, self.f
        if isinstance(e, ast.Name):
            if e.id in self.env:
                return self.env[e.id]
            if e.id in ("nmating", "nprogeny"):
                return ("cnt", (e.id,))
            raise PUnrec("name %s not modelled" % e.id)
        if isinstance(e, ast.Attribute):
            if isinstance(e.value, ast.Name) and e.value.id == "pgmat":
                if e.attr == "mat":
                    return ("P",)
                return ("pgattr", e.attr)
            if field_of(e) is not None:
                return ("selfattr", field_of(e))
            raise PUnrec("attribute %s not modelled" % dump(e))
        if isinstance(e, ast.BinOp) and isinstance(e.op, ast.Mult):
            a, b = self.ev(e.left), self.ev(e.right)
            if a[0] == "cnt" and b[0] == "cnt":
                return ("cnt", cnt_mul(a[1], b[1]))
            raise PUnrec("product %s not modelled" % dump(e))
        if isinstance(e, ast.Subscript):
            # xconfig[:, k]
            if isinstance(e.value, ast.Name) and e.value.id == "xconfig" and isinstance(e.slice, ast.Tuple) and len(e.slice.elts) == 2 \
                    and isinstance(e.slice.elts[0], ast.Slice) and e.slice.elts[0].lower is None and e.slice.elts[0].upper is None \
                    and isinstance(e.slice.elts[1], ast.Constant) and isinstance(e.slice.elts[1].value, int):
                return ("sel", "P", e.slice.elts[1].value, ())
            # G.shape[1]
            if isinstance(e.value, ast.Attribute) and e.value.attr == "shape" and isinstance(e.value.value, ast.Name):
                g = self.ev(e.value.value)
                if g[0] == "G" and is_const(e.slice, 1):
                    return ("nrows", g, e.value.value.id)
                if g[0] == "G":
                    raise PViol("R6-alignment", "number of individuals of %s read from shape[%s] (individuals are on axis 1 of a phased array)"
                                % (e.value.value.id, dump(e.slice)), e, "shape[1]", dump(e))
            raise PUnrec("subscript %s not modelled" % dump(e)[:50])
        if isinstance(e, ast.Call):
            d = prog.dotted(f.module, e.func)
            kws, _ = kwargs_of(e)
            if d == "numpy.repeat":
                if len(e.args) < 2:
                    raise PUnrec("numpy.repeat without counts")
                a, c = self.ev(e.args[0]), self.ev(e.args[1])
                if a[0] == "cnt" and c[0] == "cnt":
                    return ("perrow", a[1], c[1])
                if c[0] == "cnt":
                    return self.repeat_(a, c[1], e)
                if c[0] == "perrow":
                    # Rep(X with rows Rep(I, by), perrow(cnt by by)) = Rep(I, by*cnt)   [the one algebraic law]
                    base_seq = self.seq_of(a)
                    if tuple(sorted(base_seq)) != tuple(sorted(c[2])):
                        raise PViol("R6-alignment", "%s has one entry per %s but is repeated with per-entry counts laid out per %s"
                                    % (dump(e.args[0])[:40], "x".join(base_seq) or "cross", "x".join(c[2])), e,
                                    "counts with one entry per element", dump(e)[:70])
                    return self.repeat_(a, c[1], e)
                raise PUnrec("repeat counts %s not modelled" % dump(e.args[1])[:40])
            if d == "numpy.arange":
                if len(e.args) == 1:
                    n = self.ev(e.args[0])
                    if n[0] == "nrows":
                        return ("sel", "id", n[1], n[1][2], n[2])
                    raise PUnrec("arange(%s) not modelled" % dump(e.args[0]))
                if len(e.args) == 2:
                    lo, hi = e.args
                    if field_of(lo) == "family_counter" and isinstance(hi, ast.BinOp) and isinstance(hi.op, ast.Add) \
                            and field_of(hi.left) == "family_counter" and isinstance(hi.right, ast.Name) and self.env.get(hi.right.id) == ("nfam",):
                        return ("lab", ())
                    raise PViol("R7-names", "family labels are not arange(family_counter, family_counter + number of crosses): %s" % dump(e)[:70], e)
                raise PUnrec("arange form not modelled")
            if isinstance(e.func, ast.Name) and e.func.id == "len" and len(e.args) == 1 and isinstance(e.args[0], ast.Name) and e.args[0].id == "xconfig":
                return ("nfam",)
            if isinstance(e.func, ast.Name) and e.func.id in ("mat_mate", "mat_dh"):
                return self.mate_call(e)
            raise PUnrec("call %s not modelled" % dump(e)[:50])
        raise PUnrec("expression %s not modelled" % dump(e)[:50])

    def seq_of(self, v):
        if v[0] == "sel":
            return v[3]
        if v[0] == "lab":
            return v[1]
        if v[0] == "G":
            return v[2]
        raise PUnrec("no cross sequence for %s" % (v,))

    def repeat_(self, a, cnt, node):
        if a[0] == "sel":
            return ("sel", a[1], a[2], cnt_mul(a[3], cnt)) + tuple(a[4:])
        if a[0] == "lab":
            return ("lab", cnt_mul(a[1], cnt))
        raise PUnrec("repeat of %s not modelled" % (a,))

    def selected(self, g, s, node, side):
        """pedigree term of `g` indexed by selection s"""
        if g[0] == "P":
            if s[0] != "sel" or s[1] != "P":
                raise PViol("R5-pedigree", "%s parent is drawn from the parental pool with %s, which indexes another array's individuals"
                            % (side, self.describe(s)), node, "a column of xconfig", self.describe(s))
            return "P%d" % s[2], s[3]
        if g[0] == "G":
            if s[0] != "sel" or s[1] != "id":
                raise PViol("R5-pedigree", "%s parent is drawn from an intermediate population with parental indices (%s)"
                            % (side, self.describe(s)), node, "arange(<that population>.shape[1])", self.describe(s))
            if s[2] != g:
                raise PViol("R5-pedigree", "%s parent is drawn from one intermediate population with indices built for another (%s)"
                            % (side, s[4] if len(s) > 4 else "?"), node)
            return g[1], s[3]
        raise PUnrec("genotype value %s not modelled" % (g,))

    def describe(self, s):
        if s[0] == "sel" and s[1] == "P":
            return "xconfig[:, %d] x %s" % (s[2], "*".join(s[3]) or "1")
        if s[0] == "sel":
            return "arange(%s.shape[1]) x %s" % (s[4] if len(s) > 4 else "?", "*".join(s[3]))
        return str(s[0])

    def mate_call(self, e):
        name = e.func.id
        args = e.args
        if name == "mat_mate":
            if len(args) < 6:
                raise PUnrec("mat_mate with keyword arguments")
            fg, mg, fs, ms = [self.ev(a) for a in args[:4]]
            xo, rng = args[4], args[5]
            self.check_xo_rng(xo, rng, e)
            fped, fseq = self.selected(fg, fs, e, "female")
            mped, mseq = self.selected(mg, ms, e, "male")
            if tuple(sorted(fseq)) != tuple(sorted(mseq)):
                raise PViol("R6-alignment", "female and male selections of one mat_mate call are expanded differently (%s vs %s): parents of different crosses are paired"
                            % ("*".join(fseq) or "1", "*".join(mseq) or "1"), e, "equal expansion", "%s vs %s" % (fseq, mseq))
            return ("G", "Mate(%s,%s)" % (fped, mped), tuple(sorted(fseq)))
        else:
            if len(args) < 4:
                raise PUnrec("mat_dh with keyword arguments")
            g, s = self.ev(args[0]), self.ev(args[1])
            self.check_xo_rng(args[2], args[3], e)
            ped, seq = self.selected(g, s, e, "DH")
            return ("G", "DH(%s)" % ped, tuple(sorted(seq)))

    def check_xo_rng(self, xo, rng, node):
        xv = self.ev(xo) if isinstance(xo, ast.Name) else (("pgattr", xo.attr) if isinstance(xo, ast.Attribute) else None)
        if xv != ("pgattr", "vrnt_xoprob"):
            raise PViol("R3-crossover", "meiosis is given %s as crossover probabilities, not pgmat.vrnt_xoprob" % dump(xo), node, "pgmat.vrnt_xoprob", dump(xo))
        if isinstance(rng, ast.Name):
            # a local bound once to the protocol's generator (`rng = self.rng`) is that generator
            rng = _resolve(rng, _single_defs(self.f.node))
        if field_of(rng) != "rng":
            raise PViol("C02-R5-generator", "meiosis is given %s as generator, not the protocol's self.rng" % dump(rng), node, "self.rng", dump(rng))

    # ---- statements
    def run(self, stmts):
        for st in stmts:
            self.stmt(st)

    def stmt(self, st):
        if isinstance(st, ast.Expr):
            if isinstance(st.value, ast.Call):
                fn = st.value.func
                if isinstance(fn, ast.Name) and fn.id.startswith("check_"):
                    return
                if isinstance(fn, ast.Attribute) and fn.attr == "group_taxa" and isinstance(fn.value, ast.Name):
                    self.facts.append(("group_taxa", fn.value.id))
                    return
            if is_diagnostic(st):
                return
            raise PUnrec("statement %s not modelled" % dump(st)[:50])
        if is_guard(st):
            return      # an input check that only raises: no effect on the progeny of a call that returns
        if isinstance(st, ast.If):
            # count normalisation / miscout checks only
            t = dump(st.test)
            if t.startswith("isinstance(n") and len(st.body) == 1 and isinstance(st.body[0], ast.Assign):
                a = st.body[0]
                tg = a.targets[0].id if isinstance(a.targets[0], ast.Name) else None
                v = a.value
                cnt = v.args[1] if isinstance(v, ast.Call) and len(v.args) > 1 else None
                if isinstance(cnt, ast.Name):
                    # a local bound once to the number of crosses
                    ds = [n.value for n in ast.walk(self.f.node) if isinstance(n, ast.Assign) and len(n.targets) == 1 and isinstance(n.targets[0], ast.Name) and n.targets[0].id == cnt.id]
                    if len(ds) == 1:
                        cnt = ds[0]
                if tg in ("nmating", "nprogeny") and isinstance(v, ast.Call) and self.prog.dotted(self.f.module, v.func) == "numpy.repeat" \
                        and dump(v.args[0]) == tg and cnt is not None and dump(cnt) == "len(xconfig)":
                    return
                if cnt is not None and not isinstance(cnt, (ast.Call, ast.Constant, ast.Attribute, ast.Subscript)):
                    raise PUnrec("expansion count %s of %s not traced" % (dump(cnt)[:30], tg))
                raise PViol("R6-alignment", "scalar %s is expanded as %s, not to one entry per cross" % (tg, dump(v)[:50]), a, "numpy.repeat(%s, len(xconfig))" % tg, dump(v)[:50])
            if "miscout" in t:
                return
            raise PUnrec("conditional %s not modelled" % t[:50])
        if isinstance(st, ast.For):
            return self.selfing(st)
        if isinstance(st, ast.AugAssign):
            fld = field_of(st.target)
            if fld in ("progeny_counter", "family_counter") and isinstance(st.op, ast.Add):
                self.facts.append(("bump", fld, dump(st.value), st))
                return
            raise PUnrec("statement %s not modelled" % dump(st)[:50])
        if isinstance(st, ast.Assign) and len(st.targets) == 1:
            t = st.targets[0]
            if isinstance(t, ast.Name):
                v = st.value
                if t.id in ("progcnt",) or (isinstance(v, ast.Subscript) and isinstance(v.value, ast.Attribute) and v.value.attr == "shape"):
                    val = self.ev(v)
                    self.env[t.id] = val
                    return
                if isinstance(v, ast.Call) and isinstance(v.func, ast.Name) and v.func.id == "range":
                    self.env[t.id] = ("range", [dump(a) for a in v.args], st)
                    return
                if isinstance(v, ast.Call) and self.prog.dotted(self.f.module, v.func) == "numpy.array" and v.args \
                        and isinstance(v.args[0], ast.ListComp):
                    lc = v.args[0]
                    it = lc.generators[0].iter
                    self.env[t.id] = ("names", dump(it), st)
                    return
                if isinstance(v, ast.Call) and isinstance(self.prog.resolve_expr(self.f.module, v.func), object) and isinstance(v.func, ast.Name) \
                        and v.func.id == "DensePhasedGenotypeMatrix":
                    self.env[t.id] = ("ctor", v)
                    self.facts.append(("ctor", t.id, v))
                    return
                self.env[t.id] = self.ev(v)
                return
            if isinstance(t, ast.Attribute) and isinstance(t.value, ast.Name) and self.env.get(t.value.id, (None,))[0] == "ctor":
                self.facts.append(("post", t.attr, st.value, st))
                return
        if isinstance(st, ast.Return):
            self.facts.append(("return", dump(st.value)))
            return
        raise PUnrec("statement %s not modelled" % dump(st)[:60])

    def selfing(self, st):
        # for _ in range(nself): G = mat_mate(G, G, idsel, idsel, xoprob, self.rng)
        it = st.iter
        if not (isinstance(it, ast.Call) and isinstance(it.func, ast.Name) and it.func.id == "range" and len(it.args) == 1
                and isinstance(it.args[0], ast.Name) and it.args[0].id == "nself"):
            if isinstance(it, ast.Call) and isinstance(it.func, ast.Name) and it.func.id == "range":
                raise PViol("R5-pedigree", "selfing loop runs range(%s), not range(nself)" % ", ".join(dump(a) for a in it.args), st, "range(nself)", dump(it))
            raise PUnrec("loop header not modelled: %s" % dump(it)[:40])
        if len(st.body) != 1 or not isinstance(st.body[0], ast.Assign):
            raise PUnrec("selfing loop body not a single assignment")
        a = st.body[0]
        tgt = a.targets[0].id if isinstance(a.targets[0], ast.Name) else None
        v = a.value
        if not (isinstance(v, ast.Call) and isinstance(v.func, ast.Name) and v.func.id == "mat_mate" and len(v.args) >= 6):
            raise PUnrec("selfing loop body not a mat_mate call")
        g0 = self.env.get(tgt)
        if g0 is None or g0[0] != "G":
            raise PUnrec("selfing target not a genotype array")
        if not (isinstance(v.args[0], ast.Name) and isinstance(v.args[1], ast.Name) and v.args[0].id == tgt and v.args[1].id == tgt):
            raise PViol("R5-pedigree", "selfing generation mates %s with %s instead of the population with itself" % (dump(v.args[0]), dump(v.args[1])), v,
                        "mat_mate(%s, %s, ...)" % (tgt, tgt), dump(v)[:60])
        s1, s2 = self.ev(v.args[2]), self.ev(v.args[3])
        for s, side in ((s1, "female"), (s2, "male")):
            if not (s[0] == "sel" and s[1] == "id" and s[2] == g0 and tuple(sorted(s[3])) == tuple(sorted(g0[2]))):
                raise PViol("R5-pedigree", "selfing uses %s as %s index: individual k is not selfed from individual k (alleles of other families enter)"
                            % (self.describe(s), side), v, "arange(%s.shape[1])" % tgt, self.describe(s))
        self.check_xo_rng(v.args[4], v.args[5], v)
        self.env[tgt] = ("G", "Self^n(%s)" % g0[1], g0[2])
        # identity selections built from the pre-loop population stay valid (selfing preserves the row count)
        for k, val in list(self.env.items()):
            if val[0] == "sel" and val[1] == "id" and val[2] == g0:
                self.env[k] = ("sel", "id", self.env[tgt], val[3]) + tuple(val[4:])


def check_protocol(prog, rep, cname):
    c = prog.get_class(cname, "pybrops.breed.prot.mate." + cname)
    f = prog.own_method(c, "mate")
    rep.saw(f)
    construct = f.qualname
    pe = ProtoEval(prog, rep, f)
    try:
        pe.run(body_nodoc(f.node))
    except PViol as v:
        rep.violate(v.rule, construct, v.detail, where(f, v.node), v.exp, v.found)
        return
    except PUnrec as u:
        rep.unrec("R5-pedigree", construct, str(u))
        return
    facts = pe.facts
    ctors = [x for x in facts if x[0] == "ctor"]
    if len(ctors) != 1:
        rep.unrec("R8-metadata", construct, "expected one DensePhasedGenotypeMatrix construction")
        return
    _, outname, ctor = ctors[0]
    kws, _ = kwargs_of(ctor)
    # R5 pedigree
    matv = pe.ev(kws["mat"]) if "mat" in kws else None
    if matv is None or matv[0] != "G":
        rep.unrec("R5-pedigree", construct, "result genotype not modelled")
        return
    ped = matv[1]
    # Self^n wrapper exists for every protocol (nself may be 0)
    if ped == PEDIGREE[cname]:
        rep.ok("R5-pedigree", construct, "pedigree term %s equals the documented cross" % ped, sample={"protocol": cname, "pedigree": ped, "rows": "Rep(I, %s)" % "*".join(matv[2])})
    else:
        rep.violate("R5-pedigree", construct, "progeny pedigree is %s; the documented cross is %s" % (ped, PEDIGREE[cname]), where(f, ctor), PEDIGREE[cname], ped)
    # R6 final expansion and labels
    want = ("nmating", "nprogeny")
    if tuple(sorted(matv[2])) != want:
        rep.violate("R6-alignment", construct, "each cross yields %s progeny rows, not nmating*nprogeny" % ("*".join(matv[2]) or "1"), where(f, ctor),
                    "nmating*nprogeny", "*".join(matv[2]) or "1")
    else:
        rep.ok("R6-alignment", construct, "progeny rows = Rep(crosses, nmating*nprogeny), all paired selections equally expanded")
    try:
        lab = pe.ev(kws["taxa_grp"]) if "taxa_grp" in kws else None
    except (PViol, PUnrec) as e:
        lab = None
        if isinstance(e, PViol):
            rep.violate(e.rule, construct, e.detail, where(f, e.node), e.exp, e.found)
        else:
            rep.unrec("R6-alignment", construct, str(e))
    if lab is not None:
        if lab[0] != "lab":
            rep.violate("R6-alignment", construct, "family labels are built from %s, not from the family counter range" % lab[0], where(f, ctor))
        elif tuple(sorted(lab[1])) != tuple(sorted(matv[2])):
            rep.violate("R6-alignment", construct, "family labels are repeated %s times per cross but progeny rows %s times: labels and genotypes are misaligned"
                        % ("*".join(lab[1]) or "1", "*".join(matv[2]) or "1"), where(f, ctor), "*".join(matv[2]), "*".join(lab[1]))
        else:
            rep.ok("R6-alignment", construct + "#taxa_grp", "family labels repeated with the same per-cross pattern as the progeny rows")
    # R7 names and counters
    tv = pe.ev(kws["taxa"]) if "taxa" in kws and isinstance(kws["taxa"], ast.Name) else None
    bumps = {x[1]: x for x in facts if x[0] == "bump"}
    good7 = True
    if tv is None or tv[0] != "names":
        rep.unrec("R7-names", construct, "taxa names not built from a range")
        good7 = False
    else:
        rng_ = pe.env.get(tv[1])
        cntname = None
        for k, v in pe.env.items():
            if v[0] == "nrows" and v[1] == matv:
                cntname = k
        if rng_ is None or rng_[0] != "range" or len(rng_[1]) != 2:
            rep.unrec("R7-names", construct, "name iterator not range(counter, counter + count)")
            good7 = False
        else:
            lo, hi = rng_[1]
            if lo != "self.progeny_counter" or cntname is None or hi != "self.progeny_counter + %s" % cntname:
                rep.violate("R7-names", construct, "names are numbered range(%s, %s), not range(progeny_counter, progeny_counter + number of progeny rows)" % (lo, hi),
                            where(f, rng_[2]), "range(self.progeny_counter, self.progeny_counter + progcnt)", "range(%s, %s)" % (lo, hi))
                good7 = False
            b = bumps.get("progeny_counter")
            if b is None:
                rep.violate("R7-names", construct, "progeny_counter is not advanced", where(f))
                good7 = False
            else:
                if b[2] != cntname:
                    rep.violate("R7-names", construct, "progeny_counter advances by %s, not by the number of progeny produced" % b[2], where(f, b[3]), cntname, b[2])
                    good7 = False
                if b[3].lineno < rng_[2].lineno:
                    rep.violate("R7-names", construct, "progeny_counter is advanced before the names are generated from it", where(f, b[3]))
                    good7 = False
    b = bumps.get("family_counter")
    nfamname = [k for k, v in pe.env.items() if v == ("nfam",)]
    if b is None:
        rep.violate("R7-names", construct, "family_counter is not advanced", where(f))
        good7 = False
    elif not nfamname or (b[2] not in nfamname and b[2] != "len(xconfig)"):
        rep.violate("R7-names", construct, "family_counter advances by %s, not by the number of crosses" % b[2], where(f, b[3]), "len(xconfig)", b[2])
        good7 = False
    elif "taxa_grp" in kws and isinstance(kws["taxa_grp"], ast.Name):
        d = [n for n in walk_no_nested(f.node) if isinstance(n, ast.Assign) and isinstance(n.targets[0], ast.Name) and n.targets[0].id == kws["taxa_grp"].id]
        if d and b[3].lineno < d[0].lineno:
            rep.violate("R7-names", construct, "family_counter is advanced before the family labels are generated from it", where(f, b[3]))
            good7 = False
    if good7:
        rep.ok("R7-names", construct, "names from range(progeny_counter, +rows of result) read before the bump; family_counter += number of crosses after the labels")
    # R8 metadata
    good8 = True
    for k, v in kws.items():
        if k in ("mat", "taxa", "taxa_grp"):
            if not isinstance(v, ast.Name):
                rep.unrec("R8-metadata", construct, "keyword %s not a local" % k)
                good8 = False
            continue
        if isinstance(v, ast.Attribute) and isinstance(v.value, ast.Name) and v.value.id == "pgmat":
            if v.attr != k:
                rep.violate("R8-metadata", construct, "marker metadata %s of the progeny is taken from pgmat.%s" % (k, v.attr), where(f, ctor), "pgmat." + k, "pgmat." + v.attr)
                good8 = False
        else:
            rep.violate("R8-metadata", construct, "marker metadata %s is not carried over from the parents (%s)" % (k, dump(v)[:40]), where(f, ctor), "pgmat." + k, dump(v)[:40])
            good8 = False
    pg = prog.get_class("DensePhasedGenotypeMatrix")
    for p in prog.init_params(pg):
        if p.startswith("vrnt_") and p not in kws:
            rep.violate("R8-metadata", construct, "marker metadata %s of the parents is not carried over to the progeny" % p, where(f, ctor), "%s=pgmat.%s" % (p, p), "absent")
            good8 = False
    posts = {x[1]: x for x in facts if x[0] == "post"}
    for m in ("vrnt_chrgrp_name", "vrnt_chrgrp_stix", "vrnt_chrgrp_spix", "vrnt_chrgrp_len"):
        x = posts.get(m)
        if x is None:
            rep.violate("R8-metadata", construct, "chromosome group metadata %s is not carried over" % m, where(f), "progeny.%s = pgmat.%s" % (m, m), "absent")
            good8 = False
        elif not (isinstance(x[2], ast.Attribute) and isinstance(x[2].value, ast.Name) and x[2].value.id == "pgmat" and x[2].attr == m):
            rep.violate("R8-metadata", construct, "%s of the progeny is set from %s" % (m, dump(x[2])[:40]), where(f, x[3]), "pgmat." + m, dump(x[2])[:40])
            good8 = False
    if not any(x[0] == "group_taxa" and x[1] == outname for x in facts):
        rep.violate("R8-metadata", construct, "progeny are not grouped into families (group_taxa) before being returned", where(f))
        good8 = False
    if not any(x[0] == "return" and x[1] == outname for x in facts):
        rep.unrec("R8-metadata", construct, "constructed progeny object is not what is returned")
        good8 = False
    if good8:
        rep.ok("R8-metadata", construct, "%d marker-metadata keywords and 4 group fields carried over by name; progeny grouped by family" % (len(kws) - 3))
    # R9 parents untouched
    bad = False
    for n in walk_no_nested(f.node):
        if isinstance(n, (ast.Attribute, ast.Subscript)) and isinstance(n.ctx, ast.Store):
            base = n
            while isinstance(base, (ast.Attribute, ast.Subscript)):
                base = base.value
            if isinstance(base, ast.Name) and (base.id in ("pgmat", "xconfig") or pe.env.get(base.id) == ("P",)):
                rep.violate("R9-parents", construct, "mate() writes into its input %s" % dump(n)[:40], where(f, n), "inputs are read-only", dump(n)[:40])
                bad = True
        if isinstance(n, ast.Call) and isinstance(n.func, ast.Attribute) and isinstance(n.func.value, ast.Name) and n.func.value.id == "pgmat" \
                and not n.func.attr.startswith(("is_", "copy", "deepcopy")):
            rep.violate("R9-parents", construct, "mate() calls pgmat.%s() on the parental matrix" % n.func.attr, where(f, n), "no mutation of pgmat", n.func.attr)
            bad = True
    if not bad:
        rep.ok("R9-parents", construct, "no store through pgmat / xconfig / the parental genotype array")


def check_meiosis_calls(prog, rep, cname):
    """C02-R5: every mat_mate / mat_dh call in mate() passes pgmat.vrnt_xoprob and self.rng (independent of the pedigree evaluation)"""
    c = prog.get_class(cname, "pybrops.breed.prot.mate." + cname)
    f = prog.own_method(c, "mate")
    defs = _single_defs(f.node)
    n = 0
    good = True
    for call in walk_no_nested(f.node):
        if not (isinstance(call, ast.Call) and isinstance(call.func, ast.Name) and call.func.id in ("mat_mate", "mat_dh")):
            continue
        n += 1
        k = 4 if call.func.id == "mat_mate" else 2
        kws, _ = kwargs_of(call)
        xo = call.args[k] if len(call.args) > k else kws.get("xoprob")
        rg = call.args[k + 1] if len(call.args) > k + 1 else kws.get("rng")
        xr = _resolve(xo, defs) if xo is not None else None
        if not (isinstance(xr, ast.Attribute) and isinstance(xr.value, ast.Name) and xr.value.id == "pgmat" and xr.attr == "vrnt_xoprob"):
            rep.violate("C02-R5-generator", f.qualname, "%s receives %s as crossover probabilities, not pgmat.vrnt_xoprob" % (call.func.id, dump(xo) if xo is not None else "<nothing>"),
                        where(f, call), "pgmat.vrnt_xoprob", dump(xo) if xo is not None else "absent")
            good = False
        rg = _resolve(rg, defs) if rg is not None else None
        if rg is None or field_of(rg) != "rng":
            rep.violate("C02-R5-generator", f.qualname, "%s receives %s as generator, not the protocol's self.rng" % (call.func.id, dump(rg) if rg is not None else "<nothing>"),
                        where(f, call), "self.rng", dump(rg) if rg is not None else "absent")
            good = False
    if n == 0:
        rep.unrec("C02-R5-generator", f.qualname, "no mat_mate / mat_dh call found")
    elif good:
        rep.ok("C02-R5-generator", f.qualname, "all %d mat_mate / mat_dh calls receive pgmat.vrnt_xoprob and self.rng" % n)
    # C02-R6: the progeny carry the parents' crossover probabilities and map coordinates (the next generation recombines with them)
    ctors = [x for x in walk_no_nested(f.node) if isinstance(x, ast.Call) and "vrnt_xoprob" in kwargs_of(x)[0] and x.func is not None
             and not (isinstance(x.func, ast.Name) and x.func.id in ("mat_mate", "mat_dh"))]
    if len(ctors) != 1:
        rep.unrec("C02-R6-carry", f.qualname, "expected one progeny matrix construction with vrnt_xoprob=")
        return
    kws, _ = kwargs_of(ctors[0])
    bad = False
    for k in ("vrnt_xoprob", "vrnt_chrgrp", "vrnt_genpos", "vrnt_phypos"):
        v = kws.get(k)
        v = _resolve(v, defs) if v is not None else None
        if not (isinstance(v, ast.Attribute) and isinstance(v.value, ast.Name) and v.value.id == "pgmat" and v.attr == k):
            rep.violate("C02-R6-carry", f.qualname, "the progeny matrix receives %s=%s, not the parents' %s: the next generation bred from these progeny recombines "
                        "with the wrong %s" % (k, dump(v) if v is not None else "<nothing>", k, "probabilities" if k == "vrnt_xoprob" else "map coordinates"),
                        where(f, ctors[0]), "pgmat." + k, dump(v) if v is not None else "absent")
            bad = True
    if not bad:
        rep.ok("C02-R6-carry", f.qualname, "progeny carry pgmat.vrnt_xoprob / vrnt_chrgrp / vrnt_genpos / vrnt_phypos under their own names")


def check_siblings(prog, rep):
    """R10: core/util/mate.py versus breed/prot/mate/util.py, function by function (modulo the function names)"""
    pairs = (("mat_meiosis", "dense_meiosis"), ("mat_dh", "dense_dh"), ("mat_mate", "dense_cross"))
    ren = {b: a for a, b in pairs}

    class Norm(ast.NodeTransformer):
        def visit_Name(self, n):
            return ast.copy_location(ast.Name(id=ren.get(n.id, n.id), ctx=n.ctx), n)

    for a, b in pairs:
        fa, fb = prog.func(UTIL, a), prog.func(CORE, b)
        da = [ast.dump(s) for s in body_nodoc(fa.node)]
        db = [ast.dump(Norm().visit(ast.parse(ast.unparse(s)).body[0])) for s in body_nodoc(fb.node)]
        if da == db and fa.params() == fb.params():
            rep.ok("R10-siblings", fb.qualname, "identical to %s (modulo function names)" % fa.qualname)
        else:
            rep.info("R10-siblings", fb.qualname, "differs textually from %s; it is checked against the same template instead" % fa.qualname)


def check_args_purity(prog, rep, cname):
    """R9-parents (aliases): no in-place update reaches the caller's parental matrix, cross configuration or per-cross counts through a view or an alias"""
    from sa.purity import Purity, may_be_array
    K = prog.get_class(cname, "pybrops.breed.prot.mate." + cname)
    f = prog.own_method(K, "mate")
    construct = f.qualname + "#aliases"
    bad = False
    try:
        pu = Purity(prog, f)
    except RecursionError:
        rep.unrec("R9-parents", construct, "alias walk did not terminate")
        return
    for e in pu.events:
        hit = sorted(r for r in e.roots if (r[0] == "param" and r[1] in ("pgmat", "xconfig", "nmating", "nprogeny")) or (r[0] == "pattr" and r[1].startswith("pgmat.")))
        if not hit:
            continue
        if isinstance(e.node, ast.AugAssign) and isinstance(e.node.target, ast.Name) and not any(r[0] == "param" and may_be_array(f, r[1]) for r in hit):
            continue
        rep.violate("R9-parents", f.qualname, "`%s` updates in place %s: the caller's array is changed by the call (the next call with the same argument sees other "
                    "counts / genotypes)" % (e.what, " / ".join("the argument %s" % r[1] for r in hit)), where(f, e.node), "inputs are read-only (work on a copy)", e.what)
        bad = True
    if not bad:
        rep.ok("R9-parents", construct, "no in-place update reaches pgmat / xconfig / nmating / nprogeny through an alias")


def run_meiosis_rules(prog, rep):
    for modname, names in ((UTIL, ("mat_meiosis", "mat_dh", "mat_mate")), (CORE, ("dense_meiosis", "dense_dh", "dense_cross"))):
        f = prog.func(modname, names[0])
        check_meiosis(prog, rep, f)
        check_stackers(prog, rep, modname, names)


def run(prog, rep, tier):
    rep.explanation = ("Template verification of the meiosis kernel (provenance of every gamete store, cursor tiling invariant, strict crossover "
                       "test), of the gamete stackers, and abstract evaluation of all seven mate() bodies in a cross-identity algebra "
                       "(pedigree term + per-cross expansion sequence with the single law Rep(Rep(X,a),Rep(b,a)) = Rep(X,a*b)), compared with "
                       "the documented pedigree table; names/counters, metadata carry-over and read-only parents by keyword/def-use rules. "
                       "Holds for all genotypes, configurations, counts (scalar or per-cross), selfing depths and generator states because "
                       "no rule depends on a value.")
    rep.not_decided = ["numeric allele value ranges (int8 codes are copied, never computed)", "which uniform numbers are drawn (C02/C08)"]
    for r, n in (("R1-provenance", 2), ("R2-tiling", 2), ("R3-crossover", 2), ("R4-stacking", 4), ("R5-pedigree", 7), ("R6-alignment", 14),
                 ("R7-names", 7), ("R8-metadata", 7), ("R9-parents", 16)):
        rep.floor(r, n)
    run_meiosis_rules(prog, rep)
    for c in PROTOCOLS:
        check_protocol(prog, rep, c)
        check_args_purity(prog, rep, c)
        check_meiosis_calls(prog, rep, c)
    check_siblings(prog, rep)
    wire(prog, rep, "C01", 0, 110)
