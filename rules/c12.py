"""
C12  Predicted progeny variances equal the exact variance of the cross's gametes   (necessary structural conditions)

  R1-linkage   rprob_filial, cov_D1s, cov_D2s, cov_D1st, cov_D2st normalise, branch by branch, to their closed forms
               "three different linkage-decay terms" -- generation index, coefficients, signs
  R2-tiling    every marker-chunk generator is zip(range(a,b,s), srange(a+s,b,s)); row and column chunks tile the SAME interval with the same step;
               step = (b-a) if mem is None else mem and `mem` flows only into it  "unchanged by the memory-chunking parameter"
  R3-coupling  inside a chunk every slice is exactly [rst:rsp] or [cst:csp]; r = mapfn(|gi - gj|) from genpos meshed (rows, cols) 'ij'; the linkage
               term receives (r, nself)
  R4-storage   the result is zero-initialised or fully written, every subscript has the allocated rank, the mirror copies the filled triangle over
               the same index ranges  "symmetric in exchangeable parents, zero for genetically identical parents"
  R5-usefulness (C05-R6) "usefulness-criterion values ... equal the parental mean plus selection intensity times the square root of that variance"
"""
import ast

from sa.ctorflow import wire


from sa.astutil import is_guard, dump, where, kwargs_of, walk_no_nested
from sa.model import body_nodoc
from sa.vn import path_values, RAISES, VN, Poly, VNUnknown, comparable
from rules import c05

UTIL = "pybrops.model.vmat.util"
RK = "rprob_filial(r, nself + 1)"
LINK = {
    "rprob_filial": [("finite", "(2.0 * r) / (1.0 + 2.0 * r) * (1.0 - (0.5 ** k) * (1.0 - 2.0 * r) ** k)"), ("inf", "(2.0 * r) / (1.0 + 2.0 * r)")],
    "cov_D1s": [("nself == 0", "1 - 2 * r"), ("nself > 0", "1.0 - 2.0 * " + RK)],
    "cov_D2s": [("nself == 0", "(1.0 - 2.0 * r) ** 2"), ("nself > 0", "1.0 - 4.0 * r + 4.0 * r * " + RK)],
    "cov_D1st": [("nself == 0 and t == 0", "1 - 2 * r"), ("nself > 0", "1.0 - 2.0 * " + RK), ("t > 0", "(1.0 - 2.0 * r) * (1.0 - r) ** t")],
    "cov_D2st": [("nself == 0 and t == 0", "(1.0 - 2.0 * r) ** 2"), ("nself > 0", "1.0 - 4.0 * r + 4.0 * r * " + RK), ("t > 0", "(1.0 - 2.0 * r) ** 2 * (1.0 - r) ** t")],
}
FAMILIES = [("pybrops.model.vmat.", ["DenseTwoWayDHAdditiveGeneticVarianceMatrix", "DenseThreeWayDHAdditiveGeneticVarianceMatrix", "DenseFourWayDHAdditiveGeneticVarianceMatrix",
                                       "DenseDihybridDHAdditiveGeneticVarianceMatrix", "DenseTwoWayDHAdditiveGenicVarianceMatrix", "DenseThreeWayDHAdditiveGenicVarianceMatrix",
                                       "DenseFourWayDHAdditiveGenicVarianceMatrix", "DenseDihybridDHAdditiveGenicVarianceMatrix"]),
            ("pybrops.model.pcvmat.", ["DenseTwoWayDHAdditiveProgenyGeneticCovarianceMatrix", "DenseThreeWayDHAdditiveProgenyGeneticCovarianceMatrix",
                                         "DenseFourWayDHAdditiveProgenyGeneticCovarianceMatrix", "DenseDihybridDHAdditiveProgenyGeneticCovarianceMatrix",
                                         "DenseTwoWayDHAdditiveProgenyGenicCovarianceMatrix", "DenseThreeWayDHAdditiveProgenyGenicCovarianceMatrix",
                                         "DenseFourWayDHAdditiveProgenyGenicCovarianceMatrix", "DenseDihybridDHAdditiveProgenyGenicCovarianceMatrix"])]


FINITE_TRUE = {("k < numpy.inf", True), ("k != numpy.inf", True), ("numpy.isfinite(k)", True), ("k == numpy.inf", False), ("numpy.isinf(k)", False), ("k >= numpy.inf", False)}
FINITE_FALSE = {(t, not b) for t, b in FINITE_TRUE}


def _implied(conds, key):
    """do the branch conditions (comparisons of ONE variable with numeric literals) imply the comparison `key`?  Decided on the finite set of order regions
    the literals cut the line into (each literal, the gaps between them, both ends)."""
    import re
    pat = re.compile(r"^\s*([A-Za-z_][\w.]*)\s*(==|!=|<=|>=|<|>)\s*(-?\d+(?:\.\d+)?)\s*$")
    mk = pat.match(key)
    if not mk:
        return False
    var = mk.group(1)
    cons = []
    for c, taken in conds:
        m = pat.match(c)
        if not m:
            if " and " in c or " or " in c:
                continue    # its conjuncts are listed separately when decided
            return False
        if m.group(1) != var:
            return False
        cons.append((m.group(2), float(m.group(3)), taken))
    lits = sorted({v for _, v, _ in cons} | {float(mk.group(3))})
    pts = [lits[0] - 1.0] + [x for i, v in enumerate(lits) for x in ([v] + ([(v + lits[i + 1]) / 2.0] if i + 1 < len(lits) else []))] + [lits[-1] + 1.0]
    ops = {"==": lambda a, b: a == b, "!=": lambda a, b: a != b, "<": lambda a, b: a < b, "<=": lambda a, b: a <= b, ">": lambda a, b: a > b, ">=": lambda a, b: a >= b}
    sat = [x for x in pts if all(ops[o](x, v) == taken for o, v, taken in cons)]
    return bool(sat) and all(ops[mk.group(2)](x, float(mk.group(3))) for x in sat)


def check_linkage(prog, rep):
    """every return path of the linkage-decay helpers, classified by the branch conditions it passed, normalises to the closed form of that case"""
    for name, table in LINK.items():
        f = prog.func(UTIL, name)
        rep.saw(f)
        construct = f.qualname
        try:
            paths = path_values(prog, f, inline=2)
        except VNUnknown as e:
            rep.unrec("R1-linkage", construct, "body not if / assignment / return: %s" % e)
            continue
        want = dict(table)
        refs = {k: VN(prog, f, inline=2).expr(ast.parse(v, mode="eval").body) for k, v in table}
        seen = set()
        for conds, val in paths:
            if val is RAISES:
                continue
            cs = set(conds)
            if name == "rprob_filial":
                keys = [k for k, grp in (("finite", FINITE_TRUE), ("inf", FINITE_FALSE)) if cs & grp]
            else:
                keys = [k for k in want if (k, True) in cs]
                if not keys:
                    # the conditions may imply a case without spelling it (nself >= 0 and not nself == 0  =>  nself > 0): decide on the order regions of the compared constants
                    keys = [k for k in want if " and " not in k and _implied(conds, k)]
                # the combined key `a and b` is also satisfied by both conjuncts taken separately
                for k in want:
                    if " and " in k and all((c.strip(), True) in cs for c in k.split(" and ")) and k not in keys:
                        keys.append(k)
                # a more specific key wins over its own conjuncts
                keys = [k for k in keys if not any(k2 != k and " and " in k2 and k in [c.strip() for c in k2.split(" and ")] for k2 in keys)]
            if name == "rprob_filial" and not keys:
                if ("k > numpy.inf", True) in cs or ("k < -numpy.inf", True) in cs:
                    continue        # unreachable: nothing exceeds +inf
                if all(c.startswith("k >") or c.startswith("k <") for c, b in conds) or not conds:
                    # the path is taken for finite AND infinite k: it has to be right for both
                    for k in ("finite", "inf"):
                        seen.add(k)
                        if val is not None and val != refs[k] and comparable(val, refs[k]):
                            rep.violate("R1-linkage", construct, "a path that is taken for every k (conditions %s) returns %s, which is not the %s-generation closed form %s"
                                        % ([(c, b) for c, b in conds], val.show()[:100], k, refs[k].show()[:100]), where(f), want[k], val.show()[:100])
                    continue
            if val is None:
                rep.unrec("R1-linkage", construct, "a path (%s) falls off the end without a value" % [c for c, b in conds if b][:3])
                continue
            if len(keys) != 1:
                rep.unrec("R1-linkage", construct, "a return path with conditions %s matches %s of the cases %s" % ([(c, b) for c, b in conds][:4], keys or "none", sorted(want)))
                continue
            k = keys[0]
            seen.add(k)
            if val == refs[k]:
                rep.ok("R1-linkage", "%s#%s" % (construct, k), "%s [%s] == %s" % (name, k, want[k]))
            elif comparable(val, refs[k]):
                rep.violate("R1-linkage", construct, "%s for the case `%s` normalises to %s; closed form %s" % (name, k, val.show()[:140], refs[k].show()[:140]), where(f), want[k],
                            val.show()[:140])
            else:
                rep.unrec("R1-linkage", construct, "the case `%s` uses other operators: %s" % (k, val.show()[:100]))
        for k in want:
            if k not in seen:
                rep.unrec("R1-linkage", construct, "no return path for the case `%s`" % k)


def _chunk_loops(f):
    """all For loops whose iterator is zip(range(..), srange(..))"""
    out = []
    for n in walk_no_nested(f.node):
        if isinstance(n, ast.For) and isinstance(n.iter, ast.Call) and dump(n.iter.func) == "zip" and len(n.iter.args) == 2 \
                and all(isinstance(a, ast.Call) for a in n.iter.args) and dump(n.iter.args[1].func) == "srange":
            out.append(n)
    return out


def check_from_algmod(prog, rep, c):
    f = c.methods.get("from_algmod")
    if f is None:
        rep.unrec("R4-storage", c.qualname, "from_algmod vanished")
        return
    rep.saw(f)
    construct = f.qualname
    defs = {}
    for n in walk_no_nested(f.node):
        if isinstance(n, ast.Assign) and len(n.targets) == 1 and isinstance(n.targets[0], ast.Name):
            defs.setdefault(n.targets[0].id, []).append(n.value)
    # ------------------------------------------------------------------ R2 tiling
    loops = _chunk_loops(f)
    tiles = []
    for lp in loops:
        r0, r1 = lp.iter.args
        a0, a1 = [dump(a) for a in r0.args], [dump(a) for a in r1.args]
        names = [dump(e) for e in lp.target.elts] if isinstance(lp.target, ast.Tuple) else []
        good = dump(r0.func) == "range" and len(a0) == 3 and len(a1) == 3 and len(names) == 2
        othervars = {dump(e) for l2 in loops if l2 is not lp and isinstance(l2.target, ast.Tuple) for e in l2.target.elts}
        if good and ({x.id for x in ast.walk(r0) if isinstance(x, ast.Name)} | {x.id for x in ast.walk(r1) if isinstance(x, ast.Name)}) & othervars:
            continue    # triangular visit relative to another chunk loop: judged below
        if good:
            a, b, s = a0
            if a1 != ["%s + %s" % (a, s), b, s]:
                rep.violate("R2-tiling", construct, "chunk stops srange(%s) do not follow the starts range(%s): tiles overlap or leave gaps" % (", ".join(a1), ", ".join(a0)),
                            where(f, lp), "srange(%s + %s, %s, %s)" % (a, s, b, s), ", ".join(a1))
            else:
                tiles.append((names, (a, b, s), lp))
        else:
            rep.unrec("R2-tiling", construct, "chunk generator not zip(range(a,b,s), srange(a+s,b,s)): %s" % dump(lp.iter)[:70])
    # a column loop restricted to blocks up to the current row block (triangular visit with the mirror block folded in)
    tri_loops = []
    for lp in loops:
        r0, r1 = lp.iter.args
        a0, a1 = [dump(a) for a in r0.args], [dump(a) for a in r1.args]
        rowvars = {n for t in tiles for n in t[0]}
        if len(a0) == 3 and len(a1) == 3 and (set(x.id for x in ast.walk(r0) if isinstance(x, ast.Name)) & rowvars):
            tri_loops.append(lp)
    if tri_loops:
        # the mirror block of a matrix-valued contribution M is M.T: folding it in needs M + M.T; a doubled M is only right for vector-valued (summed) contributions
        lp = tri_loops[0]
        dbl = [k for k, vs in defs.items() for v in vs if isinstance(v, ast.IfExp) and {dump(v.body), dump(v.orelse)} == {"1.0", "2.0"}]
        verdict = None
        for n in ast.walk(lp):
            if isinstance(n, ast.Assign) and isinstance(n.targets[0], ast.Name) and "partial" in n.targets[0].id:
                v = n.value
                txt = dump(v)
                uses_dbl = any(isinstance(x, ast.Name) and x.id in dbl for x in ast.walk(v)) or "2.0 *" in txt or "* 2.0" in txt
                matrix_valued = ".T" in txt and "@" in txt and ".sum(" not in txt
                symmetrised = ".T" in txt and "+" in txt and txt.count("@") >= 2 and ("(" + txt).count("D") >= 2
                if uses_dbl and matrix_valued and not symmetrised:
                    verdict = ("bad", n)
                elif uses_dbl and not matrix_valued:
                    verdict = ("ok", n)
        if verdict is None and dbl:
            # the weight is applied where the block's contribution is accumulated: out[..., :, :] += w * part  (matrix-valued when the target keeps two full trait axes)
            for n in ast.walk(lp):
                if isinstance(n, ast.AugAssign) and isinstance(n.op, ast.Add) and isinstance(n.target, ast.Subscript) \
                        and any(isinstance(x, ast.Name) and x.id in dbl for x in ast.walk(n.value)):
                    sl = list(n.target.slice.elts) if isinstance(n.target.slice, ast.Tuple) else [n.target.slice]
                    while sl and isinstance(sl[-1], ast.Slice) and sl[-1].lower is None and sl[-1].upper is None:
                        sl.pop()
                    # axes the store keeps whole = rank of the allocation - number of leading indices (x[i, j] and x[i, j, :, :] are the same store)
                    full = None
                    al = defs.get(n.target.value.id, [None])[0] if isinstance(n.target.value, ast.Name) else None
                    if isinstance(al, ast.Call) and (prog.dotted(f.module, al.func) or "") in ("numpy.zeros", "numpy.empty", "numpy.full", "numpy.ones") and al.args:
                        shp = al.args[0]
                        if isinstance(shp, ast.Name) and len(defs.get(shp.id, [])) == 1:
                            shp = defs[shp.id][0]
                        if isinstance(shp, ast.Tuple) and not any(isinstance(e, ast.Starred) for e in shp.elts) \
                                and not any(isinstance(e, ast.Slice) or (isinstance(e, ast.Constant) and e.value is None) for e in sl):
                            full = len(shp.elts) - len(sl)
                    if full is None:
                        continue
                    txt = dump(n.value)
                    symmetrised = ".T" in txt and "+" in txt
                    if full >= 2 and not symmetrised:
                        verdict = ("bad", n)
                    elif full <= 1:
                        verdict = ("ok", n)
        if verdict is None:
            # the doubling may be applied to the linkage matrix itself, in place, for the off-diagonal blocks: `if cst != rst: D *= 2.0`
            dbl2 = {n.target.id for n in ast.walk(lp) if isinstance(n, ast.AugAssign) and isinstance(n.op, ast.Mult) and isinstance(n.target, ast.Name)
                    and isinstance(n.value, ast.Constant) and n.value.value in (2, 2.0)}
            if dbl2:
                dep = set(dbl2)
                for _ in range(4):
                    for n in ast.walk(lp):
                        if isinstance(n, ast.Assign) and len(n.targets) == 1 and isinstance(n.targets[0], ast.Name) and any(isinstance(x, ast.Name) and x.id in dep for x in ast.walk(n.value)):
                            dep.add(n.targets[0].id)
                for n in ast.walk(lp):
                    if isinstance(n, ast.AugAssign) and isinstance(n.op, ast.Add) and isinstance(n.target, ast.Subscript) and isinstance(n.target.value, ast.Name) \
                            and any(isinstance(x, ast.Name) and x.id in dep for x in ast.walk(n.value)):
                        sl = list(n.target.slice.elts) if isinstance(n.target.slice, ast.Tuple) else [n.target.slice]
                        al = defs.get(n.target.value.id, [None])[0]
                        full = None
                        if isinstance(al, ast.Call) and (prog.dotted(f.module, al.func) or "") in ("numpy.zeros", "numpy.empty", "numpy.full", "numpy.ones") and al.args:
                            shp = al.args[0]
                            if isinstance(shp, ast.Name) and len(defs.get(shp.id, [])) == 1:
                                shp = defs[shp.id][0]
                            if isinstance(shp, ast.Tuple) and not any(isinstance(e, (ast.Starred, ast.Slice)) for e in list(shp.elts) + sl):
                                full = len(shp.elts) - len(sl)
                        if full is None:
                            continue
                        # is what is accumulated symmetrised (M + M.T)?  look at the definition of the accumulated value
                        vtxt = dump(n.value)
                        for x in ast.walk(n.value):
                            if isinstance(x, ast.Name) and x.id in dep:
                                for d_ in ast.walk(lp):
                                    if isinstance(d_, ast.Assign) and isinstance(d_.targets[0], ast.Name) and d_.targets[0].id == x.id:
                                        vtxt += " " + dump(d_.value)
                        symmetrised = ".T" in vtxt and "+" in vtxt and vtxt.count("@") >= 2
                        if full >= 2 and not symmetrised:
                            verdict = ("bad", n)
                        elif full <= 1:
                            verdict = ("ok", n)
        if verdict and verdict[0] == "bad":
            rep.violate("R2-tiling", construct, "column blocks are visited only up to the row block and the (trait x trait) contribution M of an off-diagonal block is doubled; "
                        "its mirror block contributes M' (transpose), so between-trait covariances depend on the chunk size", where(f, verdict[1]),
                        "M + M.T for folded mirror blocks (or visit all column blocks)", dump(verdict[1].value)[:70])
        elif verdict and verdict[0] == "ok":
            rep.ok("R2-tiling", construct, "triangular block visit with doubled vector-valued contributions")
        else:
            rep.unrec("R2-tiling", construct, "triangular column tiling not modelled: %s" % dump(lp.iter)[:70])
        tiles = [t for t in tiles if t[2] not in tri_loops]
    if tiles:
        spans = {t[1] for t in tiles}
        if len(spans) > 1:
            rep.violate("R2-tiling", construct, "row and column chunks tile different intervals / steps %s: some marker pairs are visited twice or never (the result depends "
                        "on the chunk size)" % sorted(spans), where(f, tiles[-1][2]), "one (start, stop, step) for all chunk loops", str(sorted(spans)))
        else:
            (a, b, s), = spans
            sv = defs.get(s, [])
            ok_step = len(sv) == 1 and dump(sv[0]) in ("%s - %s if mem is None else mem" % (b, a), "mem if mem is not None else %s - %s" % (b, a))
            if not ok_step:
                rep.unrec("R2-tiling", construct, "chunk step %s not `(stop - start) if mem is None else mem`" % (dump(sv[0]) if sv else s))
            else:
                memuse = [n for n in walk_no_nested(f.node) if isinstance(n, ast.Name) and n.id == "mem" and isinstance(n.ctx, ast.Load)]
                stepnode = sv[0]
                extra = [n for n in memuse if n not in list(ast.walk(stepnode)) and not _in_check(f, n)]
                if extra:
                    rep.violate("R2-tiling", construct, "the memory-chunk parameter is used outside the chunk step: the value can depend on it", where(f, extra[0]))
                else:
                    rep.ok("R2-tiling", construct, "%d chunk loops tile [%s,%s) with step %s; mem only in the step" % (len(tiles), a, b, s))
        # ---------------------------------------------------------------- R3 coupling
        rows = [t[0] for t in tiles]
        pair_names = {tuple(x) for x in rows}
        flat = {n for p in pair_names for n in p}
        bad = False
        nsl = 0
        for n in walk_no_nested(f.node):
            if isinstance(n, ast.Slice):
                used = {x.id for x in ast.walk(n) if isinstance(x, ast.Name)} & flat
                if used:
                    nsl += 1
                    lo, hi = (dump(n.lower) if n.lower is not None else None), (dump(n.upper) if n.upper is not None else None)
                    if (lo, hi) not in pair_names or n.step is not None:
                        rep.violate("R3-coupling", construct, "a chunk slice is [%s:%s], which is not one of the chunk intervals %s: arrays of different marker ranges are combined"
                                    % (lo, hi, sorted(pair_names)), where(f, n), "[rst:rsp] or [cst:csp]", "[%s:%s]" % (lo, hi))
                        bad = True
        # r = mapfn(|gi - gj|) from genpos meshed rows x cols
        mg = [n for n in walk_no_nested(f.node) if isinstance(n, ast.Assign) and isinstance(n.value, ast.Call) and prog.dotted(f.module, n.value.func) == "numpy.meshgrid"]
        for m in mg:
            kws, _ = kwargs_of(m.value)
            args = [dump(a) for a in m.value.args]
            if len(tiles) >= 2 and len(args) == 2:
                (rn, _, _), (cn, _, _) = tiles[0], tiles[1]
                gnames = [k for k, vs in defs.items() if any(isinstance(v, ast.Attribute) and v.attr == "vrnt_genpos" for v in vs)] or ["genpos"]
                want = ["%s[%s:%s]" % ((gnames[0],) + tuple(rn)), "%s[%s:%s]" % ((gnames[0],) + tuple(cn))]
                if args != want:
                    rep.violate("R3-coupling", construct, "recombination mesh is built from (%s), not from the genetic positions of (row chunk, column chunk)" % ", ".join(args),
                                where(f, m), ", ".join(want), ", ".join(args))
                    bad = True
                if "indexing" not in kws or dump(kws["indexing"]) != "'ij'":
                    rep.violate("R3-coupling", construct, "recombination mesh does not use indexing='ij' (rows would follow the column chunk)", where(f, m), "indexing='ij'",
                                dump(kws.get("indexing")) if "indexing" in kws else "default 'xy'")
                    bad = True
        # the linkage terms receive (r, nself): r is found as the first argument of the cov_D* calls, never by its name
        rnames = set()
        for k, vs in defs.items():
            for v in vs:
                if isinstance(v, ast.Call) and isinstance(v.func, ast.Name) and v.func.id.startswith("cov_D"):
                    a = [dump(x) for x in v.args]
                    if len(v.args) >= 2 and isinstance(v.args[0], ast.Name) and a[1] == "nself":
                        rnames.add(v.args[0].id)
                    else:
                        rep.violate("R3-coupling", construct, "linkage term %s receives (%s), not (recombination probabilities, nself, ...)" % (v.func.id, ", ".join(a)), where(f, v),
                                    "r, nself", ", ".join(a))
                        bad = True
        bad = _check_derived_linkage(prog, rep, f, defs, construct) or bad
        if mg and len(rnames) == 1:
            R = sorted(rnames)[0]
            rdef = defs.get(R, [])
            gi, gj = [dump(e) for e in mg[0].targets[0].elts]
            gm = [p_ for p_ in f.params() if "mapfn" in p_]
            fn_ = (gm[0] if gm else "gmapfn") + ".mapfn"
            okr = rdef and dump(rdef[0]) in ("%s(numpy.abs(%s - %s))" % (fn_, gi, gj), "%s(numpy.absolute(%s - %s))" % (fn_, gi, gj), "%s(numpy.abs(%s - %s))" % (fn_, gj, gi),
                                             "%s(numpy.absolute(%s - %s))" % (fn_, gj, gi))
            if not okr:
                d0 = dump(rdef[0])[:60] if rdef else "<undefined>"
                if rdef and (gi in d0 or gj in d0 or "mapfn" in d0):
                    rep.violate("R3-coupling", construct, "recombination probabilities are %s, not the map function of |gi - gj|" % d0, where(f), "%s(numpy.abs(%s - %s))" % (fn_, gi, gj), d0)
                else:
                    rep.violate("R3-coupling", construct, "the linkage terms receive %s = %s, which is not the map function of the meshed genetic distances" % (R, d0), where(f),
                                "%s(numpy.abs(%s - %s))" % (fn_, gi, gj), d0)
                bad = True
        elif mg and len(rnames) > 1:
            rep.violate("R3-coupling", construct, "the linkage terms of one chunk receive different recombination arrays: %s" % sorted(rnames), where(f))
            bad = True
        if not bad:
            rep.ok("R3-coupling", construct, "%d chunk slices all [rst:rsp]/[cst:csp]; r = mapfn(|gi-gj|) of genpos meshed (rows, cols) 'ij'; linkage terms get (r, nself)" % nsl)
    # ------------------------------------------------------------------ R4 storage
    ctor = [n for n in walk_no_nested(f.node) if isinstance(n, ast.Call) and dump(n.func) == "cls"]
    if len(ctor) != 1:
        rep.unrec("R4-storage", construct, "construction not found")
        return
    kws, _ = kwargs_of(ctor[0])
    out = kws.get("mat")
    if not isinstance(out, ast.Name) or len(defs.get(out.id, [])) != 1:
        rep.unrec("R4-storage", construct, "result array not a single allocation")
        return
    al = defs[out.id][0]
    d = prog.dotted(f.module, al.func) if isinstance(al, ast.Call) else None
    if d not in ("numpy.zeros", "numpy.empty", "numpy.full") or not al.args or not isinstance(al.args[0], ast.Tuple):
        rep.unrec("R4-storage", construct, "allocation not numpy.zeros/empty(<tuple>)")
        return
    rank = len(al.args[0].elts)
    good = True
    subs = [n for n in walk_no_nested(f.node) if isinstance(n, ast.Subscript) and isinstance(n.value, ast.Name) and n.value.id == out.id]
    for s in subs:
        k = getattr(s, "_nsub_written", len(s.slice.elts) if isinstance(s.slice, ast.Tuple) else 1)
        if k > rank:
            rep.violate("R4-storage", construct, "the result is allocated with %d axes %s but indexed with %d subscripts (%s): raises on first use" % (rank, dump(al.args[0]), k, getattr(s, "_written", dump(s))[:50]),
                        where(f, s), "at most %d subscripts" % rank, str(k))
            good = False
            break
    if d == "numpy.empty":
        # coverage: strict-lower-triangle fill + mirror leaves the diagonal unwritten
        tri = [n for n in walk_no_nested(f.node) if isinstance(n, ast.For) and isinstance(n.iter, ast.Call) and dump(n.iter.func) == "range" and len(n.iter.args) == 2
               and isinstance(n.iter.args[1], ast.Name) and dump(n.iter.args[0]) == "0"]
        if tri:
            rep.violate("R4-storage", construct, "storage from numpy.empty is written only for %s < %s and its mirror: entries with identical parents (the diagonal) are "
                        "uninitialised memory instead of 0" % (dump(tri[0].target), dump(tri[0].iter.args[1])), where(f, al), "numpy.zeros(...)", "numpy.empty(...)")
            good = False
        else:
            rep.unrec("R4-storage", construct, "numpy.empty result: coverage of the fill loops not modelled")
            good = False
    # mirror: lower -> upper with the same loop ranges (genetic variants: separate mirror nest; genic: both stores in the fill loop)
    if good:
        rep.ok("R4-storage", construct, "result %s%s; none of the %d subscripts exceeds rank %d" % (d, dump(al.args[0]), len(subs), rank))


def _in_check(f, node):
    """the name is read inside an argument check: a check_* call, or an `if ...: raise` guard"""
    for n in walk_no_nested(f.node):
        if isinstance(n, ast.Call) and isinstance(n.func, ast.Name) and n.func.id.startswith("check_") and node in list(ast.walk(n)):
            return True
        if is_guard(n) and node in list(ast.walk(n)):
            return True
    return False


def _check_derived_linkage(prog, rep, f, defs, construct):
    """A local computed by plain arithmetic from linkage terms (results of cov_D*(r, nself)) that coincides with one of the closed forms of
    pybrops.model.vmat.util without selfing (nself == 0) but not with selfing generations is a linkage term taken by a shortcut that only holds for
    nself = 0 (e.g. D1*D1 for cov_D2s).  The closed forms are read from the util functions on every run."""
    try:
        util = prog.module("pybrops.model.vmat.util")
    except Exception:
        return False
    link = {}
    for k, vs in defs.items():
        if len(vs) == 1 and isinstance(vs[0], ast.Call) and isinstance(vs[0].func, ast.Name) and vs[0].func.id.startswith("cov_D") and len(vs[0].args) == 2 \
                and all(isinstance(a, ast.Name) for a in vs[0].args):
            g = prog.resolve_name(f.module, vs[0].func.id)
            if hasattr(g, "node") and len(g.params()) == 2:
                link[k] = (g, [a.id for a in vs[0].args])
    derived = {}
    for k, vs in defs.items():
        if k in link or len(vs) != 1 or isinstance(vs[0], (ast.Name, ast.Constant)):
            continue
        names = {n.id for n in ast.walk(vs[0]) if isinstance(n, ast.Name)}
        if names and names <= set(link) and not any(isinstance(n, (ast.Call, ast.Subscript, ast.Attribute)) for n in ast.walk(vs[0])):
            derived[k] = vs[0]
    if not derived:
        return False
    args = {tuple(a) for _, a in link.values()}
    if len(args) != 1:
        return False
    rname, kname = next(iter(args))
    cands = [g for g in util.functions.values() if g.name.startswith("cov_D") and len(g.params()) == 2]
    forms = {}
    try:
        for g in cands:
            pr, pk = g.params()
            pv = path_values(prog, g, env={pr: Poly.atom(("var", rname)), pk: Poly.atom(("var", kname))})
            v0 = [v for c, v in pv if c and c[0] == ("%s == 0" % pk, True) and v is not RAISES and v is not None]
            v1 = [v for c, v in pv if c and c[0] == ("%s == 0" % pk, False) and ("%s > 0" % pk, True) in c and v is not RAISES and v is not None]
            if len(v0) == 1 and len(v1) == 1:
                forms[g.name] = (v0[0], v1[0])
    except VNUnknown:
        return False
    bad = False
    for k, e in sorted(derived.items()):
        if not all(link[n][0].name in forms for n in {x.id for x in ast.walk(e) if isinstance(x, ast.Name)}):
            continue
        try:
            p0 = VN(prog, f, {n: forms[link[n][0].name][0] for n in link if link[n][0].name in forms}).expr(e)
            p1 = VN(prog, f, {n: forms[link[n][0].name][1] for n in link if link[n][0].name in forms}).expr(e)
        except VNUnknown:
            continue
        both = [h for h, (a0, a1) in forms.items() if p0 == a0 and p1 == a1]
        only0 = [h for h, (a0, a1) in forms.items() if p0 == a0 and p1 != a1]
        if both or not only0:
            continue
        node = e
        rep.violate("R3-coupling", construct, "%s = %s equals %s(%s, %s) only without selfing (nself = 0): with intermediate selfing generations the closed form is %s, "
                    "not %s" % (k, dump(e), only0[0], rname, kname, forms[only0[0]][1].show()[:70], p1.show()[:70]), where(f, node),
                    "%s(%s, %s)" % (only0[0], rname, kname), dump(e))
        bad = True
    return bad


# expected parental genome contributions by cross design, along the matrix's parent axes in the order from_algmod fills them:
# R x (F x M): half of the progeny genome from the recurrent parent, a quarter from each parent of the F1; (A x B) x (C x D): a quarter each
EPGC = {"TwoWay": (0.5, 0.5), "Dihybrid": (0.5, 0.5), "ThreeWay": (0.5, 0.25, 0.25), "FourWay": (0.25, 0.25, 0.25, 0.25)}


def check_epgc(prog, rep):
    """R8-epgc: the usefulness criterion weights the parental breeding values with `vmat.epgc`; the tensor stored next to it is the variance of the progeny of
    exactly that cross design, parent axes in from_algmod's order.  Each design's table is the pedigree's (EPGC), and the genetic and the genic matrix of one
    design agree (sibling check)."""
    seen = {}
    for m in sorted(prog.modules.values(), key=lambda m_: m_.name):
        if not m.name.startswith("pybrops.model.vmat."):
            continue
        for c in m.classes.values():
            P = c.own_props.get("epgc")
            f = P.getter if P is not None else None
            if f is None:
                continue
            body = body_nodoc(f.node)
            if len(body) == 1 and isinstance(body[0], ast.Raise):
                continue
            rep.saw(f)
            construct = "%s.epgc" % c.qualname
            design = [d for d in EPGC if d in c.name]
            if not (len(body) == 1 and isinstance(body[0], ast.Return) and isinstance(body[0].value, ast.Tuple) and all(isinstance(e, ast.Constant) for e in body[0].value.elts)):
                rep.unrec("R8-epgc", construct, "contribution table is not a constant tuple")
                continue
            val = tuple(e.value for e in body[0].value.elts)
            want = EPGC[design[0]] if len(design) == 1 else ((0.5, 0.5) if not design else None)
            if want is None:
                rep.unrec("R8-epgc", construct, "cross design of %s not known" % c.name)
                continue
            if val != want:
                rep.violate("R8-epgc", construct, "expected parental genome contributions are %s; the progeny of this design (%s) carry %s of their parents along the parent axes: the "
                            "usefulness criterion weights the parents' breeding values with the wrong shares" % (val, design[0] if design else "two-way", want), where(f), str(want), str(val))
            else:
                rep.ok("R8-epgc", construct, "contributions %s match the pedigree of the design" % (val,))


def run(prog, rep, tier):
    rep.explanation = ("Branch-by-branch spec congruence of the linkage-decay terms (algebraic normal form), tiling and slice-coupling rules over the chunked double sums of "
                       "all sixteen from_algmod builders, rank / initialisation analysis of the result tensors, and the usefulness-criterion formula. These are necessary "
                       "conditions; equality with exhaustive gamete enumeration is a numerical identity outside static reach.")
    rep.not_decided = ["the tensor identity itself (equality with exhaustive gamete enumeration)", "the algebra of the block products (e.g. M + M' for mirrored trait blocks)"]
    rep.only_rules = {"R1-linkage", "R2-tiling", "R3-coupling", "R4-storage", "R6-chunks", "R5-usefulness", "R8-epgc"}
    for r, n in (("R1-linkage", 12), ("R2-tiling", 7), ("R3-coupling", 7), ("R4-storage", 14), ("R6-chunks", 2)):
        rep.floor(r, n)
    check_linkage(prog, rep)
    for pref, names in FAMILIES:
        for nm in names:
            c = prog.get_class(nm, pref + nm)
            check_from_algmod(prog, rep, c)
    c05.check_chunks(prog, rep)
    # the usefulness criterion is built from the variance at the requested selfing depth: arguments reach _calc_uc in its parameter order
    c05.check_positional(prog, rep, rule="R5-usefulness", modules=("UsefulnessCriterion",))
    rep.floor("R5-usefulness", 8)
    rep.floor("R8-epgc", 9)
    check_epgc(prog, rep)
    wire(prog, rep, "C12", 8, 320, 8)
