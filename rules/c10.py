"""
C10  Selection limits bound every attainable value and only ever tighten   (formulas + closure lemmas)

  R1-limits     usl_numpy == ploidy * sum_markers u * [u > 0 ? p > 0 : p >= 1] ; lsl_numpy is its mirror (p >= 1 / p > 0 swapped); both add
                the same intercept term when unscale; usl/lsl take p from the matrix's own afreq() and ploidy from the matrix
                "lower and upper selection limits ... bracket the genomic breeding value ... both limits equal the common breeding value when the
                 population is fixed at all loci"
  R2-exact      R5-exact-at-one of C09 on every comparison with 1 in the limit code (p >= 1.0)
  R3-closure    lemmas from C01: gametes contain only alleles of the selected parent at the same marker (R1-provenance, R2-tiling, R4-stacking)
                "an allele that has been lost from the population never reappears" -- the structural reason the limits can only tighten
  R6-accumulator (C09) the frequencies the limits are computed from are not accumulated in int8
"""
import ast

from sa.astutil import dump, where, walk_no_nested, field_of
from sa.model import body_nodoc
from sa.vn import VN, Poly, VNUnknown, comparable
from rules import c01, c09

MODELS = (("pybrops.model.gmod.DenseAdditiveLinearGenomicModel", "DenseAdditiveLinearGenomicModel"),
          ("pybrops.model.gmod.DenseLinearGenomicModel", "DenseLinearGenomicModel"))


def _limit_core(prog, f):
    """normal form of the part before `if unscale:` and of the unscale block's increment"""
    body = body_nodoc(f.node)
    vn = VN(prog, f)
    inc = None
    for st in body:
        if isinstance(st, ast.If) and dump(st.test) == "unscale":
            sub = VN(prog, f, env=dict(vn.env))
            for s2 in st.body:
                sub.stmt(s2)
            inc = sub.env.get("out")
            continue
        if isinstance(st, ast.Return):
            return vn.expr(st.value), inc
        vn.stmt(st)
    return None, inc


def _contrast_row(prog, f):
    """(weight of the first fixed effect, weight of the others) of the row vector that multiplies self.beta in the unscale block, as texts '1' / '1/q' / '0' / other,
    or None when the row is not built by an allocation of shape (1, q) plus constant stores"""
    body = [s_ for st in body_nodoc(f.node) if isinstance(st, ast.If) and dump(st.test) == "unscale" for s_ in st.body]
    prod = [n for s_ in body for n in ast.walk(s_) if (isinstance(n, ast.BinOp) and isinstance(n.op, ast.MatMult) and dump(n.right) in ("self.beta", "self._beta"))
            or (isinstance(n, ast.Call) and isinstance(n.func, ast.Attribute) and n.func.attr == "dot" and n.args and dump(n.args[0]) in ("self.beta", "self._beta"))]
    if len(prod) != 1:
        return None
    X = prod[0].left if isinstance(prod[0], ast.BinOp) else prod[0].func.value
    if not isinstance(X, ast.Name):
        return None
    qnames = {"len(self.beta)", "self.beta.shape[0]", "len(self._beta)"}
    for s_ in body:
        if isinstance(s_, ast.Assign) and isinstance(s_.targets[0], ast.Name) and "".join(dump(s_.value).split()) in {"".join(q.split()) for q in qnames}:
            qnames.add(s_.targets[0].id)

    def wt(e):
        t = "".join(dump(e).split())
        if t in ("1", "1.0"):
            return "1"
        if t in ("0", "0.0"):
            return "0"
        for q in qnames:
            q_ = "".join(q.split())
            if t in ("1/%s" % q_, "1.0/%s" % q_, "1/float(%s)" % q_):
                return "1/q"
        return t[:20]
    first = rest = None
    for s_ in body:
        if isinstance(s_, ast.Assign) and isinstance(s_.targets[0], ast.Name) and s_.targets[0].id == X.id and isinstance(s_.value, ast.Call):
            d = prog.dotted(f.module, s_.value.func)
            if d in ("numpy.empty",):
                first = rest = None
            elif d == "numpy.zeros":
                first = rest = "0"
            elif d == "numpy.ones":
                first = rest = "1"
            elif d == "numpy.full" and len(s_.value.args) >= 2:
                first = rest = wt(s_.value.args[1])
            else:
                return None
        elif isinstance(s_, ast.Assign) and isinstance(s_.targets[0], ast.Subscript) and isinstance(s_.targets[0].value, ast.Name) and s_.targets[0].value.id == X.id:
            ix = "".join(dump(s_.targets[0].slice).split())
            if ix in ("0,0", "(0,0)", ":,0"):
                first = wt(s_.value)
            elif ix in ("0,1:", "(0,1:)", ":,1:"):
                rest = wt(s_.value)
            elif ix in ("0", "0,:", ":", "...", ":,:"):
                first = rest = wt(s_.value)
            else:
                return None
    if first is None or rest is None:
        return None
    return (first, rest)


def check_limits(prog, rep):
    for mod, cname in MODELS:
        K = prog.get_class(cname, mod)
        fu, fl = prog.lookup_method(K, "usl_numpy"), prog.lookup_method(K, "lsl_numpy")
        if fu is None or fl is None:
            rep.unrec("R1-limits", K.qualname, "usl_numpy / lsl_numpy vanished")
            continue
        rep.saw(fu)
        rep.saw(fl)
        eff = "u_a" if cname == "DenseAdditiveLinearGenomicModel" else None
        try:
            cu, iu = _limit_core(prog, fu)
            cl, il = _limit_core(prog, fl)
        except VNUnknown as e:
            rep.unrec("R1-limits", K.qualname, "limit body not straight-line: %s" % e)
            continue
        # which attribute holds the effects: read it from the code (self.u_a / self.u)
        atoms = {a[1] for a in _attr_atoms(cu)}
        effs = [a for a in atoms if a.startswith("u")]
        if len(effs) != 1:
            rep.unrec("R1-limits", fu.qualname, "marker-effect attribute not identified (%s)" % sorted(atoms))
            continue
        u = effs[0]
        pu = fu.params()[1]
        refu = "(float(ploidy) * self.%s * numpy.where(self.%s > 0.0, %s[:, None] > 0.0, %s[:, None] >= 1.0)).sum(0)" % (u, u, pu, pu)
        refl = "(float(ploidy) * self.%s * numpy.where(self.%s > 0.0, %s[:, None] >= 1.0, %s[:, None] > 0.0)).sum(0)" % (u, u, pu, pu)
        ru = VN(prog, fu).expr(ast.parse(refu, mode="eval").body)
        rl = VN(prog, fl).expr(ast.parse(refl, mode="eval").body)
        for f, got, ref, other, nm, txt in ((fu, cu, ru, rl, "upper", refu), (fl, cl, rl, ru, "lower", refl)):
            if got == ref:
                rep.ok("R1-limits", f.qualname, "%s limit == %s" % (nm, txt), sample={"function": f.qualname, "normal_form": got.show()[:200]})
            elif got == other:
                rep.violate("R1-limits", f.qualname, "the %s limit is computed with the %s limit's allele test (p > 0 / p >= 1 swapped)" % (nm, "lower" if nm == "upper" else "upper"),
                            where(f), txt, got.show()[:160])
            elif comparable(got, ref):
                rep.violate("R1-limits", f.qualname, "the %s limit normalises to %s; its definition is %s" % (nm, got.show()[:160], ref.show()[:160]), where(f), txt, got.show()[:160])
            else:
                rep.unrec("R1-limits", f.qualname, "limit written with operators the reference does not use: %s" % got.show()[:120])
        # the intercept the limits are shifted by is the one breeding values carry: first fixed effect in full, the others averaged (the contrast gebv() uses)
        if iu is not None:
            try:
                rv = VN(prog, fu)
                for st_ in ast.parse("q = self.beta.shape[0]\nX = numpy.empty((1, q), dtype=self.beta.dtype)\nX[0, 0] = 1\nX[0, 1:] = 1 / q\nloc = (X @ self.beta).ravel()").body:
                    rv.stmt(st_)
                want_loc = rv.env["loc"]
                alt = VN(prog, fu).expr(ast.parse("(X @ self.beta)[0]", mode="eval").body)
                got_loc = iu - cu
                rv2 = VN(prog, fu)
                for st_ in ast.parse("q = self.beta.shape[0]\nX = numpy.empty((1, q), dtype=self.beta.dtype)\nX[0, 0] = 1\nX[0, 1:] = 1 / q\nloc = X @ self.beta").body:
                    rv2.stmt(st_)
                if got_loc in (want_loc, rv2.env["loc"]):
                    rep.ok("R1-limits", K.qualname + "#location", "limits are shifted by the same intercept contrast as the breeding values ([1, 1/q, ...] . beta)")
                elif comparable(got_loc, want_loc) or comparable(got_loc, rv2.env["loc"]):
                    rep.violate("R1-limits", fu.qualname, "when unscale, the limits are shifted by %s, not by the intercept contrast of the breeding values ([1, 1/q, ..., 1/q] . beta): "
                                "limits and breeding values are on different origins" % got_loc.show()[:100], where(fu), rv2.env["loc"].show()[:100], got_loc.show()[:100])
                else:
                    row = _contrast_row(prog, fu)
                    if row is None:
                        rep.unrec("R1-limits", K.qualname + "#location", "intercept term %s written with other operators" % got_loc.show()[:80])
                    elif row == ("1", "1/q"):
                        rep.ok("R1-limits", K.qualname + "#location", "limits are shifted by [1, 1/q, ...] . beta (row built as %s)" % (row,))
                    else:
                        rep.violate("R1-limits", fu.qualname, "when unscale, the limits are shifted by the fixed effects weighted (%s, %s, ...), not by the intercept contrast of the "
                                    "breeding values (1, 1/q, ..., 1/q): with more than one fixed effect limits and breeding values are on different origins" % row, where(fu),
                                    "(1, 1/q, ..., 1/q)", "(%s, %s, ...)" % row)
            except (VNUnknown, KeyError) as e:
                rep.unrec("R1-limits", K.qualname + "#location", "intercept term not evaluated: %s" % e)
        # same intercept term in both
        if iu is not None and il is not None:
            du, dl = iu - cu, il - cl
            if du == dl:
                rep.ok("R1-limits", K.qualname + "#intercept", "usl and lsl add the same intercept term when unscale")
            else:
                rep.violate("R1-limits", K.qualname, "usl and lsl add different intercept terms when unscale (%s vs %s)" % (du.show()[:80], dl.show()[:80]), where(fl),
                            du.show()[:80], dl.show()[:80])
        elif (iu is None) != (il is None):
            rep.violate("R1-limits", K.qualname, "only one of usl_numpy / lsl_numpy adds the intercept when unscale", where(fl))
        # usl / lsl take p from the matrix's own afreq and ploidy from the matrix
        for nm in ("usl", "lsl"):
            f = prog.lookup_method(K, nm)
            if f is None:
                continue
            rep.saw(f)
            g = f.params()[1]
            defs = {}
            for s_ in walk_no_nested(f.node):
                if isinstance(s_, ast.Assign) and len(s_.targets) == 1 and isinstance(s_.targets[0], ast.Name):
                    defs.setdefault(s_.targets[0].id, []).append("".join(dump(s_.value).split()))
            call = [n for n in walk_no_nested(f.node) if isinstance(n, ast.Call) and dump(n.func) == "self.%s_numpy" % nm]
            callee = prog.lookup_method(K, nm + "_numpy")
            cps = callee.params()[1:]
            if len(call) != 1 or len(call[0].args) < 2 or len(cps) < 2:
                rep.unrec("R1-limits", f.qualname, "frequency / ploidy hand-off not in the modelled form")
                continue
            a = call[0].args

            def roles(e):
                """what a hand-off argument can hold: 'afreq' (the matrix's own frequencies), 'ploidy' (the matrix's ploidy), 'param:<name>'"""
                out = set()
                if isinstance(e, ast.Name):
                    for d in defs.get(e.id, []):
                        if d == "%s.afreq()" % g:
                            out.add("afreq")
                        elif d == "%s.ploidy" % g:
                            out.add("ploidy")
                        elif d.startswith("%s.afreq(" % g):
                            out.add("afreq-with-arguments")
                    if e.id in f.params():
                        out.add("param:" + e.id)
                return out
            r0, r1 = roles(a[0]), roles(a[1])
            fwd = True
            if len(cps) > 2 and cps[2] in f.params():
                third = a[2] if len(a) > 2 else {k.arg: k.value for k in call[0].keywords}.get(cps[2])
                fwd = third is not None and dump(third) == cps[2]
            if "afreq" in r0 and "ploidy" in r1 and fwd:
                rep.ok("R1-limits", f.qualname, "%s = %s_numpy(%s.afreq(), %s.ploidy%s)" % (nm, nm, g, g, ", " + cps[2] if len(cps) > 2 else ""))
            elif "ploidy" in r0 or "afreq" in r1:
                rep.violate("R1-limits", f.qualname, "%s_numpy receives the matrix's %s where its frequencies belong (arguments exchanged): (%s)"
                            % (nm, "ploidy" if "ploidy" in r0 else "frequencies as ploidy", ", ".join(dump(x) for x in a[:3])), where(f, call[0]),
                            "%s.afreq(), %s.ploidy" % (g, g), ", ".join(dump(x) for x in a[:3]))
            elif not fwd:
                rep.violate("R1-limits", f.qualname, "%s is not forwarded to %s_numpy under its own name" % (cps[2], nm), where(f, call[0]), cps[2], "absent / other")
            elif "afreq" not in r0 and not any("afreq" in d for ds in defs.values() for d in ds):
                rep.violate("R1-limits", f.qualname, "allele frequencies are not taken from the genotype matrix's afreq()", where(f), "%s.afreq()" % g, "other")
            elif "afreq-with-arguments" in r0:
                rep.unrec("R1-limits", f.qualname, "frequencies requested with arguments: %s" % defs.get(a[0].id))
            else:
                rep.unrec("R1-limits", f.qualname, "frequency / ploidy hand-off not in the modelled form")


def _attr_atoms(poly):
    out = set()

    def rec(k):
        if isinstance(k, tuple):
            if len(k) == 2 and k[0] == "attr" and isinstance(k[1], str):
                out.add(k)
            for x in k:
                rec(x)
    rec(poly.key())
    return out


def run(prog, rep, tier):
    rep.explanation = ("Spec congruence of the two limit formulas (and their mirror relation) through an algebraic normal form, the boundary-exactness taint of "
                       "C09 on every comparison with 1, the int8-accumulator rule on the frequency routines, and the closure lemmas of C01 (gametes only copy "
                       "parental alleles at the same marker) which are the structural reason limits can only tighten along a closed history.")
    rep.not_decided = ["monotonicity along histories as a runtime fact: it is the logical consequence of R1-R3 for exact frequencies, stated as an argument, not explored",
                       "every selection rule / protocol parameter"]
    rep.only_rules = {"R1-limits", "R5-exact-at-one", "R6-accumulator", "R8-fresh", "R1-provenance", "R2-tiling", "R4-stacking", "R3-crossover"}
    for r, n in (("R1-limits", 8), ("R5-exact-at-one", 4), ("R6-accumulator", 4), ("R8-fresh", 16), ("R1-provenance", 2), ("R2-tiling", 2), ("R4-stacking", 4)):
        rep.floor(r, n)
    check_limits(prog, rep)
    c09.check_exactness(prog, rep, tier, sink_filter=c09.NOT_SELECTION)
    for mod, cname in (c09.GM, c09.PGM):
        K = prog.get_class(cname, mod)
        c09.check_accumulators(prog, rep, K, ["afreq", "acount", "tacount", "tafreq"])
        c09.check_fresh(prog, rep, K, ["afreq", "acount", "tacount", "tafreq", "maf", "apoly", "afixed", "meh", "gtcount"])
    c01.run_meiosis_rules(prog, rep)
