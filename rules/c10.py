"""
C10  Selection limits bound every attainable value and only ever tighten   (formulas + closure lemmas)

  R1-limits     usl_numpy == ploidy * sum_markers u * [u > 0 ? p > 0 : p >= 1] ; lsl_numpy is its mirror (p >= 1 / p > 0 swapped); both add
                the same intercept term when unscale; usl/lsl take p from the matrix's own afreq() and ploidy from the matrix
                "lower and upper selection limits ... bracket the genomic breeding value ... both limits equal the common breeding value when the
                 population is fixed at all loci"
  R2-exact      R5-exact-at-one of C09 on every comparison with 1 in the limit code (p >= 1.0)
  R3-closure    lemmas from C01: gametes contain only alleles of the selected parent at the same marker (R1-provenance, R2-tiling, R4-stacking)
                "an allele that has been lost from the population never reappears" -- the structural reason the limits can only tighten
  R6-accumulator (C09) the frequencies the limits are computed from are not accumulated in int8
"""
import ast

from sa.astutil import dump, where, walk_no_nested, field_of
from sa.model import body_nodoc
from sa.vn import VN, Poly, VNUnknown, comparable
from rules import c01, c09

MODELS = (("pybrops.model.gmod.DenseAdditiveLinearGenomicModel", "DenseAdditiveLinearGenomicModel"),
          ("pybrops.model.gmod.DenseLinearGenomicModel", "DenseLinearGenomicModel"))


def _limit_core(prog, f):
    """normal form of the part before `if unscale:` and of the unscale block's increment"""
    body = body_nodoc(f.node)
    vn = VN(prog, f)
    inc = None
    for st in body:
        if isinstance(st, ast.If) and dump(st.test) == "unscale":
            sub = VN(prog, f, env=dict(vn.env))
            for s2 in st.body:
                sub.stmt(s2)
            inc = sub.env.get("out")
            continue
        if isinstance(st, ast.Return):
            return vn.expr(st.value), inc
        vn.stmt(st)
    return None, inc


def check_limits(prog, rep):
    for mod, cname in MODELS:
        K = prog.get_class(cname, mod)
        fu, fl = prog.lookup_method(K, "usl_numpy"), prog.lookup_method(K, "lsl_numpy")
        if fu is None or fl is None:
            rep.unrec("R1-limits", K.qualname, "usl_numpy / lsl_numpy vanished")
            continue
        rep.saw(fu)
        rep.saw(fl)
        eff = "u_a" if cname == "DenseAdditiveLinearGenomicModel" else None
        try:
            cu, iu = _limit_core(prog, fu)
            cl, il = _limit_core(prog, fl)
        except VNUnknown as e:
            rep.unrec("R1-limits", K.qualname, "limit body not straight-line: %s" % e)
            continue
        # which attribute holds the effects: read it from the code (self.u_a / self.u)
        atoms = {a[1] for a in _attr_atoms(cu)}
        effs = [a for a in atoms if a.startswith("u")]
        if len(effs) != 1:
            rep.unrec("R1-limits", fu.qualname, "marker-effect attribute not identified (%s)" % sorted(atoms))
            continue
        u = effs[0]
        pu = fu.params()[1]
        refu = "(float(ploidy) * self.%s * numpy.where(self.%s > 0.0, %s[:, None] > 0.0, %s[:, None] >= 1.0)).sum(0)" % (u, u, pu, pu)
        refl = "(float(ploidy) * self.%s * numpy.where(self.%s > 0.0, %s[:, None] >= 1.0, %s[:, None] > 0.0)).sum(0)" % (u, u, pu, pu)
        ru = VN(prog, fu).expr(ast.parse(refu, mode="eval").body)
        rl = VN(prog, fl).expr(ast.parse(refl, mode="eval").body)
        for f, got, ref, other, nm, txt in ((fu, cu, ru, rl, "upper", refu), (fl, cl, rl, ru, "lower", refl)):
            if got == ref:
                rep.ok("R1-limits", f.qualname, "%s limit == %s" % (nm, txt), sample={"function": f.qualname, "normal_form": got.show()[:200]})
            elif got == other:
                rep.violate("R1-limits", f.qualname, "the %s limit is computed with the %s limit's allele test (p > 0 / p >= 1 swapped)" % (nm, "lower" if nm == "upper" else "upper"),
                            where(f), txt, got.show()[:160])
            elif comparable(got, ref):
                rep.violate("R1-limits", f.qualname, "the %s limit normalises to %s; its definition is %s" % (nm, got.show()[:160], ref.show()[:160]), where(f), txt, got.show()[:160])
            else:
                rep.unrec("R1-limits", f.qualname, "limit written with operators the reference does not use: %s" % got.show()[:120])
        # same intercept term in both
        if iu is not None and il is not None:
            du, dl = iu - cu, il - cl
            if du == dl:
                rep.ok("R1-limits", K.qualname + "#intercept", "usl and lsl add the same intercept term when unscale")
            else:
                rep.violate("R1-limits", K.qualname, "usl and lsl add different intercept terms when unscale (%s vs %s)" % (du.show()[:80], dl.show()[:80]), where(fl),
                            du.show()[:80], dl.show()[:80])
        elif (iu is None) != (il is None):
            rep.violate("R1-limits", K.qualname, "only one of usl_numpy / lsl_numpy adds the intercept when unscale", where(fl))
        # usl / lsl take p from the matrix's own afreq and ploidy from the matrix
        for nm in ("usl", "lsl"):
            f = prog.lookup_method(K, nm)
            if f is None:
                continue
            rep.saw(f)
            g = f.params()[1]
            defs = {}
            for s_ in walk_no_nested(f.node):
                if isinstance(s_, ast.Assign) and len(s_.targets) == 1 and isinstance(s_.targets[0], ast.Name):
                    defs.setdefault(s_.targets[0].id, []).append("".join(dump(s_.value).split()))
            call = [n for n in walk_no_nested(f.node) if isinstance(n, ast.Call) and dump(n.func) == "self.%s_numpy" % nm]
            callee = prog.lookup_method(K, nm + "_numpy")
            cps = callee.params()[1:]
            if len(call) != 1 or len(call[0].args) < 2 or len(cps) < 2:
                rep.unrec("R1-limits", f.qualname, "frequency / ploidy hand-off not in the modelled form")
                continue
            a = call[0].args

            def roles(e):
                """what a hand-off argument can hold: 'afreq' (the matrix's own frequencies), 'ploidy' (the matrix's ploidy), 'param:<name>'"""
                out = set()
                if isinstance(e, ast.Name):
                    for d in defs.get(e.id, []):
                        if d == "%s.afreq()" % g:
                            out.add("afreq")
                        elif d == "%s.ploidy" % g:
                            out.add("ploidy")
                        elif d.startswith("%s.afreq(" % g):
                            out.add("afreq-with-arguments")
                    if e.id in f.params():
                        out.add("param:" + e.id)
                return out
            r0, r1 = roles(a[0]), roles(a[1])
            fwd = True
            if len(cps) > 2 and cps[2] in f.params():
                third = a[2] if len(a) > 2 else {k.arg: k.value for k in call[0].keywords}.get(cps[2])
                fwd = third is not None and dump(third) == cps[2]
            if "afreq" in r0 and "ploidy" in r1 and fwd:
                rep.ok("R1-limits", f.qualname, "%s = %s_numpy(%s.afreq(), %s.ploidy%s)" % (nm, nm, g, g, ", " + cps[2] if len(cps) > 2 else ""))
            elif "ploidy" in r0 or "afreq" in r1:
                rep.violate("R1-limits", f.qualname, "%s_numpy receives the matrix's %s where its frequencies belong (arguments exchanged): (%s)"
                            % (nm, "ploidy" if "ploidy" in r0 else "frequencies as ploidy", ", ".join(dump(x) for x in a[:3])), where(f, call[0]),
                            "%s.afreq(), %s.ploidy" % (g, g), ", ".join(dump(x) for x in a[:3]))
            elif not fwd:
                rep.violate("R1-limits", f.qualname, "%s is not forwarded to %s_numpy under its own name" % (cps[2], nm), where(f, call[0]), cps[2], "absent / other")
            elif "afreq" not in r0 and not any("afreq" in d for ds in defs.values() for d in ds):
                rep.violate("R1-limits", f.qualname, "allele frequencies are not taken from the genotype matrix's afreq()", where(f), "%s.afreq()" % g, "other")
            elif "afreq-with-arguments" in r0:
                rep.unrec("R1-limits", f.qualname, "frequencies requested with arguments: %s" % defs.get(a[0].id))
            else:
                rep.unrec("R1-limits", f.qualname, "frequency / ploidy hand-off not in the modelled form")


def _attr_atoms(poly):
    out = set()

    def rec(k):
        if isinstance(k, tuple):
            if len(k) == 2 and k[0] == "attr" and isinstance(k[1], str):
                out.add(k)
            for x in k:
                rec(x)
    rec(poly.key())
    return out


def run(prog, rep, tier):
    rep.explanation = ("Spec congruence of the two limit formulas (and their mirror relation) through an algebraic normal form, the boundary-exactness taint of "
                       "C09 on every comparison with 1, the int8-accumulator rule on the frequency routines, and the closure lemmas of C01 (gametes only copy "
                       "parental alleles at the same marker) which are the structural reason limits can only tighten along a closed history.")
    rep.not_decided = ["monotonicity along histories as a runtime fact: it is the logical consequence of R1-R3 for exact frequencies, stated as an argument, not explored",
                       "every selection rule / protocol parameter"]
    rep.only_rules = {"R1-limits", "R5-exact-at-one", "R6-accumulator", "R8-fresh", "R1-provenance", "R2-tiling", "R4-stacking", "R3-crossover"}
    for r, n in (("R1-limits", 8), ("R5-exact-at-one", 4), ("R6-accumulator", 4), ("R8-fresh", 16), ("R1-provenance", 2), ("R2-tiling", 2), ("R4-stacking", 4)):
        rep.floor(r, n)
    check_limits(prog, rep)
    c09.check_exactness(prog, rep, tier, sink_filter=c09.NOT_SELECTION)
    for mod, cname in (c09.GM, c09.PGM):
        K = prog.get_class(cname, mod)
        c09.check_accumulators(prog, rep, K, ["afreq", "acount", "tacount", "tafreq"])
        c09.check_fresh(prog, rep, K, ["afreq", "acount", "tacount", "tafreq", "maf", "apoly", "afixed", "meh", "gtcount"])
    c01.run_meiosis_rules(prog, rep)
