"""
C11  Genetic maps and map functions obey their defining laws  (R6 is shared with C02)

  R1-formulas   mapfn / invmapfn normalise to the Haldane / Kosambi formulas; invmapfn(mapfn(d)) normalises to d; value 0 at 0 and
                limit 1/2 at +inf; rprob{1,2}{g,p} = mapfn(gdist{1,2}{g,p}(same arguments))
                "take ... distances monotonically into [0, 0.5], send zero to zero and infinity to one half and are undone by their inverse"
  R2-sequential gdist1g: +inf at each chromosome start, first difference inside the run, the whole run covered
                "sequential distances agree with the pairwise ones"; "one half at each chromosome start"
  R3-pairwise   gdist2g: |gi - gj| of the same position vector on both mesh axes, +inf where the chromosome meshes differ
                "pairwise genetic distances are symmetric, zero on the diagonal ... and infinite between chromosomes"
  R4-interp     spline per chromosome from x=phypos[mask], y=genpos[mask] with one mask; query loop writes every out[i], KeyError -> NaN
                "positions on chromosomes absent from the map are reported missing"
  R5-order      default sort keys end with the chromosome (primary), then physical, then genetic position; reorder/remove/select apply one
                index to all three arrays and reset / recompute the grouping "none of this depends on the order ... the map rows were supplied"
  R6-xoprob     interp_xoprob: requires grouping, interpolates genpos first, then xoprob = mapfn(sequential distance of those positions)
                "crossover probabilities assigned to a genotype matrix equal the map function of consecutive interpolated distances"
"""
import ast

from sa.ctorflow import wire

from sa import ieee

from sa.astutil import dump, where, kwargs_of, walk_no_nested, field_of, is_const
from sa.model import AnalysisError, body_nodoc
from sa.vn import VN, Poly, INF, normalise_function, parse_expr, VNUnknown, comparable

GMAPS = (("pybrops.popgen.gmap.StandardGeneticMap", "StandardGeneticMap"), ("pybrops.popgen.gmap.ExtendedGeneticMap", "ExtendedGeneticMap"))
MAPFNS = {
    "HaldaneMapFunction": ("0.5 * (1.0 - numpy.exp(-2.0 * d))", "-0.5 * numpy.log(1.0 - 2.0 * r)"),
    "KosambiMapFunction": ("0.5 * numpy.tanh(2.0 * d)", "0.5 * numpy.arctanh(2.0 * r)"),
}


def check_mapfns(prog, rep):
    for cname, (mref, iref) in MAPFNS.items():
        c = prog.get_class(cname, "pybrops.popgen.gmap." + cname)
        fm, fi = prog.own_method(c, "mapfn"), prog.own_method(c, "invmapfn")
        rep.saw(fm)
        rep.saw(fi)
        try:
            pm = fm.params()[1]
            pi = fi.params()[1]
            m = normalise_function(prog, fm)
            i = normalise_function(prog, fi)
            mr = VN(prog, fm).expr(ast.parse(mref.replace("d", pm) if pm != "d" else mref, mode="eval").body)
            ir = VN(prog, fi).expr(ast.parse(iref.replace("r", pi) if pi != "r" else iref, mode="eval").body)
        except VNUnknown as e:
            rep.unrec("R1-formulas", c.qualname, "map function body not straight-line arithmetic: %s" % e)
            continue
        if m == mr:
            rep.ok("R1-formulas", fm.qualname, "mapfn == %s" % mref, sample={"function": fm.qualname, "normal_form": m.show()})
        elif not comparable(m, mr):
            rep.unrec("R1-formulas", fm.qualname, "mapfn is written with operators the reference formula does not use: %s" % m.show()[:100])
        else:
            rep.violate("R1-formulas", fm.qualname, "mapfn normalises to %s; the %s map function is %s" % (m.show(), cname[:-11], mr.show()),
                        where(fm), mr.show(), m.show())
        if i == ir:
            rep.ok("R1-formulas", fi.qualname, "invmapfn == %s" % iref)
        elif not comparable(i, ir):
            rep.unrec("R1-formulas", fi.qualname, "invmapfn is written with operators the reference formula does not use: %s" % i.show()[:100])
        else:
            rep.violate("R1-formulas", fi.qualname, "invmapfn normalises to %s; the inverse %s map function is %s" % (i.show(), cname[:-11], ir.show()),
                        where(fi), ir.show(), i.show())
        if m == mr and i == ir:
            comp = normalise_function(prog, fi, env={pi: m})
            if comp == Poly.atom(("var", pm)):
                rep.ok("R1-formulas", c.qualname + "#inverse", "invmapfn(mapfn(%s)) normalises to %s" % (pm, pm))
            else:
                rep.unrec("R1-formulas", c.qualname + "#inverse", "invmapfn(mapfn(%s)) normalises to %s" % (pm, comp.show()[:80]))
        # boundary values by IEEE constant folding of the body at the two literal points (exact: 0 -> 0, +inf -> 1/2; inf/inf is NaN)
        try:
            z = ieee.fold(prog, fm, body_nodoc(fm.node), {pm: 0.0})
            at_inf = ieee.fold(prog, fm, body_nodoc(fm.node), {pm: ieee.INF})
            if z == 0.0 and at_inf == 0.5:
                rep.ok("R1-formulas", c.qualname + "#limits", "mapfn(0) = 0 and mapfn(+inf) = 1/2 (IEEE evaluation of the body at the two points)")
            else:
                rep.violate("R1-formulas", c.qualname, "under IEEE arithmetic mapfn(0) = %r and mapfn(+inf) = %r (must be exactly 0 and 1/2: every chromosome start carries "
                            "distance +inf)" % (z, at_inf), where(fm), "0.0, 0.5", "%r, %r" % (z, at_inf))
        except ieee.FoldUnknown as ex:
            z = normalise_function(prog, fm, env={pm: Poly.const(0)})
            inf = normalise_function(prog, fm, env={pm: Poly.atom(INF)})
            if z.const_value() == 0 and inf.const_value() is not None and inf.const_value() * 2 == 1:
                rep.ok("R1-formulas", c.qualname + "#limits", "mapfn(0) = 0 and mapfn(+inf) = 1/2")
            else:
                rep.unrec("R1-formulas", c.qualname + "#limits", "boundary values not foldable (%s); symbolic limits %s, %s" % (ex, z.show()[:40], inf.show()[:40]))
        # the inverse at the same two points: invmapfn(0) = 0 and invmapfn(1/2) = +inf (the one-half probabilities at chromosome starts map back to "unlinked")
        try:
            z = ieee.fold(prog, fi, body_nodoc(fi.node), {pi: 0.0})
            at_half = ieee.fold(prog, fi, body_nodoc(fi.node), {pi: 0.5})
            if z == 0.0 and at_half == ieee.INF:
                rep.ok("R1-formulas", c.qualname + "#inverse-limits", "invmapfn(0) = 0 and invmapfn(1/2) = +inf (IEEE evaluation of the body at the two points)")
            else:
                rep.violate("R1-formulas", c.qualname, "under IEEE arithmetic invmapfn(0) = %r and invmapfn(1/2) = %r (must be exactly 0 and +inf: the one-half probability at a "
                            "chromosome start must map back to an infinite distance, not to a finite same-chromosome one)" % (z, at_half), where(fi), "0.0, inf", "%r, %r" % (z, at_half))
        except ieee.FoldUnknown as ex:
            rep.unrec("R1-formulas", c.qualname + "#inverse-limits", "boundary values of invmapfn not foldable (%s)" % ex)
        # rprob = mapfn o gdist
        for suffix in ("1g", "2g", "1p", "2p"):
            f = prog.lookup_method(c, "rprob" + suffix)
            if f is None:
                rep.unrec("R1-formulas", c.qualname, "rprob%s vanished" % suffix)
                continue
            rep.saw(f)
            body = body_nodoc(f.node)
            ret = body[-1] if body and isinstance(body[-1], ast.Return) else None
            okk = False
            if ret is not None and len(body) == 1:
                v = ret.value
                if isinstance(v, ast.Call) and isinstance(v.func, ast.Attribute) and field_of(v.func.value) is None and dump(v.func) == "self.mapfn" and len(v.args) == 1:
                    inner = v.args[0]
                    # a unit conversion or rescaling between the distance and the map function: map positions are stored in Morgans and mapfn takes Morgans
                    wrapped = None
                    if isinstance(inner, ast.Call) and len(inner.args) == 1 and isinstance(inner.args[0], ast.Call) and isinstance(inner.args[0].func, ast.Attribute) \
                            and inner.args[0].func.attr.startswith("gdist") and (prog.dotted(f.module, inner.func) or dump(inner.func)).split(".")[-1] in ("cM2d", "d2cM"):
                        wrapped = dump(inner.func)
                    elif isinstance(inner, ast.BinOp) and isinstance(inner.op, (ast.Mult, ast.Div)) and any(
                            isinstance(x, ast.Call) and isinstance(x.func, ast.Attribute) and x.func.attr.startswith("gdist") for x in (inner.left, inner.right)) \
                            and any(isinstance(x, ast.Constant) and isinstance(x.value, (int, float)) and x.value not in (1, 1.0) for x in (inner.left, inner.right)):
                        wrapped = dump(inner)[:40]
                    if wrapped:
                        rep.violate("R1-formulas", f.qualname, "rprob%s converts the distances (%s) before applying the map function: map positions are stored in Morgans, which is what "
                                    "mapfn takes - recombination probabilities are those of distances 100 times off" % (suffix, wrapped), where(f, inner),
                                    "self.mapfn(gmap.gdist%s(...))" % suffix, wrapped)
                        okk = True
                    elif isinstance(inner, ast.Call) and isinstance(inner.func, ast.Attribute) and isinstance(inner.func.value, ast.Name):
                        ps = f.params()[1:]
                        want = "gdist" + suffix
                        if inner.func.attr != want:
                            rep.violate("R1-formulas", f.qualname, "rprob%s applies the map function to %s instead of %s" % (suffix, inner.func.attr, want),
                                        where(f, inner), want, inner.func.attr)
                            okk = True
                        elif inner.func.value.id != ps[0]:
                            rep.unrec("R1-formulas", f.qualname, "distance not taken from the gmap argument")
                            okk = True
                        else:
                            got = [dump(a) for a in inner.args] + ["%s=%s" % (k, dump(x)) for k, x in kwargs_of(inner)[0].items()]
                            if got[:2] == ps[1:3]:
                                rep.ok("R1-formulas", f.qualname, "rprob%s = mapfn(gmap.%s(%s))" % (suffix, want, ", ".join(got)))
                            else:
                                rep.violate("R1-formulas", f.qualname, "%s receives (%s), not (%s)" % (want, ", ".join(got), ", ".join(ps[1:3])),
                                            where(f, inner), ", ".join(ps[1:3]), ", ".join(got))
                            okk = True
            if not okk:
                rep.unrec("R1-formulas", f.qualname, "body not `return self.mapfn(gmap.gdist%s(...))`" % suffix)


def _unique_triple(prog, f):
    """(names (uniq,start,counts), source expr) of `a,b,c = numpy.unique(X, return_index=True, return_counts=True)`"""
    for n in walk_no_nested(f.node):
        if isinstance(n, ast.Assign) and isinstance(n.value, ast.Call) and prog.dotted(f.module, n.value.func) == "numpy.unique":
            kws, _ = kwargs_of(n.value)
            if isinstance(n.targets[0], ast.Tuple) and len(n.targets[0].elts) == 3 and is_const(kws.get("return_index"), True) \
                    and is_const(kws.get("return_counts"), True) and "return_inverse" not in kws:
                return [e.id for e in n.targets[0].elts], n.value.args[0], n
    return None, None, None


def check_gdist1g(prog, rep, c):
    f = prog.lookup_method(c, "gdist1g")
    if f is None:
        rep.unrec("R2-sequential", c.qualname, "gdist1g vanished")
        return
    rep.saw(f)
    construct = f.qualname
    ps = f.params()
    chrp, genp = ps[1], ps[2]
    defs = {}
    for n in walk_no_nested(f.node):
        if isinstance(n, ast.Assign) and len(n.targets) == 1 and isinstance(n.targets[0], ast.Name):
            defs.setdefault(n.targets[0].id, []).append(n.value)

    def root(e):
        """strip views/slices: name of the parameter an expression is a view of, plus the slice text"""
        sl = None
        while True:
            if isinstance(e, ast.Name) and e.id in defs and len(defs[e.id]) == 1:
                e = defs[e.id][0]
                continue
            if isinstance(e, ast.Subscript) and isinstance(e.slice, ast.Slice):
                sl = dump(e.slice)
                e = e.value
                continue
            break
        return (e.id if isinstance(e, ast.Name) else None), sl

    names, src, node = _unique_triple(prog, f)
    if names is None:
        # loop-free formulation: chromosome starts located by numpy.diff(labels, prepend=<constant>) != 0.  The first marker is then a start only if its label differs
        # from the constant - a first chromosome that carries that very label (0 is a valid label) gets a finite distance and never the probability one half
        for c_ in walk_no_nested(f.node):
            if isinstance(c_, ast.Call) and prog.dotted(f.module, c_.func) == "numpy.diff":
                kw_, _ = kwargs_of(c_)
                pre = kw_.get("prepend")
                arg0 = c_.args[0] if c_.args else None
                islab = arg0 is not None and ("chrgrp" in dump(arg0) or dump(arg0) == f.params()[1])
                if pre is not None and islab and isinstance(pre, (ast.Constant, ast.UnaryOp)):
                    rep.violate("R2-sequential", construct, "chromosome starts are the positions where %s is non-zero: the first marker is a start only when its label differs from the "
                                "constant %s, so a first chromosome labelled %s gets a finite sequential distance instead of +inf (crossover probability below one half at that "
                                "chromosome start)" % (dump(c_)[:50], dump(pre), dump(pre)), where(f, c_), "the first marker of the view is always a chromosome start", dump(c_)[:50])
                    return
        rep.unrec("R2-sequential", construct, "no (values, first index, counts) = numpy.unique(...) found")
        return
    u, S, C = names
    for nm in (S, C):
        others = [v for v in defs.get(nm, [])]
        for n in walk_no_nested(f.node):
            if isinstance(n, ast.Assign) and n is not node:
                tg = [e.id for t in n.targets for e in ast.walk(t) if isinstance(e, ast.Name) and isinstance(e.ctx, ast.Store)]
                if nm in tg:
                    reads_self = any(isinstance(x, ast.Attribute) and isinstance(x.value, ast.Name) and x.value.id == "self" for x in ast.walk(n.value))
                    if reads_self:
                        rep.violate("R2-sequential", construct, "on some path the chromosome run boundaries (%s) are taken from the map's own cached grouping (%s), not computed "
                                    "from the chromosome labels passed in: +inf lands at the map's chromosome offsets" % (nm, dump(n.value)[:50]), where(f, n),
                                    "numpy.unique(%s, return_index=True, return_counts=True)" % chrp, dump(n.value)[:50])
                    else:
                        rep.unrec("R2-sequential", construct, "run boundary %s has a second definition: %s" % (nm, dump(n.value)[:40]))
                    return
    if root(src)[0] != chrp:
        rep.violate("R2-sequential", construct, "chromosome runs are computed from %s, not from the chromosome labels" % dump(src), where(f, node), chrp, dump(src))
        return
    chr_slice = root(src)[1]
    # stop = start + counts
    stopn = None
    for k, vs in defs.items():
        for v in vs:
            if isinstance(v, ast.BinOp) and isinstance(v.op, ast.Add) and {dump(v.left), dump(v.right)} == {S, C}:
                stopn = k
    loops = [s for s in body_nodoc(f.node) if isinstance(s, ast.For)]
    if len(loops) != 1:
        rep.unrec("R2-sequential", construct, "expected one loop over the chromosome runs")
        return
    lp = loops[0]
    it = lp.iter
    if not (isinstance(it, ast.Call) and isinstance(it.func, ast.Name) and it.func.id == "zip" and len(it.args) == 2
            and isinstance(lp.target, ast.Tuple) and len(lp.target.elts) == 2):
        rep.unrec("R2-sequential", construct, "run loop not `for st, sp in zip(start, stop)`")
        return
    a, b = lp.target.elts[0].id, lp.target.elts[1].id
    lbody = list(lp.body)
    if dump(it.args[0]) == S and dump(it.args[1]) == C and lbody and isinstance(lbody[0], ast.Assign) and isinstance(lbody[0].targets[0], ast.Name) \
            and isinstance(lbody[0].value, ast.BinOp) and isinstance(lbody[0].value.op, ast.Add) and {dump(lbody[0].value.left), dump(lbody[0].value.right)} == {a, b}:
        # for st, cnt in zip(start, counts): sp = st + cnt ...   is the same iteration with the stop computed inside
        b = lbody[0].targets[0].id
        lbody = lbody[1:]
    elif dump(it.args[0]) != S or dump(it.args[1]) != (stopn or "?"):
        rep.violate("R2-sequential", construct, "runs are iterated as zip(%s, %s), not zip(first index, first index + count)" % (dump(it.args[0]), dump(it.args[1])),
                    where(f, lp), "zip(%s, %s + %s)" % (S, S, C), dump(it))
        return
    ret = [s for s in body_nodoc(f.node) if isinstance(s, ast.Return)]
    out = ret[0].value.id if ret and isinstance(ret[0].value, ast.Name) else None
    stores = [s for s in lbody if isinstance(s, ast.Assign) and isinstance(s.targets[0], ast.Subscript)
              and isinstance(s.targets[0].value, ast.Name) and s.targets[0].value.id == out]
    if out is None or len(stores) != len(lbody):
        rep.unrec("R2-sequential", construct, "run loop body is not a list of stores into the result")
        return
    vn = VN(prog, f)
    have_inf = have_diff = False
    G = None
    for s in stores:
        k = s.targets[0].slice
        if isinstance(k, ast.Name) and k.id == a:
            v = vn.expr(s.value)
            if v == Poly.atom(INF):
                have_inf = True
            else:
                rep.violate("R2-sequential", construct, "distance at a chromosome start is %s, not +inf (the first marker of a chromosome would not get crossover "
                            "probability 1/2: fixed starting copy)" % v.show(), where(f, s), "numpy.inf", dump(s.value))
                return
        elif isinstance(k, ast.Slice):
            lo = vn.expr(k.lower) if k.lower is not None else None
            hi = vn.expr(k.upper) if k.upper is not None else None
            if lo != parse_expr("%s + 1" % a) or hi != parse_expr(b):
                rep.violate("R2-sequential", construct, "in-run distances are written to [%s] instead of [%s+1:%s]" % (dump(k), a, b), where(f, s),
                            "%s[%s + 1:%s]" % (out, a, b), dump(s.targets[0]))
                return
            # value: G[a+1:b] - G[a:b-1]
            val = s.value
            gnames = {n.value.id for n in ast.walk(val) if isinstance(n, ast.Subscript) and isinstance(n.value, ast.Name)}
            if len(gnames) != 1:
                rep.unrec("R2-sequential", construct, "difference not over one position vector")
                return
            G = gnames.pop()
            ref = parse_expr("%s[%s + 1:%s] - %s[%s:%s - 1]" % (G, a, b, G, a, b))
            got = vn.expr(val)
            if got == ref:
                have_diff = True
            else:
                rep.violate("R2-sequential", construct, "in-run distance is %s, not the first difference %s[st+1:sp] - %s[st:sp-1]" % (dump(val), G, G),
                            where(f, s), "%s[%s + 1:%s] - %s[%s:%s - 1]" % (G, a, b, G, a, b), dump(val))
                return
        else:
            rep.unrec("R2-sequential", construct, "store index %s not modelled" % dump(k))
            return
    if not have_inf:
        rep.violate("R2-sequential", construct, "the first marker of each chromosome run is never written (uninitialised / no +inf)", where(f, lp),
                    "%s[%s] = numpy.inf" % (out, a), "absent")
        return
    if not have_diff:
        rep.violate("R2-sequential", construct, "distances inside a run are never written", where(f, lp))
        return
    if root(ast.Name(id=G, ctx=ast.Load()))[0] != genp:
        rep.violate("R2-sequential", construct, "distances are differences of %s, not of the genetic positions" % G, where(f, lp), genp, G)
        return
    if root(ast.Name(id=G, ctx=ast.Load()))[1] != chr_slice:
        rep.violate("R2-sequential", construct, "positions and chromosome labels are sliced differently (%s vs %s)" % (root(ast.Name(id=G, ctx=ast.Load()))[1], chr_slice),
                    where(f))
        return
    rep.ok("R2-sequential", construct, "per run [st,sp): out[st]=+inf, out[st+1:sp] = g[st+1:sp]-g[st:sp-1]; runs from unique(chrgrp, index, counts); every entry written",
           sample={"function": construct, "run": "[%s,%s)" % (a, b)})


def check_gdist2g(prog, rep, c):
    f = prog.lookup_method(c, "gdist2g")
    if f is None:
        rep.unrec("R3-pairwise", c.qualname, "gdist2g vanished")
        return
    rep.saw(f)
    construct = f.qualname
    ps = f.params()
    chrp, genp = ps[1], ps[2]
    mesh = {}
    for n in walk_no_nested(f.node):
        if isinstance(n, ast.Assign) and isinstance(n.value, ast.Call) and prog.dotted(f.module, n.value.func) == "numpy.meshgrid" \
                and isinstance(n.targets[0], ast.Tuple) and len(n.targets[0].elts) == 2 and len(n.value.args) == 2:
            kws, _ = kwargs_of(n.value)
            args = n.value.args
            src = {a.value.id if isinstance(a, ast.Subscript) and isinstance(a.value, ast.Name) else (a.id if isinstance(a, ast.Name) else None) for a in args}
            if len(src) != 1 or None in src:
                rep.violate("R3-pairwise", construct, "mesh is built from two different vectors (%s)" % ", ".join(dump(a) for a in args), where(f, n),
                            "the same vector on both axes", dump(n.value)[:60])
                return
            mesh[src.pop()] = (n.targets[0].elts[0].id, n.targets[0].elts[1].id, [dump(a.slice) if isinstance(a, ast.Subscript) else ":" for a in args],
                               dump(kws.get("indexing")) if "indexing" in kws else "'xy'", n)
    if chrp not in mesh or genp not in mesh:
        rep.unrec("R3-pairwise", construct, "meshes of chromosome labels and genetic positions not found")
        return
    mi, mj, msl, mix, _ = mesh[chrp]
    gi, gj, gsl, gix, gn = mesh[genp]
    if msl != gsl or mix != gix:
        rep.violate("R3-pairwise", construct, "position mesh (%s, indexing %s) and chromosome mesh (%s, indexing %s) are laid out differently"
                    % (gsl, gix, msl, mix), where(f, gn), "same slices and indexing", "%s vs %s" % (gsl, msl))
        return
    if gix != "'ij'":
        rep.violate("R3-pairwise", construct, "meshes use indexing %s: rows would follow the column slice" % gix, where(f, gn), "'ij'", gix)
        return
    vn = VN(prog, f)
    ret = [s for s in body_nodoc(f.node) if isinstance(s, ast.Return)]
    out = ret[0].value.id if ret and isinstance(ret[0].value, ast.Name) else None
    base = None
    masked = None
    for s in body_nodoc(f.node):
        if isinstance(s, ast.Assign) and isinstance(s.targets[0], ast.Name) and s.targets[0].id == out:
            base = vn.expr(s.value)
        if isinstance(s, ast.Assign) and isinstance(s.targets[0], ast.Subscript) and isinstance(s.targets[0].value, ast.Name) and s.targets[0].value.id == out:
            masked = (vn.expr(s.targets[0].slice), vn.expr(s.value), s)
    if base is None:
        rep.unrec("R3-pairwise", construct, "result not assigned from an expression")
        return
    ref = parse_expr("numpy.abs(%s - %s)" % (gi, gj), prog=prog, func=f)
    if base != ref:
        rep.violate("R3-pairwise", construct, "pairwise distance is %s, not |gi - gj|" % base.show(), where(f), "abs(%s - %s)" % (gi, gj), base.show())
        return
    if masked is None:
        rep.violate("R3-pairwise", construct, "distances between different chromosomes are not set to +inf", where(f), "%s[%s != %s] = numpy.inf" % (out, mi, mj), "absent")
        return
    refm = parse_expr("%s != %s" % (mi, mj))
    if masked[0] != refm or masked[1] != Poly.atom(INF):
        rep.violate("R3-pairwise", construct, "between-chromosome entries: %s" % dump(masked[2])[:70], where(f, masked[2]), "%s[%s != %s] = numpy.inf" % (out, mi, mj),
                    dump(masked[2])[:70])
        return
    rep.ok("R3-pairwise", construct, "|gi-gj| from one position vector meshed 'ij' over (rows %s, cols %s); +inf where the same-shaped chromosome mesh differs"
           % (gsl[0], gsl[1]))


def check_interp(prog, rep, c):
    f = prog.lookup_method(c, "build_spline")
    g = prog.lookup_method(c, "interp_genpos")
    if f is None or g is None:
        rep.unrec("R4-interp", c.qualname, "build_spline / interp_genpos vanished")
        return
    rep.saw(f)
    rep.saw(g)
    calls = [n for n in walk_no_nested(f.node) if isinstance(n, ast.Call) and (prog.dotted(f.module, n.func) or "").endswith("interp1d")]
    if len(calls) != 1:
        rep.unrec("R4-interp", f.qualname, "expected one interp1d construction")
    else:
        kws, _ = kwargs_of(calls[0])
        x = kws.get("x") if "x" in kws else (calls[0].args[0] if calls[0].args else None)
        y = kws.get("y") if "y" in kws else (calls[0].args[1] if len(calls[0].args) > 1 else None)
        good = True
        if not (isinstance(x, ast.Subscript) and isinstance(y, ast.Subscript)):
            rep.unrec("R4-interp", f.qualname, "x / y not masked arrays")
            good = False
        else:
            if field_of(x.value) != "vrnt_phypos" or field_of(y.value) != "vrnt_genpos":
                rep.violate("R4-interp", f.qualname, "spline maps %s -> %s, not physical -> genetic position" % (dump(x.value), dump(y.value)), where(f, calls[0]),
                            "x=vrnt_phypos[mask], y=vrnt_genpos[mask]", "x=%s, y=%s" % (dump(x.value), dump(y.value)))
                good = False
            if dump(x.slice) != dump(y.slice):
                rep.violate("R4-interp", f.qualname, "x and y of a chromosome's spline are selected with different masks (%s vs %s)" % (dump(x.slice), dump(y.slice)),
                            where(f, calls[0]), "one mask", "%s / %s" % (dump(x.slice), dump(y.slice)))
                good = False
            if "assume_sorted" in kws and is_const(kws["assume_sorted"], True):
                rep.violate("R4-interp", f.qualname, "assume_sorted=True: the result would depend on the row order of the map", where(f, calls[0]), "assume_sorted=False", "True")
                good = False
        if good:
            rep.ok("R4-interp", f.qualname, "interp1d(x=phypos[mask], y=genpos[mask]) per chromosome, same mask, not assumed sorted")
    # interp_genpos: every out[i] written on the normal and on the KeyError path
    loops = [s for s in body_nodoc(g.node) if isinstance(s, ast.For)]
    if len(loops) != 1:
        rep.unrec("R4-interp", g.qualname, "expected one query loop")
        return
    lp = loops[0]
    tr = [s for s in lp.body if isinstance(s, ast.Try)]
    if not tr and len(lp.body) == 1 and isinstance(lp.body[0], ast.If) and lp.body[0].orelse and isinstance(lp.body[0].test, ast.Compare) \
            and len(lp.body[0].test.ops) == 1 and isinstance(lp.body[0].test.ops[0], ast.In) and field_of(lp.body[0].test.comparators[0]) == "spline":
        # `if chrgrp in self._spline: <lookup and store> else: <NaN>` is the try / except KeyError of the same lookup (the test is on the very key that is looked up)
        iff_ = lp.body[0]
        keys_ = {dump(n.slice) for n in ast.walk(iff_) if isinstance(n, ast.Subscript) and field_of(n.value) == "spline"}
        if keys_ == {dump(iff_.test.left)}:
            syn = ast.Try(body=iff_.body, handlers=[ast.ExceptHandler(type=ast.Name(id="KeyError", ctx=ast.Load()), name=None, body=iff_.orelse)], orelse=[], finalbody=[])
            ast.copy_location(syn, iff_)
            ast.fix_missing_locations(syn)
            tr = [syn]
    if len(tr) != 1 or len(lp.body) != 1:
        rep.unrec("R4-interp", g.qualname, "query loop body is not try/except")
        return
    t = tr[0]
    ps = g.params()
    it = lp.iter
    okhdr = (isinstance(it, ast.Call) and isinstance(it.func, ast.Name) and it.func.id == "enumerate" and isinstance(it.args[0], ast.Call)
             and isinstance(it.args[0].func, ast.Name) and it.args[0].func.id == "zip" and [dump(a) for a in it.args[0].args] == ps[1:3])
    if not okhdr:
        rep.unrec("R4-interp", g.qualname, "query loop header not enumerate(zip(vrnt_chrgrp, vrnt_phypos))")
        return
    i = lp.target.elts[0].id
    cg, pp = [e.id for e in lp.target.elts[1].elts]

    def writes(stmts):
        return [s for s in stmts if isinstance(s, ast.Assign) and isinstance(s.targets[0], ast.Subscript) and dump(s.targets[0].slice) == i]

    wb = writes(t.body)
    good = True
    if len(wb) != 1:
        rep.violate("R4-interp", g.qualname, "query %s is not written on the normal path" % i, where(g, t))
        good = False
    else:
        v = wb[0].value
        key = None
        for n in walk_no_nested(t):
            if isinstance(n, ast.Subscript) and field_of(n.value) == "spline":
                key = dump(n.slice)
        if key != cg:
            rep.violate("R4-interp", g.qualname, "spline is looked up by %s, not by the query's chromosome %s" % (key, cg), where(g, t), cg, str(key))
            good = False
        # the lookup must happen for every query (top level of the try body): a conditional / cached lookup lets a stale model answer
        lookups = [n for n in t.body if any(isinstance(x, ast.Subscript) and field_of(x.value) == "spline" for x in ast.walk(n))]
        if not lookups:
            rep.unrec("R4-interp", g.qualname, "no spline lookup in the try body")
            good = False
        elif isinstance(lookups[0], ast.If):
            # cached lookup `if cg != prev: ...`: wrong iff the cache key is updated BEFORE the lookup that may raise KeyError
            iff = lookups[0]
            cmpnames = {n.id for n in ast.walk(iff.test) if isinstance(n, ast.Name)} - {cg}
            stale = False
            for st_ in iff.body:
                if any(isinstance(x, ast.Subscript) and field_of(x.value) == "spline" for x in ast.walk(st_)):
                    break
                if isinstance(st_, ast.Assign) and any(isinstance(t_, ast.Name) and t_.id in cmpnames for t_ in st_.targets):
                    stale = True
            if stale:
                rep.violate("R4-interp", g.qualname, "the spline lookup is cached per chromosome and the cache key is updated before the lookup that can raise KeyError: "
                            "for the following markers of an absent chromosome the previous chromosome's model answers instead of NaN", where(g, iff),
                            "model = self._spline[%s] for every query" % cg, "stale cached model")
            else:
                rep.unrec("R4-interp", g.qualname, "cached spline lookup not modelled")
            good = False
        elif isinstance(lookups[0], (ast.For, ast.While)):
            rep.unrec("R4-interp", g.qualname, "spline lookup inside a nested loop")
            good = False
    hk = [h for h in t.handlers if h.type is not None and dump(h.type) == "KeyError"]
    if len(hk) != 1:
        rep.violate("R4-interp", g.qualname, "a chromosome absent from the map is not handled (no KeyError branch)", where(g, t), "except KeyError: out[i] = nan", "absent")
        good = False
    else:
        wh = writes(hk[0].body)
        vn = VN(prog, g)
        if len(wh) != 1 or vn.expr(wh[0].value) != Poly.atom(("var", "nan")):
            rep.violate("R4-interp", g.qualname, "position on a chromosome absent from the map is reported as %s, not NaN" % (dump(wh[0].value) if wh else "<nothing>"),
                        where(g, hk[0]), "numpy.nan", dump(wh[0].value) if wh else "absent")
            good = False
    if good:
        rep.ok("R4-interp", g.qualname, "every out[i] written: spline[chrgrp](phypos) or NaN on KeyError")


def check_order(prog, rep, c):
    f = prog.lookup_method(c, "lexsort")
    if f is None:
        rep.unrec("R5-order", c.qualname, "lexsort vanished")
        return
    rep.saw(f)
    dflt = None
    for n in walk_no_nested(f.node):
        if isinstance(n, ast.If) and isinstance(n.test, ast.Compare) and dump(n.test) == "keys is None":
            for s in n.body:
                if isinstance(s, ast.Assign) and isinstance(s.value, ast.Tuple):
                    dflt = [field_of(e) for e in s.value.elts]
    if dflt is None:
        rep.unrec("R5-order", f.qualname, "default key tuple not found")
    elif dflt[-1] != "vrnt_chrgrp":
        rep.violate("R5-order", f.qualname, "primary (last) sort key is %s, not the chromosome" % dflt[-1], where(f), "(..., vrnt_chrgrp)", str(dflt))
    elif len(dflt) >= 2 and dflt[-2] != "vrnt_phypos":
        rep.violate("R5-order", f.qualname, "secondary sort key is %s, not the physical position" % dflt[-2], where(f), "(genpos, phypos, chrgrp)", str(dflt))
    else:
        rep.ok("R5-order", f.qualname, "default keys %s: chromosome primary, then physical, then genetic position" % dflt)
    # reorder / remove / select apply one index to the three arrays
    for m in ("reorder", "remove", "select"):
        g = prog.lookup_method(c, m)
        if g is None:
            continue
        rep.saw(g)
        idxp = g.params()[1] if len(g.params()) > 1 else None
        seen = {}
        for n in walk_no_nested(g.node):
            if isinstance(n, ast.Assign) and len(n.targets) == 1 and field_of(n.targets[0]) in ("vrnt_chrgrp", "vrnt_phypos", "vrnt_genpos"):
                fld = field_of(n.targets[0])
                v = n.value
                if isinstance(v, ast.Subscript):
                    src, idx, how = field_of(v.value), dump(v.slice), "index"
                elif isinstance(v, ast.Call) and prog.dotted(g.module, v.func) == "numpy.delete" and len(v.args) >= 2:
                    src, idx, how = field_of(v.args[0]), dump(v.args[1]), "delete"
                else:
                    src, idx, how = None, None, None
                seen[fld] = (src, idx, how, n)
        good = True
        fields = ["vrnt_chrgrp", "vrnt_phypos", "vrnt_genpos"]
        extra = [p for p in prog.all_props(c) if p.startswith("vrnt_") and p not in fields and not p.startswith("vrnt_chrgrp_") and p in prog.init_params(c)]
        for fld in fields:
            if fld not in seen:
                rep.violate("R5-order", g.qualname, "%s is left behind by %s()" % (fld, m), where(g), "%s indexed with %s" % (fld, idxp), "absent")
                good = False
                continue
            src, idx, how, n = seen[fld]
            if src != fld:
                rep.violate("R5-order", g.qualname, "%s is rebuilt from %s" % (fld, src), where(g, n), fld, str(src))
                good = False
            if idx != idxp:
                rep.violate("R5-order", g.qualname, "%s uses index %s, not the method's argument %s" % (fld, idx, idxp), where(g, n), idxp, str(idx))
                good = False
        hows = {v[2] for v in seen.values()}
        if len(hows) > 1:
            rep.violate("R5-order", g.qualname, "arrays are edited with different primitives %s" % sorted(map(str, hows)), where(g))
            good = False
        # group metadata reset or regrouped
        resets = {field_of(n.targets[0]) for n in walk_no_nested(g.node) if isinstance(n, ast.Assign) and len(n.targets) == 1
                  and field_of(n.targets[0]) is not None and isinstance(n.value, ast.Constant) and n.value.value is None}
        regroup = any(isinstance(n, ast.Call) and dump(n.func) == "self.group" for n in walk_no_nested(g.node))
        meta = {"vrnt_chrgrp_name", "vrnt_chrgrp_stix", "vrnt_chrgrp_spix", "vrnt_chrgrp_len"}
        if not (meta <= resets or regroup):
            rep.violate("R5-order", g.qualname, "%s() changes the row layout but neither resets nor recomputes the chromosome grouping" % m, where(g),
                        "reset 4 group fields / self.group()", "neither")
            good = False
        if good:
            rep.ok("R5-order", g.qualname, "one index (%s) applied to chromosome, physical and genetic positions; grouping %s" % (idxp, "recomputed" if regroup else "reset"))


def check_gdist_p(prog, rep, c):
    """gdist1p / gdist2p: interpolate the UNSLICED arrays, then delegate to gdist1g / gdist2g with the window arguments forwarded once"""
    for nm, tgt in (("gdist1p", "gdist1g"), ("gdist2p", "gdist2g")):
        f = prog.lookup_method(c, nm)
        if f is None:
            rep.unrec("R2-sequential", c.qualname, "%s vanished" % nm)
            continue
        rep.saw(f)
        ps = f.params()[1:]
        chrp, phyp, win = ps[0], ps[1], ps[2:]
        calls = [n for n in walk_no_nested(f.node) if isinstance(n, ast.Call) and dump(n.func) == "self." + tgt]
        interp = [n for n in walk_no_nested(f.node) if isinstance(n, ast.Call) and dump(n.func) == "self.interp_genpos"]
        if len(calls) != 1 or len(interp) != 1:
            rep.unrec("R2-sequential", f.qualname, "not (interp_genpos, then %s)" % tgt)
            continue
        good = True
        ldefs = {}
        for n in walk_no_nested(f.node):
            if isinstance(n, ast.Assign) and len(n.targets) == 1 and isinstance(n.targets[0], ast.Name):
                ldefs.setdefault(n.targets[0].id, []).append(n.value)

        def through(a):
            # a local bound once to a window of an argument reads as that window
            if isinstance(a, ast.Name) and a.id not in (chrp, phyp) and len(ldefs.get(a.id, [])) == 1 and isinstance(ldefs[a.id][0], ast.Subscript):
                return dump(ldefs[a.id][0])
            return dump(a)
        ia = [through(a) for a in interp[0].args] + [through(v) for v in kwargs_of(interp[0])[0].values()]
        rebound = {n.targets[0].id for n in walk_no_nested(f.node) if isinstance(n, ast.Assign) and isinstance(n.targets[0], ast.Name) and n.targets[0].id in (chrp, phyp)}
        ca = [dump(a) for a in calls[0].args]
        forwards_window = ca[2:] == win or all(w in ca for w in win)
        sliced = [a for a in ia if "[" in a] or rebound
        if ia[:2] != [chrp, phyp] or rebound:
            if sliced and forwards_window:
                rep.violate("R2-sequential", f.qualname, "%s windows its inputs (%s) before interpolating AND forwards the window (%s) to %s: the window is applied twice"
                            % (nm, ", ".join(sorted(rebound)) or ", ".join(ia), ", ".join(win), tgt), where(f, calls[0]), "window applied once", "twice")
            else:
                rep.unrec("R2-sequential", f.qualname, "interp_genpos arguments %s not modelled" % ia)
            good = False
        if good and (ca[0] != chrp or not forwards_window):
            rep.violate("R2-sequential", f.qualname, "%s does not forward (%s, positions, %s) to %s: %s" % (nm, chrp, ", ".join(win), tgt, ca), where(f, calls[0]),
                        "%s(%s, <interpolated>, %s)" % (tgt, chrp, ", ".join(win)), ", ".join(ca))
            good = False
        if good:
            rep.ok("R2-sequential", f.qualname, "%s = %s(%s, interp_genpos(%s, %s), %s): window applied once" % (nm, tgt, chrp, chrp, phyp, ", ".join(win)))


def check_interp_xoprob(prog, rep):
    c = prog.get_class("DenseGeneticMappableMatrix", "pybrops.popgen.gmap.DenseGeneticMappableMatrix")
    f = prog.own_method(c, "interp_xoprob")
    rep.saw(f)
    construct = f.qualname
    ps = f.params()
    gmap, gfn = ps[1], ps[2]
    body = body_nodoc(f.node)
    guard = False
    pos_gen = pos_xo = None
    for ix, st in enumerate(body):
        if isinstance(st, ast.If) and "is_grouped_vrnt" in dump(st.test) and any(isinstance(s, ast.Raise) for s in st.body) \
                and isinstance(st.test, ast.UnaryOp):
            guard = True
        if isinstance(st, ast.Assign) and len(st.targets) == 1:
            fld = field_of(st.targets[0])
            v = st.value
            if fld == "vrnt_genpos":
                pos_gen = (ix, v, st)
            elif fld == "vrnt_xoprob":
                pos_xo = (ix, v, st)
    good = True
    if not guard:
        rep.violate("R6-xoprob", construct, "crossover probabilities are assigned without requiring the matrix to be grouped by chromosome "
                    "(sequential distances need contiguous chromosomes)", where(f), "raise unless is_grouped_vrnt()", "absent")
        good = False
    if pos_gen is None or pos_xo is None:
        # assigned under a condition? then the positions / probabilities of an earlier map survive
        for st in body:
            if isinstance(st, ast.If):
                inner = [s for s in ast.walk(st) if isinstance(s, ast.Assign) and len(s.targets) == 1 and field_of(s.targets[0]) in ("vrnt_genpos", "vrnt_xoprob")]
                # the positions may also be (re)computed by the sibling method: self.interp_genpos(gmap)
                via = [s for s in ast.walk(st) if isinstance(s, ast.Call) and dump(s.func) in ("self.interp_genpos",)]
                if not inner and via and not any(isinstance(s, ast.Raise) for s in st.body):
                    rep.violate("R6-xoprob", construct, "the genetic positions are (re)computed (self.interp_genpos) only when `%s`: a matrix that already carries positions keeps "
                                "them, so the crossover probabilities are not those of the map passed in" % dump(st.test)[:50], where(f, st), "unconditional interpolation",
                                "if %s: ..." % dump(st.test)[:50])
                    return
                if inner and not any(isinstance(s, ast.Raise) for s in st.body):
                    fld = field_of(inner[0].targets[0])
                    rep.violate("R6-xoprob", construct, "%s is (re)computed only when `%s`: a matrix that already carries positions keeps them, so the crossover probabilities "
                                "are not those of the map passed in" % (fld, dump(st.test)[:50]), where(f, st), "unconditional self.%s = ..." % fld, "if %s: ..." % dump(st.test)[:50])
                    return
        rep.unrec("R6-xoprob", construct, "assignments of vrnt_genpos / vrnt_xoprob not found")
        return
    if pos_gen[0] > pos_xo[0]:
        rep.violate("R6-xoprob", construct, "crossover probabilities are computed before the genetic positions are interpolated (stale positions)", where(f, pos_xo[2]),
                    "genpos first", "xoprob first")
        good = False
    v = prog.positional_view(pos_gen[1])
    if isinstance(v, ast.Call) and v.keywords and dump(v.func) == "%s.interp_genpos" % gmap:
        rep.unrec("R6-xoprob", construct, "interp_genpos called with keywords the package's methods do not agree on: %s" % dump(v)[:60])
        good = False
    elif not (isinstance(v, ast.Call) and dump(v.func) == "%s.interp_genpos" % gmap and [field_of(a) for a in v.args] == ["vrnt_chrgrp", "vrnt_phypos"]):
        rep.violate("R6-xoprob", construct, "genetic positions are not gmap.interp_genpos(vrnt_chrgrp, vrnt_phypos): %s" % dump(v)[:60], where(f, pos_gen[2]),
                    "%s.interp_genpos(self._vrnt_chrgrp, self._vrnt_phypos)" % gmap, dump(v)[:60])
        good = False
    v = prog.positional_view(pos_xo[1])
    if isinstance(v, ast.Call) and v.keywords and dump(v.func) == "%s.rprob1g" % gfn:
        rep.unrec("R6-xoprob", construct, "rprob1g called with keywords the package's methods do not agree on: %s" % dump(v)[:60])
        good = False
    elif not (isinstance(v, ast.Call) and dump(v.func) == "%s.rprob1g" % gfn and len(v.args) == 3 and dump(v.args[0]) == gmap
            and [field_of(a) for a in v.args[1:]] == ["vrnt_chrgrp", "vrnt_genpos"]):
        what = dump(v.func) if isinstance(v, ast.Call) else dump(v)
        rep.violate("R6-xoprob", construct, "crossover probabilities are %s, not gmapfn.rprob1g(gmap, vrnt_chrgrp, vrnt_genpos) (sequential distances of the "
                    "interpolated positions)" % dump(v)[:70], where(f, pos_xo[2]), "%s.rprob1g(%s, self._vrnt_chrgrp, self._vrnt_genpos)" % (gfn, gmap), dump(v)[:70])
        good = False
    if good:
        rep.ok("R6-xoprob", construct, "grouped; genpos = gmap.interp_genpos(chrgrp, phypos); then xoprob = gmapfn.rprob1g(gmap, chrgrp, genpos)")


def check_spline_build(prog, rep, c):
    """R7-build: the interpolation spline a map answers queries with is built from the map's OWN positions: the constructor builds it whenever `auto_build_spline` is set,
    whatever spline object it was handed (a spline of another map - through from_pandas / from_csv / copy-construction - interpolates that other map)."""
    f = c.methods.get("__init__")
    if f is None or "auto_build_spline" not in f.params():
        rep.unrec("R7-build", c.qualname, "constructor has no auto_build_spline option")
        return
    rep.saw(f)
    construct = f.qualname
    ifs = [st for st in walk_no_nested(f.node) if isinstance(st, ast.If) and any(
        isinstance(x, ast.Call) and isinstance(x.func, ast.Attribute) and x.func.attr == "build_spline" and dump(x.func.value) == "self" for b in st.body for x in ast.walk(b))]
    if len(ifs) != 1:
        rep.unrec("R7-build", construct, "expected one guarded call of self.build_spline in the constructor")
        return
    t = ifs[0].test
    if isinstance(t, ast.Name) and t.id == "auto_build_spline":
        rep.ok("R7-build", construct, "spline built from the map's own positions whenever auto_build_spline is set")
    elif isinstance(t, ast.BoolOp) and isinstance(t.op, ast.And) and any(isinstance(v, ast.Name) and v.id == "auto_build_spline" for v in t.values):
        extra = [dump(v) for v in t.values if not (isinstance(v, ast.Name) and v.id == "auto_build_spline")]
        rep.violate("R7-build", construct, "the spline is rebuilt only when additionally %s: a spline object handed to the constructor is kept although auto_build_spline is set, and "
                    "the map interpolates with the positions that spline was built from" % " and ".join(extra), where(f, ifs[0]), "if auto_build_spline:", dump(t))
    else:
        rep.unrec("R7-build", construct, "guard of the spline construction is %s" % dump(t)[:60])


def run(prog, rep, tier):
    rep.explanation = ("Spec congruence of the map-function formulas through an algebraic normal form (inverse pair, value at 0, limit at +inf), and "
                       "template verification of sequential / pairwise distance, interpolation, ordering and crossover-probability assignment in both "
                       "genetic-map classes.")
    rep.not_decided = ["monotonicity / linearity of scipy's interp1d (trusted)", "numerical additivity of distances"]
    for r, n in (("R1-formulas", 14), ("R2-sequential", 6), ("R3-pairwise", 2), ("R4-interp", 4), ("R5-order", 6), ("R6-xoprob", 1)):
        rep.floor(r, n)
    check_mapfns(prog, rep)
    for mod, cname in GMAPS:
        c = prog.get_class(cname, mod)
        check_gdist1g(prog, rep, c)
        check_gdist_p(prog, rep, c)
        check_gdist2g(prog, rep, c)
        check_interp(prog, rep, c)
        check_order(prog, rep, c)
        check_spline_build(prog, rep, c)
    check_interp_xoprob(prog, rep)
    rep.floor("R7-build", 2)
    wire(prog, rep, "C11", 1, 115)
