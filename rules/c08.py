"""
C08  Seeded runs are reproducible and explicit generators are isolated.

  R1-entropy    who-may-create-entropy over the whole package: generators / bit generators / seed sequences
                are created only with a seed drawn from the python/numpy global streams or a supplied generator;
                never at module/class/default-argument level; no os.urandom/time/uuid seeds; nobody but
                prng.seed() re-seeds or sets the state of the global streams
                "yields bit-identical outputs, whatever was executed before the re-seeding"
  R2-seed       prng.seed(): random.seed(s) first, then numpy.random.seed(<draw from python random>)
  R3-external   every call into an external stochastic optimiser carries a seed derived from the
                component's generator (pymoo >= 0.6.2: default_rng(None) = OS entropy)
  R4-own        rng discipline of components (classes with an `rng` property, functions with an `rng`
                parameter): (a) None -> global_prng is the only defaulting and the generator given is stored
                as is; (b) every callee that accepts `rng` gets the component's own generator; (c) no draw
                from the global sources inside a component or in code reachable from it
                "the result depends only on that generator's state, and the global Python and NumPy streams
                 are left exactly as they were"
"""
import ast

from sa.astutil import walk_no_nested, dump, where, kwargs_of, is_none, field_of
from sa.callgraph import CallGraph
from sa.model import AnalysisError, FuncInfo, ClassInfo, External, body_nodoc
from sa.order import enumerate_paths, Event, calls_in_order, names
from sa import rng as R

PRNG = R.PRNG_MOD
EXT_STOCHASTIC = {"pymoo.optimize.minimize", "scipy.optimize.differential_evolution", "scipy.optimize.dual_annealing",
                  "scipy.optimize.basinhopping", "scipy.optimize.shgo"}


def is_component_class(prog, c):
    if prog.mro(c) is None:
        return False
    p = prog.lookup_prop(c, "rng")
    return p is not None and p.getter is not None


def component_funcs(prog, cg):
    """FuncInfos that belong to a generator-owning component."""
    comp_classes = [c for c in prog.all_classes() if is_component_class(prog, c)]
    funcs = {}
    for c in comp_classes:
        for k in prog.mro_classes(c):
            # methods defined in classes that themselves (through their MRO) own rng, or mixins used by c
            for f in list(k.methods.values()):
                funcs.setdefault(id(f), (f, c))
            for p in k.own_props.values():
                for f in (p.getter, p.setter):
                    if f is not None:
                        funcs.setdefault(id(f), (f, c))
    rng_funcs = []
    for f in cg.funcs:
        if f.cls is None and "rng" in f.params():
            rng_funcs.append(f)
    return comp_classes, funcs, rng_funcs


def rng_arg(call, callee):
    """expression passed for the callee's `rng` parameter, or None if absent"""
    kws, stars = kwargs_of(call)
    if "rng" in kws:
        return kws["rng"], True
    ps = callee.params()
    if ps and ps[0] in ("self", "cls"):
        ps = ps[1:]
    if "rng" in ps:
        i = ps.index("rng")
        if i < len(call.args) and not any(isinstance(a, ast.Starred) for a in call.args[: i + 1]):
            return call.args[i], True
    if stars:
        return None, None   # may be forwarded through **kwargs: unknown
    return None, False


def arg_origin(prog, f, expr, ldefs):
    if expr is None:
        return "ABSENT"
    if is_none(expr):
        return "NONE"
    if isinstance(expr, ast.Call):
        d = prog.dotted(f.module, expr.func)
        if d in ("copy.copy", "copy.deepcopy") and expr.args:
            inner = R.receiver_origin(prog, f, expr.args[0], ldefs)
            return "COPY-OF-" + inner
        if d in R.CTOR_NAMES:
            return "LOCAL"
    return R.receiver_origin(prog, f, expr, ldefs)


CACHE_DECOS = ("lru_cache", "cache", "cached_property", "functools.lru_cache", "functools.cache", "functools.cached_property")
MUTATORS = ("shuffle", "sort", "fill", "resize", "put", "partition", "itemset", "append", "extend", "insert", "pop", "remove", "clear", "update", "setdefault")
_STATE_FIXTURE = """
from functools import lru_cache
import numpy
@lru_cache(maxsize=8)
def table(n):
    return numpy.arange(n)
def good(n, rng):
    t = table(n).copy()
    rng.shuffle(t)
    return t
def bad(n, rng):
    t = table(n)
    rng.shuffle(t)
    return t
"""


def _cached_functions(tree):
    out = {}
    for n in ast.walk(tree):
        if isinstance(n, (ast.FunctionDef, ast.AsyncFunctionDef)):
            for d in n.decorator_list:
                dd = d.func if isinstance(d, ast.Call) else d
                if dump(dd) in CACHE_DECOS:
                    out[n.name] = n
    return out


def _mutations_of_cached(tree, cached):
    """(function node, call node, how) for every in-place mutation of a value obtained directly from a memoised function"""
    hits = []
    for fn in ast.walk(tree):
        if not isinstance(fn, (ast.FunctionDef, ast.AsyncFunctionDef)):
            continue
        held = {}
        for st in ast.walk(fn):
            if isinstance(st, ast.Assign) and len(st.targets) == 1 and isinstance(st.targets[0], ast.Name) and isinstance(st.value, ast.Call):
                c = st.value
                nm = c.func.id if isinstance(c.func, ast.Name) else (c.func.attr if isinstance(c.func, ast.Attribute) else None)
                if nm in cached:
                    held[st.targets[0].id] = (nm, st)
        if not held:
            continue
        for st in ast.walk(fn):
            if isinstance(st, ast.Call) and isinstance(st.func, ast.Attribute) and st.func.attr in MUTATORS:
                # x.sort() / rng.shuffle(x) / numpy.random.shuffle(x)
                tgt = []
                if isinstance(st.func.value, ast.Name) and st.func.value.id in held:
                    tgt.append(st.func.value.id)
                tgt += [a.id for a in st.args[:1] if isinstance(a, ast.Name) and a.id in held and st.func.attr in ("shuffle", "sort", "partition", "put", "fill")]
                for t in tgt:
                    hits.append((fn, st, "%s(%s)" % (dump(st.func), t), held[t][0]))
            elif isinstance(st, (ast.Assign, ast.AugAssign)):
                tg = st.targets[0] if isinstance(st, ast.Assign) else st.target
                base = tg
                while isinstance(base, ast.Subscript):
                    base = base.value
                if isinstance(tg, ast.Subscript) and isinstance(base, ast.Name) and base.id in held:
                    hits.append((fn, st, dump(st)[:40], held[base.id][0]))
                elif isinstance(st, ast.AugAssign) and isinstance(tg, ast.Name) and tg.id in held:
                    hits.append((fn, st, dump(st)[:40], held[tg.id][0]))
    return hits


def check_state(prog, rep):
    """R5-state: no value memoised across calls is mutated in place (a shuffled / sorted / written cached table makes a result depend on what ran before)"""
    # the detector must fire on its own positive example and stay silent on the negative one (the rule usually has zero instances in the package)
    ft = ast.parse(_STATE_FIXTURE)
    fh = _mutations_of_cached(ft, _cached_functions(ft))
    if [h[0].name for h in fh] != ["bad"]:
        rep.unrec("R5-state", "<self-test>", "memoised-state detector does not separate its fixture functions: %s" % [h[0].name for h in fh])
        return
    rep.ok("R5-state", "<self-test>", "detector fires on the memoised-table-shuffled-in-place fixture and not on its copying twin")
    ncached = 0
    for m in sorted(prog.modules.values(), key=lambda m: m.name):
        cached = _cached_functions(m.tree)
        # memoised functions imported from other modules of the package
        for local, imp in m.imports.items():
            if imp[0] == "from" and imp[1] in prog.modules and imp[2] in _cached_functions(prog.modules[imp[1]].tree):
                cached[local] = _cached_functions(prog.modules[imp[1]].tree)[imp[2]]
        if not cached:
            continue
        ncached += len(cached)
        hits = _mutations_of_cached(m.tree, cached)
        for fn, node, how, src in hits:
            rep.violate("R5-state", "%s:%s" % (m.name, fn.name), "`%s` mutates in place the value returned by the memoised function %s(): the shared table keeps the "
                        "change, so the next call starts from a state that depends on every earlier call (results are no longer a function of the seed / generator)"
                        % (how, src), "%s:%s" % (m.relpath, getattr(node, "lineno", 0)), "%s(...).copy() before mutating" % src, how)
        for nm in cached:
            if not any(h[3] == nm for h in hits):
                rep.ok("R5-state", "%s:%s" % (m.name, nm), "memoised function: no caller mutates its result in place")
    # module-level mutable containers written from inside functions of stochastic components are out of scope of this rule (none is used as a cache today)
    rep.extra["memoised_functions"] = ncached


def run(prog, rep, tier):
    rep.explanation = ("Whole-package entropy-source whitelist, order rule for prng.seed(), seed-argument rule for external "
                       "stochastic optimisers, and generator-flow analysis (receiver origin of every draw, rng= argument of "
                       "every call to an rng-accepting callee, call-graph reachability of global draws from generator-owning "
                       "components). Decides, for all seeds and call sequences, which entropy sources any stochastic API can "
                       "touch; bit-identity of numpy/pymoo given equal seeds is trusted.")
    rep.not_decided = ["bit-identity of numpy / pymoo internals given equal seeds (trusted base)",
                       "iteration-order nondeterminism (set/dict order feeding a draw)"]
    rep.assumptions.append("pymoo >= 0.6.2: Algorithm.setup does numpy.random.default_rng(self.seed); seed=None is OS entropy "
                           "(read in the installed source)")
    cg = CallGraph(prog)
    rep.extra["call_resolution"] = dict(cg.stats)
    rep.call_sites = cg.stats["calls"]
    if cg.stats["calls"] < 5000 or cg.stats["resolved"] < 3000 or cg.stats["external"] < 1500:
        rep.unrec("engine", "<callgraph>", "call resolution coverage collapsed: %s" % cg.stats)
    for r, n in (("R1-entropy", 2), ("R2-seed", 1), ("R3-external", 8), ("R4a-default", 20), ("R4b-forward", 40),
                 ("R4c-draws", 40)):
        rep.floor(r, n)

    check_state(prog, rep)
    rep.floor("R5-state", 1)
    comp_classes, comp_funcs, rng_funcs = component_funcs(prog, cg)
    rep.extra["components"] = {"classes_with_rng": len(comp_classes), "functions_with_rng_param": len(rng_funcs)}
    if len(comp_classes) < 20 or len(rng_funcs) < 8:
        rep.unrec("engine", "<components>", "component inventory collapsed: %d classes, %d functions"
                  % (len(comp_classes), len(rng_funcs)))

    # ------------------------------------------------------------------ R1 entropy whitelist
    prng_mod = prog.module(PRNG)
    for m in sorted(prog.modules.values(), key=lambda m: m.name):
        # module level and class level statements (not inside functions)
        outer_nodes = []
        for st in m.tree.body:
            if isinstance(st, (ast.FunctionDef, ast.AsyncFunctionDef)):
                outer_nodes += list(_defaults_nodes(st))
                continue
            if isinstance(st, ast.ClassDef):
                for s2 in st.body:
                    if isinstance(s2, (ast.FunctionDef, ast.AsyncFunctionDef)):
                        outer_nodes += list(_defaults_nodes(s2))
                    else:
                        outer_nodes += list(ast.walk(s2))
                continue
            outer_nodes += list(ast.walk(st))
        for call, d in R.generator_constructions(prog, outer_nodes, m):
            rep.violate("R1-entropy", m.name + ":<module>", "generator %s is created at import/class/default-argument level "
                        "(its state survives re-seeding)" % d, "%s:%d" % (m.relpath, call.lineno),
                        "generators created inside calls, seeded from the global streams", dump(call)[:80])
        for n in outer_nodes:
            if isinstance(n, ast.Call):
                d = prog.dotted(m, n.func)
                if d in R.SEEDERS or d in R.STATE_SETTERS:
                    rep.violate("R1-entropy", m.name + ":<module>", "global stream is re-seeded at import level by %s" % d,
                                "%s:%d" % (m.relpath, n.lineno), "only prng.seed() seeds", dump(n)[:80])
    n_ctor = 0
    for f in cg.funcs:
        ldefs = None
        for n in walk_no_nested(f.node):
            if not isinstance(n, ast.Call):
                continue
            d = prog.dotted(f.module, n.func)
            callee_is_bitgen_param = (isinstance(n.func, ast.Name) and n.func.id in f.params()
                                      and n.func.id.lower().endswith("generator"))
            if d in R.CTOR_NAMES or callee_is_bitgen_param:
                n_ctor += 1
                rep.saw(f)
                seed = n.args[0] if n.args else kwargs_of(n)[0].get("seed")
                if isinstance(seed, ast.Call) and (prog.dotted(f.module, seed.func) in R.CTOR_NAMES
                                                   or (isinstance(seed.func, ast.Name) and seed.func.id in f.params())):
                    rep.ok("R1-entropy", f.qualname + "#" + (d or n.func.id), "wraps an inner bit generator (checked separately)")
                    continue
                o = R.seed_origin(prog, f, seed)
                cons = f.qualname
                if o == "NONE":
                    rep.violate("R1-entropy", cons, "%s is created without a seed (operating-system entropy)" % (d or n.func.id),
                                where(f, n), "seed drawn from the python/numpy global stream or a supplied generator", dump(n)[:80])
                elif o.startswith("FORBIDDEN"):
                    rep.violate("R1-entropy", cons, "%s is seeded from %s" % (d or n.func.id, o.split(":", 1)[1]),
                                where(f, n), "seed drawn from the seeded streams", dump(n)[:80])
                elif o == "UNKNOWN":
                    rep.unrec("R1-entropy", cons, "seed expression of %s not modelled: %s" % (d or n.func.id, dump(seed)[:60]))
                else:
                    if f.module.name == PRNG and o != "PYRANDOM":
                        rep.violate("R1-entropy", cons, "spawned generator is seeded from %s, not from the python stream tied to seed()" % o,
                                    where(f, n), "py_random.randint(...)", dump(seed)[:60])
                    else:
                        rep.ok("R1-entropy", cons + "#" + (d or n.func.id), "seed origin %s: %s" % (o, dump(seed)[:60]))
            elif d in R.SEEDERS or d in R.STATE_SETTERS:
                if f.module.name == PRNG and f.name == "seed":
                    continue
                rep.violate("R1-entropy", f.qualname, "global stream is re-seeded / its state set by %s outside prng.seed()" % d,
                            where(f, n), "only prng.seed() seeds the global streams", dump(n)[:80])
            elif d is not None and any(d.startswith(x) for x in ("os.urandom", "secrets.", "os.getrandom")):
                rep.violate("R1-entropy", f.qualname, "operating-system entropy is read: %s" % d, where(f, n),
                            "entropy only from the seeded streams", dump(n)[:80])
            elif isinstance(n.func, ast.Attribute) and n.func.attr == "seed" and d is None:
                # <generator>.seed(...) on an rng object
                o = R.receiver_origin(prog, f, n.func.value, R.local_generator_defs(prog, f))
                if o in ("OWN", "GLOBAL"):
                    rep.violate("R1-entropy", f.qualname, "a generator (%s) is re-seeded inside the library: %s" % (o, dump(n)[:60]),
                                where(f, n), "generators are consumed, never re-seeded", dump(n)[:80])
    rep.extra["generator_constructions"] = n_ctor

    # ------------------------------------------------------------------ R2 seed()
    seedf = prog.func(PRNG, "seed")
    rep.saw(seedf)
    sparam = [p for p in seedf.params()][0] if seedf.params() else None

    def cls_seed(st):
        evs = []
        for c in calls_in_order(st):
            d = prog.dotted(seedf.module, c.func)
            if d == "random.seed":
                arg = c.args[0] if c.args else kwargs_of(c)[0].get("a")
                if isinstance(arg, ast.Name) and arg.id == sparam:
                    evs.append(Event("pyseed", c))
                else:
                    evs.append(Event("pyseed-other", c, dump(arg) if arg is not None else "<none>"))
            elif d == "numpy.random.seed":
                arg = c.args[0] if c.args else kwargs_of(c)[0].get("seed")
                o = R.seed_origin(prog, seedf, arg)
                evs.append(Event("npseed:" + o, c, dump(arg) if arg is not None else "<none>"))
            elif d is not None and d.startswith("random.") and d.split(".")[-1] in R.DRAW_API:
                evs.append(Event("<pydraw>", c))
        return evs

    for p in enumerate_paths(body_nodoc(seedf.node), cls_seed):
        w = names(p)
        if w == ["pyseed", "npseed:PYRANDOM"]:
            rep.ok("R2-seed", seedf.qualname, "random.seed(s) then numpy.random.seed(<draw from python random>) on every path",
                   sample={"function": seedf.qualname, "word": w})
        elif any(x.startswith("npseed") for x in w) and "pyseed" in w and w.index("pyseed") > [i for i, x in enumerate(w) if x.startswith("npseed")][0]:
            rep.violate("R2-seed", seedf.qualname, "numpy is seeded before the python stream it draws its seed from",
                        where(seedf), "pyseed npseed", " ".join(w))
        elif "pyseed" not in w:
            rep.violate("R2-seed", seedf.qualname, "python random is not seeded with the argument on a path: %s" % (" ".join(w) or "<nothing>"),
                        where(seedf), "random.seed(s)", " ".join(w))
        elif not any(x.startswith("npseed") for x in w):
            rep.violate("R2-seed", seedf.qualname, "numpy global stream is not seeded on a path", where(seedf),
                        "numpy.random.seed(py_random.randint(...))", " ".join(w))
        elif any(x in ("npseed:NONE",) or x.startswith("npseed:FORBIDDEN") for x in w):
            rep.violate("R2-seed", seedf.qualname, "numpy global stream is seeded from entropy outside the seeded python stream: %s" % " ".join(w),
                        where(seedf), "npseed:PYRANDOM", " ".join(w))
        elif any(x in ("npseed:PARAM", "npseed:CONST") for x in w) and len(w) == 2:
            # seeding numpy directly from s / a constant is still a function of the seed: reproducible
            rep.ok("R2-seed", seedf.qualname, "both streams seeded as a function of the argument: %s" % " ".join(w))
        else:
            rep.unrec("R2-seed", seedf.qualname, "seeding sequence not modelled: %s" % " ".join(w))

    # ------------------------------------------------------------------ R3 external stochastic optimisers
    for f in cg.funcs:
        for cs in cg.callsites(f):
            if cs.external in EXT_STOCHASTIC:
                rep.saw(f)
                kws, stars = kwargs_of(cs.call)
                seed = kws.get("seed")
                if seed is None and cs.external.startswith("scipy"):
                    seed = kws.get("rng")
                in_comp = id(f) in comp_funcs
                if seed is None:
                    if stars and any(isinstance(s, ast.Name) and s.id == "kwargs" for s in stars) and False:
                        pass
                    rep.violate("R3-external", f.qualname, "%s is called without a seed (it then seeds itself from operating-system entropy)"
                                % cs.external, where(f, cs.call), "seed=<value drawn from the component's generator>", "absent")
                    continue
                o = R.seed_origin(prog, f, seed)
                # a local name: trace one assignment
                if o == "UNKNOWN" and isinstance(seed, ast.Name):
                    ld = R.local_generator_defs(prog, f).get(seed.id, [])
                    os_ = {R.seed_origin(prog, f, v) for v in ld if not isinstance(v, str)}
                    if len(os_) == 1:
                        o = os_.pop()
                if o == "OWN" or (not in_comp and o in ("GLOBAL", "PYRANDOM", "PARAM")):
                    rep.ok("R3-external", f.qualname + "#" + cs.external, "seed origin %s: %s" % (o, dump(seed)[:60]))
                elif o in ("GLOBAL", "PYRANDOM"):
                    rep.violate("R3-external", f.qualname, "%s is seeded from the global stream although the component owns a generator"
                                % cs.external, where(f, cs.call), "seed drawn from self.rng", dump(seed)[:60])
                elif o in ("NONE",) or o.startswith("FORBIDDEN"):
                    rep.violate("R3-external", f.qualname, "%s is seeded with %s" % (cs.external, o), where(f, cs.call),
                                "seed drawn from the component's generator", dump(seed)[:60])
                elif o == "CONST":
                    rep.violate("R3-external", f.qualname, "%s is seeded with a constant (ignores the component's generator and seed())"
                                % cs.external, where(f, cs.call), "seed drawn from the component's generator", dump(seed)[:60])
                else:
                    rep.unrec("R3-external", f.qualname, "seed argument not modelled: %s (%s)" % (dump(seed)[:60], o))

    # ------------------------------------------------------------------ R4a defaulting / capture
    for c in prog.all_classes():
        p = c.own_props.get("rng")
        if p is None or p.setter is None:
            continue
        f = p.setter
        rep.saw(f)
        par = [a for a in f.params() if a != "self"]
        if not par:
            rep.unrec("R4a-default", f.qualname, "setter without a value parameter")
            continue
        v = par[0]
        okflag = True
        stored = False
        for st in walk_no_nested(f.node):
            if isinstance(st, ast.Assign):
                for t in st.targets:
                    if isinstance(t, ast.Name) and t.id == v:
                        # value = <something>: allowed only as `if value is None: value = global_prng`
                        o = R.receiver_origin(prog, f, st.value, None)
                        guarded = _guarded_by_none_test(f.node, st, v)
                        if o == "GLOBAL" and guarded:
                            continue
                        okflag = False
                        if o == "GLOBAL" and not guarded:
                            rep.violate("R4a-default", f.qualname, "the supplied generator is unconditionally replaced by the global one",
                                        where(f, st), "if value is None: value = global_prng", dump(st))
                        elif o == "LOCAL" or isinstance(st.value, ast.Call):
                            d = prog.dotted(f.module, st.value.func) if isinstance(st.value, ast.Call) else None
                            if d in ("copy.copy", "copy.deepcopy"):
                                rep.violate("R4a-default", f.qualname, "the supplied generator is copied instead of stored (its state no longer advances)",
                                            where(f, st), "self._rng = value", dump(st))
                            elif d in R.CTOR_NAMES:
                                pass  # R1 decides on the seed
                            else:
                                rep.unrec("R4a-default", f.qualname, "value rebinding not modelled: %s" % dump(st))
                        else:
                            rep.unrec("R4a-default", f.qualname, "value rebinding not modelled: %s" % dump(st))
                    elif field_of(t) == "rng":
                        stored = True
                        if isinstance(st.value, ast.Name) and st.value.id == v:
                            continue
                        okflag = False
                        d = prog.dotted(f.module, st.value.func) if isinstance(st.value, ast.Call) else None
                        if d in ("copy.copy", "copy.deepcopy"):
                            rep.violate("R4a-default", f.qualname, "the supplied generator is copied instead of stored (its state no longer advances)",
                                        where(f, st), "self._rng = value", dump(st))
                        elif R.receiver_origin(prog, f, st.value, None) == "GLOBAL":
                            rep.violate("R4a-default", f.qualname, "the global generator is stored instead of the supplied one",
                                        where(f, st), "self._rng = value", dump(st))
                        else:
                            rep.unrec("R4a-default", f.qualname, "stored value not modelled: %s" % dump(st))
        if not stored:
            rep.violate("R4a-default", f.qualname, "the supplied generator is never stored", where(f), "self._rng = value", "absent")
        elif okflag:
            rep.ok("R4a-default", f.qualname, "None -> global_prng is the only defaulting; the generator given is stored as is")
    # rng-parameter functions and methods: rebinding of `rng`
    for f in cg.funcs:
        if "rng" not in f.params():
            continue
        bad = False
        n_assign = 0
        for st in walk_no_nested(f.node):
            if isinstance(st, ast.Assign) and any(isinstance(t, ast.Name) and t.id == "rng" for t in st.targets):
                n_assign += 1
                o = R.receiver_origin(prog, f, st.value, None)
                if o == "GLOBAL" and _guarded_by_none_test(f.node, st, "rng"):
                    continue
                bad = True
                if o == "GLOBAL":
                    rep.violate("R4a-default", f.qualname, "the rng argument is unconditionally replaced by the global generator",
                                where(f, st), "if rng is None: rng = global_prng", dump(st))
                elif isinstance(st.value, ast.Call) and prog.dotted(f.module, st.value.func) in R.CTOR_NAMES:
                    rep.violate("R4a-default", f.qualname, "the rng argument is replaced by a newly created generator",
                                where(f, st), "if rng is None: rng = global_prng", dump(st))
                else:
                    rep.unrec("R4a-default", f.qualname, "rebinding of rng not modelled: %s" % dump(st))
        if not bad and (f.cls is None or n_assign):
            rep.saw(f)
            rep.ok("R4a-default", f.qualname, "rng parameter: %s" % ("None -> global_prng only" if n_assign else "used as given"))

    # ------------------------------------------------------------------ R4b / R4c inside components
    # instance methods own self.rng; class/static methods of a component class do not own a generator
    for k in [k for k, v in comp_funcs.items() if v[0].kind in ("classmethod", "staticmethod") and "rng" not in v[0].params()]:
        del comp_funcs[k]
    entry = [v[0] for v in comp_funcs.values()] + rng_funcs
    n_draw_sites = {"OWN": 0, "GLOBAL": 0, "other": 0}
    reported_sites = set()
    for f in entry:
        rep.saw(f)
        ldefs = R.local_generator_defs(prog, f)
        # (c) direct draws
        for d in R.direct_draws(prog, f):
            if d.origin == "OWN":
                n_draw_sites["OWN"] += 1
                rep.ok("R4c-draws", f.qualname + "#" + d.what, "draw from the component's own generator")
            elif d.origin == "GLOBAL":
                n_draw_sites["GLOBAL"] += 1
                reported_sites.add((id(f), d.what))
                rep.violate("R4c-draws", f.qualname, "draws %s from the global stream although the component owns a generator" % d.what,
                            where(f, d.call), "self.rng / rng", d.what)
            elif d.origin == "LOCAL":
                rep.ok("R4c-draws", f.qualname + "#" + d.what, "draw from a locally created generator (seed checked by R1)")
            else:
                n_draw_sites["other"] += 1
                rep.unrec("R4c-draws", f.qualname, "receiver of draw %s has origin %s" % (d.what, d.origin))
        # (b) forwarding
        for cs in cg.callsites(f):
            targets = [t for t in cs.targets if "rng" in t.params()]
            if not targets:
                continue
            t = targets[0]
            expr, present = rng_arg(cs.call, t)
            if present is None:
                _kws, _stars = kwargs_of(cs.call)
                own_kw = f.node.args.kwarg.arg if f.node.args.kwarg is not None else None
                computed = [x for x in _stars if not (isinstance(x, ast.Name) and x.id == own_kw)]
                if computed and f.cls is not None:
                    # the keywords are built somewhere else (a helper, a comprehension over argument names): whether the callee gets the owner's generator, a copy or
                    # none is not visible at the call
                    rep.unrec("R4b-forward", f.qualname, "%s receives its keywords through **%s: which generator it is handed is not visible at the call" % (t.qualname, dump(computed[0])[:50]))
                else:
                    rep.info("R4b-forward", f.qualname, "rng may travel through **kwargs to %s" % t.qualname)
                continue
            o = arg_origin(prog, f, expr, ldefs) if present else "ABSENT"
            tgt = t.qualname
            if o == "OWN":
                rep.ok("R4b-forward", f.qualname + "->" + tgt, "own generator forwarded as rng")
            elif o in ("NONE", "ABSENT", "GLOBAL"):
                # only a violation if the caller has a generator of its own to give
                rep.violate("R4b-forward", f.qualname, "%s receives rng=%s although the caller owns a generator"
                            % (tgt, {"NONE": "None", "ABSENT": "<not passed>", "GLOBAL": "the global generator"}[o]),
                            where(f, cs.call), "rng=self.rng" if f.cls is not None else "rng=rng", dump(expr) if expr is not None else "absent")
            elif o.startswith("COPY-OF-"):
                rep.violate("R4b-forward", f.qualname, "%s receives a copy of the generator (state no longer shared with the owner / detached from seed())"
                            % tgt, where(f, cs.call), "rng=self.rng", dump(expr))
            elif o == "LOCAL":
                rep.ok("R4b-forward", f.qualname + "->" + tgt, "locally created generator forwarded (seed checked by R1)")
            else:
                rep.unrec("R4b-forward", f.qualname, "rng argument to %s has origin %s: %s" % (tgt, o, dump(expr)))
    rep.extra["draw_sites_in_components"] = n_draw_sites

    # (c') global draws reachable from components through the call graph
    reach = cg.reachable(entry)
    n_reach = 0
    globals_elsewhere = []
    for f in cg.funcs:
        draws = [d for d in R.direct_draws(prog, f) if d.origin == "GLOBAL"]
        if not draws:
            continue
        if f.module.name == PRNG:
            continue
        for d in draws:
            if (id(f), d.what) in reported_sites:
                continue
            if id(f) in reach and id(f) not in comp_funcs and f not in rng_funcs:
                n_reach += 1
                # first component on the path
                par = reach[id(f)][1]
                hops = 0
                while par is not None and id(par) in reach and reach[id(par)][1] is not None and hops < 50:
                    par = reach[id(par)][1]
                    hops += 1
                rep.violate("R4c-draws", f.qualname, "draws %s from the global stream in code reachable from a generator-owning component" % d.what,
                            where(f, d.call), "the component's generator", "%s (reached from %s)" % (d.what, par.qualname if par else "?"))
            else:
                globals_elsewhere.append("%s: %s" % (f.qualname, d.what))
    # calls that hand the global generator (or nothing) to an rng-accepting callee, outside components
    for f in cg.funcs:
        if id(f) in comp_funcs or f in rng_funcs or f.module.name == PRNG:
            continue
        ldefs = None
        for cs in cg.callsites(f):
            targets = [t for t in cs.targets if "rng" in t.params()]
            if not targets or cs.kind in ("cha", "name-cha"):
                continue
            t = targets[0]
            expr, present = rng_arg(cs.call, t)
            if present is None:
                continue
            if ldefs is None:
                ldefs = R.local_generator_defs(prog, f)
            o = arg_origin(prog, f, expr, ldefs) if present else "ABSENT"
            if o not in ("NONE", "ABSENT", "GLOBAL"):
                continue
            what = "%s(rng=%s)" % (t.qualname.split(":")[-1], {"NONE": "None", "ABSENT": "<default>", "GLOBAL": "global"}[o])
            if id(f) in reach:
                n_reach += 1
                rep.violate("R4c-draws", f.qualname, "runs %s on the global stream in code reachable from a generator-owning component" % what,
                            where(f, cs.call), "the component's generator", what)
            else:
                globals_elsewhere.append("%s: %s" % (f.qualname, what))
    rep.extra["global_draws_outside_components"] = sorted(set(globals_elsewhere))
    for g in sorted(set(globals_elsewhere)):
        rep.info("R4c-draws", g.split(": ")[0], "global-stream draw with no generator parameter in scope (allowed by R1): %s" % g)


def _defaults_nodes(fn):
    a = fn.args
    for d in list(a.defaults) + [x for x in a.kw_defaults if x is not None]:
        for n in ast.walk(d):
            yield n


def _guarded_by_none_test(fnode, st, var):
    """st is (transitively) inside `if <var> is None:` body"""
    def visit(node, guarded):
        for ch in ast.iter_child_nodes(node):
            if ch is st:
                return guarded
            if isinstance(ch, ast.If):
                t = ch.test
                g = guarded
                if isinstance(t, ast.Compare) and isinstance(t.left, ast.Name) and t.left.id == var and len(t.ops) == 1 \
                        and isinstance(t.ops[0], ast.Is) and is_none(t.comparators[0]):
                    for s in ch.body:
                        if s is st:
                            return True
                        r = visit(s, True)
                        if r is not None:
                            return r
                    for s in ch.orelse:
                        if s is st:
                            return guarded
                        r = visit(s, guarded)
                        if r is not None:
                            return r
                    continue
            r = visit(ch, guarded)
            if r is not None:
                return r
        return None
    r = visit(fnode, False)
    return bool(r)
