"""
C05  Selection objectives mean what they say in every decision encoding

  R1-criterion  every latentfn is normalised (algebraic normal form) and its contribution vector canonicalised -- subset
                (1/len(x)) * D[x].sum(k)  and weight  (x/sum(x)) . D  both become contrib(D, k) -- then (a) the encodings of one criterion must be
                congruent and (b) each must equal the criterion's reference term (table B.2)
                "the latent objective vector of a candidate equals the criterion's definition ... and the subset, integer-count, binary-indicator and
                 real-contribution encodings ... give identical values"
  R2-invariance after canonicalisation no occurrence of the decision vector remains outside contrib(...) / symmetric reductions over the indexed axis
                "values do not depend on the order in which a subset is listed nor on positive rescaling of a contribution vector"
  R3-wiring     evalfn == (obj_wt*obj_trans(x, latent), ineqcv_wt*ineqcv_trans(x, latent), eqcv_wt*eqcv_trans(x, latent)) of ONE latent value, no in-place
                update of a transformation result (it may alias the latent vector); _evaluate writes F,G,H in that order
                "the reported objectives and constraint violations are exactly the declared weights times the declared transformations of that latent vector"
  R4-factor     the kinship factor is cholesky(kinship-format matrix).T wherever it is built
  R5-factories  every from_* factory passes its same-named arguments through by keyword
  R6-chunks     chunked builders tile [0,n) with zip(range(0,n,s), srange(s,n,s)) and every read/write of the result inside a chunk uses exactly [rst:rsp];
                usefulness = epgc.bv[cross] + intensity*sqrt(var[cross])
                "problems built from populations by the factory methods hold exactly the data ... of that population"
  R7-loopdata   a value stored into out[i] inside `for i in range(n)` depends on i
"""
import ast

from sa.ctorflow import wire

from fractions import Fraction

from sa.astutil import dump, where, kwargs_of, walk_no_nested, field_of, is_guard
from sa.model import body_nodoc, AnalysisError
from sa.vn import VN, Poly, VNUnknown, comparable

PROB = "pybrops.breed.prot.sel.prob."
ENC = ("Subset", "Real", "Integer", "Binary")
# reference criterion terms, written in the weight syntax (contrib = x / x.sum()); canonicalised by the same code as the implementations
REF = {
    "EstimatedBreedingValue": "-contrib.dot(self._ebv)",
    "GenomicEstimatedBreedingValue": "-contrib.dot(self._gebv)",
    "GeneralizedWeightedGenomicEstimatedBreedingValue": "-contrib.dot(self._gwgebv)",
    "WeightedGenomic": "-contrib.dot(self._wgebv)",
    "ExpectedMaximumBreedingValue": "-contrib.dot(self._embv)",
    "OptimalHaploidValue": "-contrib.dot(self._ohvmat)",
    "UsefulnessCriterion": "-contrib.dot(self._ucmat)",
    "Random": "-contrib.dot(self._rbv)",
    "MeanGenomicRelationship": "numpy.linalg.norm(self._C.dot(contrib), ord=2, keepdims=True)",
    "MeanExpectedHeterozygosity": "-(1.0 - numpy.linalg.norm(self._C.dot(contrib), ord=2, keepdims=True))",
    "L1NormGenomic": "numpy.absolute(self._V.dot(contrib)).sum(1)",
    "L2NormGenomic": "numpy.linalg.norm(self._C.dot(contrib), ord=2, axis=1)",
    "OptimalContribution": "numpy.concatenate([numpy.linalg.norm(self._C.dot(contrib), ord=2, keepdims=True), -contrib.dot(self._ebv)])",
    "FamilyEstimatedBreedingValue": "numpy.concatenate([-contrib.dot(self._ebv), -numpy.bincount(self._familyix, contrib)])",
}


def poly_from_key(key):
    return Poly({m: Fraction(*c) for m, c in key})


def is_poly_key(k):
    return isinstance(k, tuple) and (len(k) == 0 or (isinstance(k[0], tuple) and len(k[0]) == 2 and isinstance(k[0][1], tuple) and len(k[0][1]) == 2
                                                     and all(isinstance(v, int) for v in k[0][1])))


class Canon:
    """canonicalise contribution idioms of one decision variable x"""

    def __init__(self, x="x"):
        self.x = x
        self.xatom = ("var", x)
        xs = Poly.atom(("red", "sum", Poly.atom(self.xatom).key(), None))
        self.W = Poly.atom(self.xatom) * xs.pow(-1)
        self.Wkey = self.W.key()
        self.lenatom = ("len", Poly.atom(self.xatom).key())
        self.CONTRIB = ("var", "<contrib>")

    def poly(self, p):
        out = Poly()
        for m, c in p.terms.items():
            out = out + self.mono(m).scale(c)
        return out

    def key(self, k):
        if is_poly_key(k):
            return self.poly(poly_from_key(k)).key()
        if isinstance(k, tuple):
            return tuple(self.key(x) for x in k)
        return k

    def mono(self, m):
        """monomial -> Poly, applying the subset rule at monomial level"""
        atoms = list(m)
        # subset rule: len(x)^-1 * red(sum, index(D, (.., x, ..)), axis=k)  ->  contrib(D, k)
        lens = [i for i, (a, e) in enumerate(atoms) if a == self.lenatom and e <= -1]
        if lens:
            for j, (a, e) in enumerate(atoms):
                if e == 1 and isinstance(a, tuple) and a[0] == "red" and a[1] == "sum":
                    inner = poly_from_key(a[2])
                    ax = a[3]
                    hit = self.index_of_x(inner)
                    if hit is not None and len(a) == 4:
                        D, pos, npos = hit
                        axv = poly_from_key(ax).const_value() if is_poly_key(ax) else None
                        if axv is not None and int(axv) == pos:
                            where_ = "first" if pos == 0 else ("last" if pos == npos - 1 else str(pos))
                            new = [(aa, ee) for i2, (aa, ee) in enumerate(atoms) if i2 != j]
                            li = [i2 for i2, (aa, ee) in enumerate(new) if aa == self.lenatom][0]
                            la, le = new[li]
                            if le + 1 == 0:
                                new.pop(li)
                            else:
                                new[li] = (la, le + 1)
                            rest = self.mono(tuple(new))
                            return rest * Poly.atom(("contrib", self.key(D), where_))
        out = Poly.const(1)
        for a, e in atoms:
            out = out * self.atom(a).pow(e) if e != 1 else out * self.atom(a)
        return out

    def index_of_x(self, inner):
        """inner == index(D, ix) with x at exactly one position and full slices / newaxis elsewhere -> (Dkey, pos, n positions)"""
        if len(inner.terms) != 1:
            return None
        (m, c), = inner.terms.items()
        if c != 1 or len(m) != 1 or m[0][1] != 1:
            return None
        a = m[0][0]
        if not (isinstance(a, tuple) and a[0] == "index"):
            return None
        D, ix = a[1], a[2]
        xk = Poly.atom(self.xatom).key()
        if ix == xk:
            return D, 0, 1
        if isinstance(ix, tuple) and ix and ix[0] == "ix":
            elts = ix[1:]
            real = [e for e in elts if e != ("newaxis",)]
            pos = [i for i, e in enumerate(real) if e == xk]
            if len(pos) == 1 and all(e == ("slice", None, None, None) for i, e in enumerate(real) if i != pos[0]):
                return D, pos[0], len(real)
        return None

    def atom(self, a):
        if not isinstance(a, tuple):
            return Poly.atom(a)
        if a[0] == "dot":
            L, R = a[1], a[2]
            if L == self.Wkey:
                return Poly.atom(("contrib", self.key(R), "first"))
            if R == self.Wkey:
                return Poly.atom(("contrib", self.key(L), "last"))
        if a[0] == "setitem" and len(a) == 4:
            base, idx, val = a[1], a[2], a[3]
            if idx == Poly.atom(self.xatom).key() and val == Poly.atom(self.lenatom).pow(-1).key() and "zeros" in repr(base):
                return Poly.atom(self.CONTRIB)
        if a == ("var", "contrib"):
            return Poly.atom(self.CONTRIB)
        return Poly.atom(tuple(self.key(x) for x in a))

    def finish(self, p):
        """W itself (x * sum(x)^-1) appearing as a vector argument -> <contrib>"""
        return p


def zero_sum_guard(vn, st):
    """`v = v if abs(v) >= eps else 1.0`  (tolerated idiom: behaviour differs only at sum(x) == 0, outside the decision space)"""
    if isinstance(st, ast.Assign) and isinstance(st.value, ast.IfExp) and isinstance(st.targets[0], ast.Name):
        v = st.value
        if isinstance(v.body, ast.Name) and v.body.id == st.targets[0].id and isinstance(v.test, ast.Compare) and "abs(%s)" % v.body.id in dump(v.test):
            return True
    return False


def latent_nf(prog, f):
    vn = VN(prog, f, inline=2, skip=lambda st: zero_sum_guard(None, st))
    x = f.params()[1]
    guard = False
    for st in body_nodoc(f.node):
        if zero_sum_guard(vn, st):
            guard = True
            continue
        r = vn.stmt(st)
        if r is not None:
            cn = Canon(x)
            # W as a bare vector (e.g. bincount(familyix, contrib)): substitute before canonicalising
            out = cn.poly(r)
            return _subst_w(out, cn), guard, x
    raise VNUnknown("no return")


def _subst_w(p, cn):
    """replace the bare weight vector W = x*sum(x)^-1 appearing as a poly key inside atoms by <contrib>"""
    wk = cn.Wkey
    ck = Poly.atom(cn.CONTRIB).key()

    def rk(k):
        if k == wk:
            return ck
        if isinstance(k, tuple):
            return tuple(rk(x) for x in k)
        return k
    return poly_from_key(rk(p.key()))


def families(prog):
    fam = {}
    for m in prog.modules.values():
        if not m.name.startswith(PROB) or not m.name.endswith("SelectionProblem"):
            continue
        for c in m.classes.values():
            f = c.methods.get("latentfn")
            if f is None:
                continue
            body = body_nodoc(f.node)
            if len(body) == 1 and isinstance(body[0], ast.Raise):
                continue
            enc = [e for e in ENC if e in c.name]
            if not enc:
                continue
            base = c.name.replace(enc[0], "").replace("MateSelectionProblem", "").replace("SelectionProblem", "")
            fam.setdefault(base, {})[enc[0] + ("Mate" if "Mate" in c.name else "")] = (c, f)
    return fam


def leftover_x(p, x):
    """occurrences of the decision variable outside contrib(...) atoms; index atoms under symmetric reducers are allowed"""
    bad = []

    def rec(k, ctx):
        if isinstance(k, tuple):
            if k == ("var", x):
                if not any(c in ("contrib-arg", "symred", "len") for c in ctx):
                    bad.append(ctx[-1] if ctx else "top")
                return
            if k and k[0] == "contrib":
                return
            if k and k[0] == "len":
                for y in k[1:]:
                    rec(y, ctx + ["len"])
                return
            if k and k[0] == "red" and k[1] in ("max", "min", "sum", "mean"):
                for y in k[2:]:
                    rec(y, ctx + ["symred"])
                return
            for y in k:
                rec(y, ctx + [str(k[0])[:12] if k and isinstance(k[0], str) else "."])
    rec(p.key(), [])
    return bad


def check_criteria(prog, rep, tier):
    fams = families(prog)
    rep.extra["criterion_families"] = sorted(fams)
    for base, encs in sorted(fams.items()):
        nfs = {}
        for enc, (c, f) in sorted(encs.items()):
            rep.saw(f)
            try:
                nf, guard, x = latent_nf(prog, f)
                nfs[enc] = (nf, c, f, x)
            except VNUnknown as e:
                if base in REF:
                    rep.unrec("R1-criterion", f.qualname, "latentfn not straight-line arithmetic: %s" % e)
                else:
                    rep.info("R1-criterion", f.qualname, "latentfn not modelled (%s)" % e)
        if not nfs:
            continue
        # spec congruence
        ref = None
        if base in REF:
            any_f = list(nfs.values())[0][2]
            vn = VN(prog, any_f, env={"contrib": Poly.atom(("var", "<contrib>"))})
            r = vn.expr(ast.parse(REF[base], mode="eval").body)
            # reference is written with `contrib`: dot(contrib, D) -> contrib(D, first)
            ref = _canon_ref(r)
        first = None
        for enc, (nf, c, f, x) in sorted(nfs.items()):
            construct = f.qualname
            if ref is not None:
                if nf == ref:
                    rep.ok("R1-criterion", construct, "latent term == %s" % REF[base], sample={"class": c.name, "term": nf.show()[:200]} if enc == "Subset" else None)
                elif comparable(nf, ref) or comparable(ref, nf):
                    rep.violate("R1-criterion", construct, "latent term normalises to %s; the %s criterion is %s" % (nf.show()[:180], base, ref.show()[:180]), where(f),
                                ref.show()[:180], nf.show()[:180])
                else:
                    rep.unrec("R1-criterion", construct, "latent term uses operators the reference does not: %s" % nf.show()[:120])
            else:
                # sibling congruence only
                if first is None:
                    first = (enc, nf)
                    if len(nfs) == 1:
                        rep.ok("R1-criterion", construct, "single encoding; term %s" % nf.show()[:120])
                elif nf == first[1]:
                    rep.ok("R1-criterion", construct, "congruent with the %s encoding" % first[0])
                else:
                    rep.violate("R1-criterion", construct, "latent term %s differs from the %s encoding's %s" % (nf.show()[:140], first[0], first[1].show()[:140]), where(f),
                                first[1].show()[:140], nf.show()[:140])
            bad = leftover_x(nf, x)
            if bad and any(b in ("meth", "call") for b in bad):
                rep.unrec("R2-invariance", construct, "the decision vector is handed to a helper that is not straight-line arithmetic: what it does with it is not modelled")
            elif bad:
                rep.violate("R2-invariance", construct, "the decision vector is used outside the normalised contribution / symmetric reductions (inside %s): the value depends on "
                            "the scale or the order of the decision" % ", ".join(sorted(set(bad))), where(f), "x only through x/sum(x), len(x) or a symmetric reduction", nf.show()[:120])
            else:
                rep.ok("R2-invariance", construct, "decision vector enters only through the contribution vector / symmetric reductions")


def _canon_ref(r):
    """dot(<contrib>, D) -> contrib(D, first); dot(D, <contrib>) -> contrib(D, last) inside a reference normal form"""
    ck = Poly.atom(("var", "<contrib>")).key()

    def rk(k):
        if isinstance(k, tuple):
            if k and k[0] == "dot" and len(k) == 3:
                if k[1] == ck:
                    return ("contrib", rk(k[2]), "first")
                if k[2] == ck:
                    return ("contrib", rk(k[1]), "last")
            return tuple(rk(x) for x in k)
        return k
    return poly_from_key(rk(r.key()))


def check_wiring(prog, rep):
    c = prog.get_class("SelectionProblem", PROB + "SelectionProblem")
    f = prog.own_method(c, "evalfn")
    rep.saw(f)
    construct = f.qualname
    x = f.params()[1]
    body = body_nodoc(f.node)
    defs = {}
    good = True
    for st in body:
        if isinstance(st, ast.AugAssign):
            rep.violate("R3-wiring", construct, "in-place update `%s`: the transformation result may be the latent vector itself (trans_identity returns its input), so "
                        "later transformations see a rescaled latent vector" % dump(st)[:50], where(f, st), "obj = obj_wt * obj_trans(...)", dump(st)[:50])
            good = False
        elif isinstance(st, ast.Assign) and isinstance(st.targets[0], ast.Name):
            defs.setdefault(st.targets[0].id, []).append(st.value)
    lat = [k for k, v in defs.items() if len(v) == 1 and isinstance(v[0], ast.Call) and dump(v[0].func) == "self.latentfn"]
    if len(lat) != 1:
        rep.unrec("R3-wiring", construct, "latent = self.latentfn(x, ...) not found exactly once")
        return
    L = lat[0]
    ret = body[-1] if isinstance(body[-1], ast.Return) else None
    if ret is None or not isinstance(ret.value, ast.Tuple) or len(ret.value.elts) != 3:
        rep.unrec("R3-wiring", construct, "evalfn does not return a 3-tuple")
        return
    for pos, part in enumerate(("obj", "ineqcv", "eqcv")):
        e = ret.value.elts[pos]
        v = defs.get(e.id, [None])[-1] if isinstance(e, ast.Name) else e
        if isinstance(e, ast.Name) and len(defs.get(e.id, [])) != 1:
            rep.unrec("R3-wiring", construct, "%s assigned %d times" % (e.id, len(defs.get(e.id, []))))
            good = False
            continue
        want = "self.%s_wt * self.%s_trans(%s, %s, **self.%s_trans_kwargs)" % (part, part, x, L, part)
        alt = "self.%s_trans(%s, %s, **self.%s_trans_kwargs) * self.%s_wt" % (part, x, L, part, part)
        got = dump(v) if v is not None else "?"
        if got in (want, alt):
            continue
        good = False
        # classify
        if v is not None and isinstance(v, ast.BinOp) and isinstance(v.op, ast.Mult):
            txt = got
            for other in ("obj", "ineqcv", "eqcv"):
                if other != part and ("self.%s_wt" % other in txt or "self.%s_trans(" % other in txt or "self.%s_trans_kwargs" % other in txt):
                    rep.violate("R3-wiring", construct, "the %s component (position %d) is built from the %s weight/transformation: %s" % (part, pos, other, txt[:90]), where(f, v), want, txt[:90])
                    break
            else:
                if L not in txt:
                    rep.violate("R3-wiring", construct, "the %s transformation is not applied to the latent vector: %s" % (part, txt[:90]), where(f, v), want, txt[:90])
                else:
                    rep.unrec("R3-wiring", construct, "%s component not modelled: %s" % (part, txt[:90]))
        else:
            if v is not None and "self.%s_wt" % part not in got and "self.%s_trans(" % part in got:
                rep.violate("R3-wiring", construct, "the %s component is not multiplied by its declared weight: %s" % (part, got[:90]), where(f), want, got[:90])
            else:
                rep.unrec("R3-wiring", construct, "%s component not modelled: %s" % (part, got[:90]))
    if good:
        rep.ok("R3-wiring", construct, "one latent value; (obj, ineqcv, eqcv) = (wt * trans(x, latent, **kwargs)) each with its own weight/transformation; no in-place update")
    # subclasses must not override evalfn differently
    for k in prog.subclasses("SelectionProblem", include_self=False):
        if "evalfn" in k.methods and not (len(body_nodoc(k.methods["evalfn"].node)) == 1 and isinstance(body_nodoc(k.methods["evalfn"].node)[0], ast.Raise)):
            rep.info("R3-wiring", k.methods["evalfn"].qualname, "overrides evalfn (not analysed)")
    # _evaluate: F,G,H order
    g = prog.own_method(c, "_evaluate")
    rep.saw(g)
    gdefs = {}
    for n in walk_no_nested(g.node):
        if isinstance(n, ast.Assign) and len(n.targets) == 1 and isinstance(n.targets[0], ast.Name):
            gdefs.setdefault(n.targets[0].id, []).append(n.value)
    zips = [n for n in ast.walk(g.node) if isinstance(n, ast.Call) and dump(n.func) == "zip" and len(n.args) == 2 and isinstance(n.args[0], (ast.List, ast.Tuple))
            and all(isinstance(e, ast.Constant) and isinstance(e.value, str) for e in n.args[0].elts)]
    verdict = "ok" if len(zips) >= 1 else "unrec"
    for z in zips:
        keys = [e.value for e in z.args[0].elts]
        if keys != ["F", "G", "H"]:
            rep.violate("R3-wiring", g.qualname, "pymoo slots are written in the order %s, not F,G,H (= objectives, inequality, equality violations)" % keys, where(g, z), "['F','G','H']", str(keys))
            verdict = "bad"
            continue
        vals = z.args[1]
        if isinstance(vals, ast.Name):
            src = gdefs.get(vals.id, [])
            if not (len(src) >= 1 and any(isinstance(v, ast.Call) and dump(v.func) == "self.evalfn" for v in src)):
                verdict = "unrec" if verdict != "bad" else verdict
        elif isinstance(vals, (ast.List, ast.Tuple)) and len(vals.elts) == 3 and all(isinstance(e, ast.Name) for e in vals.elts):
            for pos, e in enumerate(vals.elts):
                d = gdefs.get(e.id, [None])[-1]
                idx = None
                if isinstance(d, ast.Call) and prog.dotted(g.module, d.func) in ("numpy.stack", "numpy.array", "numpy.vstack") and d.args and isinstance(d.args[0], ast.ListComp):
                    elt = d.args[0].elt
                    if isinstance(elt, ast.Subscript) and isinstance(elt.slice, ast.Constant):
                        idx = elt.slice.value
                if idx is None:
                    verdict = "unrec" if verdict != "bad" else verdict
                elif idx != pos:
                    rep.violate("R3-wiring", g.qualname, "slot %s of the batched evaluation is stacked from component %d of evalfn's (obj, ineqcv, eqcv) tuple, not component %d"
                                % (keys[pos], idx, pos), where(g, d), "e[%d]" % pos, "e[%d]" % idx)
                    verdict = "bad"
        else:
            verdict = "unrec" if verdict != "bad" else verdict
    if verdict == "ok":
        rep.ok("R3-wiring", g.qualname, "F, G, H <- (obj, ineqcv, eqcv) in that order, single and batched (%d zip sites)" % len(zips))
    elif verdict == "unrec":
        rep.unrec("R3-wiring", g.qualname, "_evaluate not in the modelled form")


def check_factor(prog, rep):
    """R4: wherever numpy.linalg.cholesky is used in the problem factories, its argument is the kinship-format matrix and the result is transposed"""
    n = 0
    for m in prog.modules.values():
        if not m.name.startswith(PROB):
            continue
        for f in list(m.functions.values()) + [g for c in m.classes.values() for g in c.methods.values()]:
            for node in walk_no_nested(f.node):
                if isinstance(node, ast.Call) and prog.dotted(f.module, node.func) == "numpy.linalg.cholesky":
                    n += 1
                    rep.saw(f)
                    construct = f.qualname
                    arg = node.args[0] if node.args else None
                    defs = {}
                    for s in walk_no_nested(f.node):
                        if isinstance(s, ast.Assign) and isinstance(s.targets[0], ast.Name):
                            defs.setdefault(s.targets[0].id, []).append(s.value)
                    av = defs.get(arg.id, [None])[-1] if isinstance(arg, ast.Name) else arg
                    fmt = None
                    if isinstance(av, ast.Call) and isinstance(av.func, ast.Attribute) and av.func.attr == "mat_asformat" and av.args and isinstance(av.args[0], ast.Constant):
                        fmt = av.args[0].value
                    par = [p for p in ast.walk(f.node) if isinstance(p, ast.Attribute) and p.value is node]
                    transposed = any(p.attr == "T" for p in par)
                    good = True
                    if fmt is None:
                        rep.unrec("R4-factor", construct, "cholesky argument not <matrix>.mat_asformat('<format>')")
                        continue
                    if str(fmt).lower() != "kinship":
                        rep.violate("R4-factor", construct, "the factor is built from the '%s' format, not from kinship: ||C w||^2 = w'(2K)w" % fmt, where(f, node), "mat_asformat('kinship')", str(fmt))
                        good = False
                    if not transposed:
                        rep.violate("R4-factor", construct, "the lower Cholesky factor is used without transposition: ||L w|| != sqrt(w'Kw) (needs C = L')", where(f, node),
                                    "numpy.linalg.cholesky(K).T", dump(node)[:40])
                        good = False
                    if good:
                        rep.ok("R4-factor", construct, "C = cholesky(kinship).T  (so that ||C w||^2 = w'Kw)")
    rep.extra["cholesky_sites"] = n


def check_factories(prog, rep):
    """R5: cls(...) inside from_* forwards every same-named argument by keyword (KW rule)"""
    n = 0
    for m in prog.modules.values():
        if not m.name.startswith(PROB):
            continue
        for c in m.classes.values():
            for name, f in c.methods.items():
                if not name.startswith("from_") or f.kind != "classmethod":
                    continue
                body = body_nodoc(f.node)
                if len(body) == 1 and isinstance(body[0], ast.Raise):
                    continue
                ctor = [x for x in walk_no_nested(f.node) if isinstance(x, ast.Call) and isinstance(x.func, ast.Name) and x.func.id == "cls"]
                if len(ctor) != 1:
                    continue
                n += 1
                rep.saw(f)
                kws, _ = kwargs_of(ctor[0])
                params = set(f.params())
                good = True
                for k, v in kws.items():
                    if isinstance(v, ast.Name) and v.id in params and v.id != k and k in params:
                        rep.violate("R5-factories", f.qualname, "constructor receives %s=%s" % (k, v.id), where(f, ctor[0]), "%s=%s" % (k, k), v.id)
                        good = False
                init = prog.init_params(c) if prog.mro(c) is not None else []
                for p in params:
                    if p in init and p not in kws and p not in ("cls",):
                        rep.violate("R5-factories", f.qualname, "argument %s is accepted but not handed to the constructor" % p, where(f, ctor[0]), "%s=%s" % (p, p), "absent")
                        good = False
                if good:
                    rep.ok("R5-factories", f.qualname, "all same-named arguments forwarded by keyword (%d keywords)" % len(kws))
    rep.extra["factories"] = n


def check_chunks(prog, rep):
    c = prog.get_class("OptimalHaploidValueSelectionProblemMixin", PROB + "OptimalHaploidValueSelectionProblem")
    f = prog.own_method(c, "_calc_ohvmat")
    rep.saw(f)
    construct = f.qualname
    loops = [s for s in body_nodoc(f.node) if isinstance(s, ast.For)]
    if len(loops) != 1:
        rep.unrec("R6-chunks", construct, "expected one chunk loop")
        return
    lp = loops[0]
    it = lp.iter
    good = True
    defs = {}
    for s in walk_no_nested(f.node):
        if isinstance(s, ast.Assign) and isinstance(s.targets[0], ast.Name):
            defs[s.targets[0].id] = s.value
    if not (isinstance(it, ast.Call) and dump(it.func) == "zip" and len(it.args) == 2 and isinstance(lp.target, ast.Tuple)):
        rep.unrec("R6-chunks", construct, "chunk loop not zip(range(...), srange(...))")
        return
    r0, r1 = it.args
    a0 = [dump(a) for a in r0.args] if isinstance(r0, ast.Call) else []
    a1 = [dump(a) for a in r1.args] if isinstance(r1, ast.Call) else []
    if isinstance(r0, ast.Call) and isinstance(r1, ast.Call) and dump(r0.func) == "range" and dump(r1.func) == "range" and len(a0) == 3 and len(a1) == 3:
        # chunk stops from a plain range: range(a+s, b(+1), s) yields multiples of the step only, so the stop of the last, partial chunk is never produced and zip drops
        # that chunk - its rows of the (numpy.empty) result are never written
        rep.violate("R6-chunks", construct, "chunk stops come from range(%s): when the number of rows is not a multiple of the step the last, partial chunk has no stop index, zip "
                    "drops it and its rows are left uninitialised" % ", ".join(a1), where(f, lp), "srange(%s + %s, %s, %s) (stops that end at the bound itself)" % (a0[0], a0[2], a0[1], a0[2]),
                    "range(%s)" % ", ".join(a1))
        return
    if not (dump(r0.func) == "range" and dump(r1.func) == "srange" and len(a0) == 3 and len(a1) == 3):
        rep.unrec("R6-chunks", construct, "chunk generators not range(a,b,s) / srange(a+s,b,s)")
        return
    a, b, s = a0
    if a1[1] != b or a1[2] != s or a1[0] not in ("%s + %s" % (a, s), s if a == "0" else "?"):
        rep.violate("R6-chunks", construct, "chunk stops are srange(%s), which do not tile [%s,%s) with starts range(%s)" % (", ".join(a1), a, b, ", ".join(a0)), where(f, lp),
                    "srange(%s + %s, %s, %s)" % (a, s, b, s), ", ".join(a1))
        good = False
    stepv = defs.get(s)
    if stepv is None or dump(stepv) not in ("%s if mem is None else mem" % b, "mem if mem is not None else %s" % b):
        rep.unrec("R6-chunks", construct, "step not `n if mem is None else mem`")
        good = False
    rst, rsp = [e.id for e in lp.target.elts]
    ret = [x for x in body_nodoc(f.node) if isinstance(x, ast.Return)]
    out = ret[0].value.id if ret and isinstance(ret[0].value, ast.Name) else None
    # every subscript of the result inside the chunk is [rst:rsp, ...]
    nsub = 0
    for n in ast.walk(lp):
        if isinstance(n, ast.Subscript) and isinstance(n.value, ast.Name) and n.value.id == out:
            nsub += 1
            first = n.slice.elts[0] if isinstance(n.slice, ast.Tuple) else n.slice
            if not (isinstance(first, ast.Slice) and first.lower is not None and first.upper is not None and dump(first.lower) == rst and dump(first.upper) == rsp):
                rep.violate("R6-chunks", construct, "inside a chunk the result is accessed as %s[%s] instead of [%s:%s]: rows of other chunks are touched (the value depends on the "
                            "chunk size)" % (out, dump(n.slice), rst, rsp), where(f, n), "%s[%s:%s, :]" % (out, rst, rsp), dump(n)[:50])
                good = False
    # `mem` flows only into the step
    guard_names = {id(x) for g in walk_no_nested(f.node) if is_guard(g) for x in ast.walk(g)}
    for n in walk_no_nested(f.node):
        if isinstance(n, ast.Name) and n.id == "mem" and isinstance(n.ctx, ast.Load):
            par_ok = any(n in list(ast.walk(v)) for k, v in defs.items() if k == s) or id(n) in guard_names     # (an argument check that only raises is not a use)
            if not par_ok:
                rep.violate("R6-chunks", construct, "the memory-chunk parameter is used outside the chunk step", where(f, n), "mem only in the step", "other use")
                good = False
    # value: ploidy * haplomat[:, xconfig, :, :].max((0,2)).sum(1) with xconfig = xmap[rst:rsp, :]
    try:
        vn = VN(prog, f)
        for st in lp.body:
            if isinstance(st, ast.Assign) and isinstance(st.targets[0], ast.Name):
                vn.stmt(st)
        stores = [st for st in lp.body if isinstance(st, (ast.Assign, ast.AugAssign)) and not (isinstance(st, ast.Assign) and isinstance(st.targets[0], ast.Name))]
        val = None
        for st in stores:
            if isinstance(st, ast.Assign):
                val = vn.expr(st.value)
            elif isinstance(st.op, ast.Mult) and val is not None:
                val = val * vn.expr(st.value)
            else:
                raise VNUnknown("chunk update %s" % dump(st)[:40])
        ref = VN(prog, f).expr(ast.parse("ploidy * haplomat[:, xmap[%s:%s, :], :, :].max((0, 2)).sum(1)" % (rst, rsp), mode="eval").body)
        if val == ref:
            pass
        elif val is not None and comparable(val, ref):
            rep.violate("R6-chunks", construct, "chunk value normalises to %s; the optimal haploid value is ploidy * sum_blocks max_(phase,parent) haplotype value" % val.show()[:140],
                        where(f, lp), ref.show()[:140], val.show()[:140])
            good = False
        else:
            # the scale factor may be read off an array instead of being passed in: the number of phases is axis 0 of the block array (and of the gathered chunk)
            core = "haplomat[:, xmap[%s:%s, :], :, :]" % (rst, rsp)
            axes = {0: "chromosome phases", 1: "crosses of the chunk", 2: "parents per cross", 3: "blocks", 4: "traits"}
            verdict = None
            for scale, axis in [("haplomat.shape[0]", 0), ("len(haplomat)", 0)] + [("%s.shape[%d]" % (core, k), k) for k in range(5)]:
                try:
                    alt = VN(prog, f).expr(ast.parse("%s * %s.max((0, 2)).sum(1)" % (scale, core), mode="eval").body)
                except VNUnknown:
                    continue
                if val is not None and val == alt:
                    verdict = (scale, axis)
                    break
            if verdict is not None and verdict[1] == 0:
                pass
            elif verdict is not None:
                rep.violate("R6-chunks", construct, "the chunk value is scaled by the size of axis %d of the gathered block array (%s), not by the ploidy (number of phases, axis 0): "
                            "right only when the two numbers coincide (two parents per cross in a diploid)" % (verdict[1], axes[verdict[1]]), where(f, lp),
                            "ploidy * sum_blocks max_(phase,parent)", verdict[0][-12:])
                good = False
            else:
                rep.unrec("R6-chunks", construct, "chunk value not modelled")
            good = False
    except VNUnknown as e:
        rep.unrec("R6-chunks", construct, str(e))
        good = False
    if good:
        rep.ok("R6-chunks", construct, "tiles [0,n) by zip(range(0,n,s), srange(s,n,s)); %d accesses of the result all [rst:rsp]; value ploidy*max(phase,parent).sum(blocks); mem only in step" % nsub)
    # usefulness criterion
    c = prog.get_class("UsefulnessCriterionSelectionProblemMixin", PROB + "UsefulnessCriterionSelectionProblem")
    f = prog.own_method(c, "_calc_uc")
    rep.saw(f)
    construct = f.qualname
    loops = [s for s in body_nodoc(f.node) if isinstance(s, ast.For)]
    try:
        vn = VN(prog, f)
        for st in body_nodoc(f.node):
            if isinstance(st, ast.For):
                break
            if isinstance(st, ast.Assign):
                vn.stmt(st)
        lp = loops[0]
        i, cc = [e.id for e in lp.target.elts]
        for st in lp.body:
            if isinstance(st, ast.Assign) and isinstance(st.targets[0], ast.Name):
                vn.stmt(st)
        store = [st for st in lp.body if isinstance(st, ast.Assign) and isinstance(st.targets[0], ast.Subscript)][0]
        val = vn.expr(store.value)
        ref = VN(prog, f).expr(ast.parse("numpy.array(vmatfcty.from_gmod(gmod=gmod, pgmat=pgmat, ncross=ncross, nprogeny=nprogeny, nself=nself, gmapfn=gmapfn).epgc)"
                                         ".dot(gmod.gebv(pgmat).unscale()[%s, :]) + selection_intensity * numpy.sqrt(vmatfcty.from_gmod(gmod=gmod, pgmat=pgmat, ncross=ncross, "
                                         "nprogeny=nprogeny, nself=nself, gmapfn=gmapfn).mat[tuple(%s) + (slice(None),)])" % (cc, cc), mode="eval").body)
        retn = [x.value.id for x in body_nodoc(f.node) if isinstance(x, ast.Return) and isinstance(x.value, ast.Name)]
        xm = [p_ for p_ in f.params() if p_ == "xmap"] or [f.params()[-1]]
        okhdr = dump(lp.iter) == "enumerate(%s)" % xm[0] and retn and "".join(dump(store.targets[0]).split()) in ("%s[%s,:]" % (retn[0], i), "%s[%s]" % (retn[0], i))
        if val == ref and okhdr:
            rep.ok("R6-chunks", construct, "uc[i] = epgc . bv[cross] + intensity * sqrt(var[cross]) for every row of the cross map")
        elif not okhdr:
            rep.violate("R6-chunks", construct, "usefulness rows are not written one per cross-map row (%s / %s)" % (dump(lp.iter), dump(store.targets[0])), where(f, lp))
        elif comparable(val, ref):
            rep.violate("R6-chunks", construct, "usefulness normalises to %s; its definition is parental mean + intensity * sqrt(variance)" % val.show()[:160], where(f, store),
                        "epgc.dot(bv[cross]) + i*sqrt(var[cross])", val.show()[:160])
        elif "epgc" not in repr(val.key()):
            rep.violate("R6-chunks", construct, "the expected progeny value %s does not use the cross design's parental contributions (epgc): for unequal contributions "
                        "(three-way crosses: 1/2, 1/4, 1/4) it is not the progeny mean" % val.show()[:100], where(f, store), "epgc.dot(bv[cross]) + i*sqrt(var[cross])", val.show()[:120])
        else:
            rep.unrec("R6-chunks", construct, "usefulness written with other operators")
    except (VNUnknown, IndexError, ValueError) as e:
        rep.unrec("R6-chunks", construct, "not modelled: %s" % e)


DATA_MODULES = ("pybrops.model.embvmat.", "pybrops.model.wgebvmat.")


def _domain_funcs(prog):
    for m in prog.modules.values():
        if not (m.name.startswith(PROB) or m.name.startswith(DATA_MODULES)):
            continue
        for c in m.classes.values():
            for name, f in c.methods.items():
                if name.startswith("from_") or name.startswith("_calc"):
                    yield f


def _target_names(t):
    return [x.id for x in ast.walk(t) if isinstance(x, ast.Name)]


def check_loopdata(prog, rep):
    """R7: in every counting loop of the problem / data factories that stores into out[i, ...]: (a) the index variable is not rebound inside the
    iteration before the store, (b) the stored value depends on the iteration"""
    n = 0
    for f in _domain_funcs(prog):
        for lp in [x for x in walk_no_nested(f.node) if isinstance(x, ast.For)]:
            counted = isinstance(lp.iter, ast.Call) and dump(lp.iter.func) in ("range", "enumerate", "zip")
            if not counted:
                continue
            tn = _target_names(lp.target)
            if isinstance(lp.iter, ast.Call) and dump(lp.iter.func) == "enumerate" and isinstance(lp.target, ast.Tuple):
                idx = _target_names(lp.target.elts[0])
            elif dump(lp.iter.func) == "range":
                idx = tn
            else:
                idx = []
            stores = []
            for s in ast.walk(lp):
                if isinstance(s, (ast.Assign, ast.AugAssign)):
                    tg = s.targets[0] if isinstance(s, ast.Assign) else s.target
                    if isinstance(tg, ast.Subscript):
                        used = {x.id for x in ast.walk(tg.slice) if isinstance(x, ast.Name)}
                        if used & set(idx):
                            stores.append((s, tg, sorted(used & set(idx))[0]))
            if not stores:
                continue
            # (a) rebinding of the index inside the iteration
            rebinds = []
            for s in ast.walk(lp):
                if s is lp:
                    continue
                if isinstance(s, ast.For) and set(_target_names(s.target)) & set(idx):
                    rebinds.append(s)
                elif isinstance(s, ast.Assign) and any(isinstance(t, ast.Name) and t.id in idx for t in s.targets):
                    rebinds.append(s)
            # names defined anywhere in the iteration and what they depend on
            dep = {}
            STOCH = "<stochastic>"

            def names_of(e):
                out = {x.id for x in ast.walk(e) if isinstance(x, ast.Name)}
                for x in ast.walk(e):
                    if isinstance(x, ast.Attribute) and x.attr in ("rng", "_rng"):
                        out.add(STOCH)
                    if isinstance(x, ast.Call) and isinstance(x.func, ast.Attribute) and x.func.attr in ("mate", "phenotype"):
                        out.add(STOCH)
                if out & {"global_prng", "rng"}:
                    out.add(STOCH)
                return out
            for s in ast.walk(lp):
                if isinstance(s, ast.Assign):
                    for t in s.targets:
                        for nm in ([t.id] if isinstance(t, ast.Name) else ([t.value.id] if isinstance(t, ast.Subscript) and isinstance(t.value, ast.Name) else [])):
                            dep.setdefault(nm, set()).update(names_of(s.value))
                            if isinstance(t, ast.Subscript):
                                dep[nm].update(x.id for x in ast.walk(t.slice) if isinstance(x, ast.Name))
                elif isinstance(s, ast.AugAssign) and isinstance(s.target, ast.Name):
                    dep.setdefault(s.target.id, set()).update(names_of(s.value))
                elif isinstance(s, ast.For) and s is not lp:
                    for nm in _target_names(s.target):
                        dep.setdefault(nm, set()).update(x.id for x in ast.walk(s.iter) if isinstance(x, ast.Name))
            for s, tg, i in stores:
                if s not in lp.body and not any(s in list(ast.walk(b)) for b in lp.body if isinstance(b, (ast.If, ast.Try, ast.With))):
                    # a store nested in an inner loop: belongs to that loop's own instance of the rule unless it indexes by the outer variable
                    pass
                n += 1
                rep.saw(f)
                construct = "%s#%s" % (f.qualname, dump(tg)[:30])
                rb = [r for r in rebinds if getattr(r, "lineno", 0) < getattr(s, "lineno", 0) and i in (_target_names(r.target) if isinstance(r, ast.For)
                                                                                                      else [t.id for t in r.targets if isinstance(t, ast.Name)])]
                if rb:
                    rep.violate("R7-loopdata", f.qualname, "the index %s of the outer loop `for %s in %s` is rebound by `%s` before the store into %s: every iteration writes the "
                                "row given by the inner loop's last value, the other rows are never written" % (i, dump(lp.target), dump(lp.iter)[:30],
                                                                                                              dump(rb[0]).splitlines()[0][:40], dump(tg)[:30]),
                                where(f, rb[0]), "a different name for the inner loop variable", dump(rb[0]).splitlines()[0][:40])
                    continue
                seen, work = set(), list(names_of(s.value))
                uses = False
                while work:
                    nm = work.pop()
                    if nm in tn:
                        uses = True
                        break
                    if nm == STOCH:
                        uses = "replicate"
                        break
                    if nm in seen:
                        continue
                    seen.add(nm)
                    work.extend(dep.get(nm, ()))
                if uses == "replicate":
                    rep.ok("R7-loopdata", construct, "replicate loop: the value stored into slice %s is a fresh random draw per iteration" % i)
                elif uses:
                    rep.ok("R7-loopdata", construct, "value stored into slice %s depends on the iteration (%s)" % (i, ", ".join(tn)))
                else:
                    rep.violate("R7-loopdata", f.qualname, "every iteration of `for %s in %s` stores the same value into %s: the per-%s data (%s) are never indexed by the iteration"
                                % (dump(lp.target), dump(lp.iter), dump(tg)[:30], i, ", ".join(sorted(x for x in seen if x in f.params()))[:60]), where(f, s),
                                "value depends on %s" % i, dump(s.value)[:50])
    rep.extra["indexed_store_loops"] = n


def check_scratch(prog, rep):
    """R10: a scratch buffer that is reduced WHOLE over its first axis holds exactly the rows this iteration wrote: it is allocated with the extent of the
    fill loop, and inside the iteration whenever that extent varies with it"""
    n = 0
    for f in _domain_funcs(prog):
        asg = {}
        for s in ast.walk(f.node):
            if isinstance(s, ast.Assign) and len(s.targets) == 1 and isinstance(s.targets[0], ast.Name):
                asg.setdefault(s.targets[0].id, []).append(s)
        parents = {}
        for p_ in ast.walk(f.node):
            for ch in ast.iter_child_nodes(p_):
                parents[id(ch)] = p_

        def loops_of(node):
            out = []
            while id(node) in parents:
                node = parents[id(node)]
                if isinstance(node, ast.For):
                    out.append(node)
            return out
        for red in ast.walk(f.node):
            if not (isinstance(red, ast.Call) and isinstance(red.func, ast.Attribute) and red.func.attr in ("mean", "sum", "max", "min", "std", "var")
                    and isinstance(red.func.value, ast.Name) and red.func.value.id in asg):
                continue
            kws, _ = kwargs_of(red)
            ax = kws.get("axis") or (red.args[0] if red.args else None)
            if ax is None or dump(ax) != "0":
                continue
            B = red.func.value.id
            allocs = [s for s in asg[B] if isinstance(s.value, ast.Call) and prog.dotted(f.module, s.value.func) in ("numpy.empty", "numpy.zeros", "numpy.full")]
            if len(allocs) != 1 or len(asg[B]) != 1:
                continue
            al = allocs[0]
            shp = al.value.args[0] if al.value.args else None
            ext = shp.elts[0] if isinstance(shp, ast.Tuple) and shp.elts else shp
            fills = [s for s in ast.walk(f.node) if isinstance(s, ast.Assign) and isinstance(s.targets[0], ast.Subscript) and dump(s.targets[0].value) == B]
            if len(fills) != 1:
                continue
            fill = fills[0]
            fl = loops_of(fill)
            if not fl or not (isinstance(fl[0].iter, ast.Call) and dump(fl[0].iter.func) == "range" and len(fl[0].iter.args) == 1 and isinstance(fl[0].target, ast.Name)):
                continue
            j = fl[0].target.id
            first = fill.targets[0].slice.elts[0] if isinstance(fill.targets[0].slice, ast.Tuple) else fill.targets[0].slice
            if dump(first) != j:
                continue
            n += 1
            rep.saw(f)
            construct = "%s#%s" % (f.qualname, B)
            trip = "".join(dump(fl[0].iter.args[0]).split())
            extent = "".join(dump(ext).split()) if ext is not None else "?"
            outer = [l for l in loops_of(red)]
            varying = [l for l in outer if set(_target_names(l.target)) & {x.id for x in ast.walk(fl[0].iter.args[0]) if isinstance(x, ast.Name)}]
            if extent != trip:
                rep.violate("R10-scratch", construct, "%s.%s(axis=0) reduces all %s rows of the buffer, but the iteration fills rows range(%s): rows left over from "
                            "earlier iterations (or never written) enter the reduction" % (B, red.func.attr, extent, trip), where(f, red), "buffer of %s rows" % trip, extent)
            elif varying and varying[0] not in loops_of(al):
                rep.violate("R10-scratch", construct, "the buffer is allocated once outside `for %s`, although its extent %s changes with the iteration" % (dump(varying[0].target), trip),
                            where(f, al))
            else:
                rep.ok("R10-scratch", construct, "buffer of %s rows allocated in the iteration that fills rows range(%s) and reduces them" % (extent, trip))
    rep.floor("R10-scratch", 1)


def check_positional(prog, rep, rule="R5-factories", modules=None):
    """a positional argument that is a bare name equal to a DIFFERENT parameter name of the (resolved) callee is an argument swap:
    for every call cls._calc_*/self._calc_*/cls.from_* with positional arguments in the problem factories"""
    n = 0
    for m in prog.modules.values():
        if not (m.name.startswith(PROB) or m.name.startswith(DATA_MODULES)):
            continue
        if modules is not None and not any(x in m.name for x in modules):
            continue
        for c in m.classes.values():
            if prog.mro(c) is None:
                continue
            for f in c.methods.values():
                for call in walk_no_nested(f.node):
                    if not (isinstance(call, ast.Call) and isinstance(call.func, ast.Attribute) and dump(call.func.value) in ("cls", "self") and call.args):
                        continue
                    callee = prog.lookup_method(c, call.func.attr)
                    if callee is None:
                        continue
                    pn = callee.params()
                    if callee.kind in ("method", "classmethod") and pn and pn[0] in ("self", "cls"):
                        pn = pn[1:]
                    if any(isinstance(a, ast.Starred) for a in call.args):
                        continue
                    n += 1
                    rep.saw(f)
                    construct = "%s -> %s" % (f.qualname, call.func.attr)
                    bad = []
                    for i, a in enumerate(call.args):
                        if i < len(pn) and isinstance(a, ast.Name) and a.id in pn and a.id != pn[i]:
                            bad.append((i, a.id, pn[i]))
                    if bad:
                        i, got, want = bad[0]
                        rep.violate(rule, construct, "positional argument %d is `%s` but the callee's parameter there is `%s` (and `%s` is another parameter of the callee): "
                                    "arguments are exchanged" % (i + 1, got, want, got), where(f, call), want, got)
                    else:
                        rep.ok(rule, construct, "%d positional arguments in the callee's parameter order" % len(call.args))
    return n


def check_derived(prog, rep):
    """R8: a cached field computed by a `_calc_<name>` helper is computed by the helper of its own name (sibling helpers exist for each field)"""
    n = 0
    for m in prog.modules.values():
        if not m.name.startswith(PROB):
            continue
        for c in m.classes.values():
            funcs = list(c.methods.values()) + [g for pr in c.own_props.values() for g in (pr.getter, pr.setter) if g is not None]
            for f in funcs:
                for st in walk_no_nested(f.node):
                    if not (isinstance(st, ast.Assign) and len(st.targets) == 1 and isinstance(st.value, ast.Call) and isinstance(st.value.func, ast.Attribute)):
                        continue
                    t = st.targets[0]
                    fld = field_of(t) if isinstance(t, ast.Attribute) else None
                    helper = st.value.func.attr
                    if fld is None or not helper.startswith("_calc_") or dump(st.value.func.value) not in ("self", "cls"):
                        continue
                    a, b = fld.lstrip("_"), helper[len("_calc_"):]
                    n += 1
                    rep.saw(f)
                    construct = "%s: self._%s" % (f.qualname, a)
                    own = prog.lookup_method(c, "_calc_" + a) if prog.mro(c) is not None else c.methods.get("_calc_" + a)
                    if a == b:
                        rep.ok("R8-derived", construct, "computed by its own helper _calc_%s" % a)
                    elif own is not None:
                        rep.violate("R8-derived", construct, "the cached field _%s is computed with _calc_%s although _calc_%s exists: the field holds the other quantity" % (a, b, a),
                                    where(f, st), "self._calc_%s(...)" % a, "self._calc_%s(...)" % b)
                    else:
                        rep.ok("R8-derived", construct, "computed by _calc_%s (no helper named after the field)" % b)
    rep.floor("R8-derived", 6)


def check_subset_frequencies(prog, rep, tier):
    """R9: allele frequencies of a selected subset that are compared with 0 / 1 are exact at fixation (shared taint rule of C09)"""
    from rules import c09
    allf = list(prog.all_functions())
    sel = [f for f in allf if f.module.name.startswith("pybrops.breed.prot.sel")]
    funcs = allf if tier == "thorough" else [f for f in sel if f.module.name.startswith(PROB)]
    c09.check_exactness(prog, rep, tier, rule="R9-exact-frequency", funcs=funcs, sink_filter=lambda f: f.module.name.startswith("pybrops.breed.prot.sel"))
    rep.floor("R9-exact-frequency", 4)


def check_decision_purity(prog, rep):
    """R11-decision: no criterion writes through its decision vector.  latentfn / evalfn / the transformation hooks all receive the SAME x (evalfn hands it
    to latentfn and then to obj_trans / ineqcv_trans / eqcv_trans): an in-place update in one of them changes what the others see and what the optimiser holds."""
    from sa.purity import Purity, root_text, may_be_array
    R = "R11-decision"
    summaries = {}
    n = 0
    for m in prog.modules.values():
        if not (m.name.startswith("pybrops.breed.prot.sel.prob") or m.name.startswith("pybrops.opt.prob")):
            continue
        for K in m.classes.values():
            for f in K.methods.values():
                ps = f.params()
                if len(ps) < 2 or ps[1] != "x" or f.name.startswith("__"):
                    continue
                try:
                    pu = Purity(prog, f, summaries)
                except RecursionError:
                    rep.unrec(R, f.qualname, "alias walk did not terminate")
                    continue
                rep.saw(f)
                n += 1
                evs = [e for e in pu.events if ("param", "x") in e.roots and not (isinstance(e.node, ast.AugAssign) and isinstance(e.node.target, ast.Name) and not may_be_array(f, "x"))]
                if evs:
                    e = evs[0]
                    rep.violate(R, f.qualname, "`%s` writes through %s, which shares storage with the decision vector x handed in by the caller: after this call the transformations in "
                                "evalfn and the optimiser's own candidate see the changed vector" % (e.what, e.name), where(f, e.node), "a fresh array (e.g. contrib = (1.0 / x.sum()) * x)", e.what)
                else:
                    rep.ok(R, f.qualname, "no in-place update reaches the decision vector")
    return n


def check_weight_sizes(prog, rep):
    """R12-weights: each weight vector is sized and checked against its OWN count - obj_wt with nobj, ineqcv_wt with nineqcv, eqcv_wt with neqcv (evalfn multiplies
    weights and transformed values element by element: a vector of another length broadcasts, duplicates or drops the violations it reports)"""
    R = "R12-weights"
    pairs = {"obj_wt": "nobj", "ineqcv_wt": "nineqcv", "eqcv_wt": "neqcv"}
    counts = set(pairs.values())
    for mod, cname in (("pybrops.opt.prob.Problem", "Problem"), ("pybrops.breed.prot.sel.prob.SelectionProblem", "SelectionProblem")):
        try:
            K = prog.get_class(cname, mod)
        except Exception:
            continue
        for wt, cnt in pairs.items():
            pinfo = K.own_props.get(wt)
            st = pinfo.setter if pinfo is not None else None
            if st is None:
                continue
            rep.saw(st)
            used = sorted({field_of(n) for n in ast.walk(st.node) if isinstance(n, ast.Attribute) and field_of(n) in counts})
            calls = [c for c in ast.walk(st.node) if isinstance(c, ast.Call) and isinstance(c.func, ast.Attribute) and dump(c.func.value) == "self" and not c.func.attr.startswith("__")]
            if used == [cnt]:
                rep.ok(R, st.qualname, "%s is sized by %s" % (wt, cnt))
            elif not used and calls:
                rep.unrec(R, st.qualname, "%s is sized inside %s()" % (wt, calls[0].func.attr))
            elif not used:
                rep.unrec(R, st.qualname, "no count attribute read in the %s setter" % wt)
            else:
                wrong = [u for u in used if u != cnt]
                rep.violate(R, st.qualname, "the %s setter sizes / checks the vector with %s instead of %s: with different numbers of inequality and equality constraints the "
                            "weights have the wrong length and evalfn reports violations that are not weight x transformation" % (wt, ", ".join(wrong), cnt), where(st),
                            "self.%s" % cnt, "self.%s" % wrong[0])


def run(prog, rep, tier):
    rep.explanation = ("Every latentfn of the problem classes is normalised to an algebraic normal form with the contribution idioms canonicalised, then compared with "
                       "its siblings (the four decision encodings of one criterion) and with the criterion's reference term; evalfn/_evaluate wiring, Cholesky "
                       "factor construction, factory keyword forwarding, chunk tiling/slice coupling and loop-variant data are structural rules.")
    rep.not_decided = ["numerical agreement to rounding", "that the reference terms are the textbook definitions beyond their transcription",
                       "classes whose latentfn simulates (RealLookAhead...) are listed, not claimed"]
    for r, n in (("R1-criterion", 50), ("R2-invariance", 50), ("R3-wiring", 2), ("R4-factor", 8), ("R5-factories", 60), ("R6-chunks", 2), ("R7-loopdata", 4), ("R11-decision", 50), ("R12-weights", 3)):
        rep.floor(r, n)
    check_criteria(prog, rep, tier)
    check_wiring(prog, rep)
    check_factor(prog, rep)
    check_factories(prog, rep)
    check_positional(prog, rep)
    check_chunks(prog, rep)
    check_loopdata(prog, rep)
    check_derived(prog, rep)
    check_scratch(prog, rep)
    check_decision_purity(prog, rep)
    check_weight_sizes(prog, rep)
    check_subset_frequencies(prog, rep, tier)
    wire(prog, rep, "C05", 60, 330, 460)
